#!/usr/bin/env python3
"""Regenerates /verif/MANIFEST.json from harness/registry.py."""
import json
import sys
from pathlib import Path

ROOT = Path(__file__).resolve().parent.parent
sys.path.insert(0, str(ROOT / 'harness'))
import registry  # noqa: E402

props = [json.loads(l)['id'] for l in open(ROOT / 'properties.jsonl')]
checks = []
for pid in props:
    if pid not in registry.CHECKS:
        continue
    c = registry.CHECKS[pid]
    checks.append({
        'property_id': pid,
        'quick_cmd': f'./check {pid} --tier quick',
        'thorough_cmd': f'./check {pid} --tier thorough',
        'evidence_file': f'/verif/evidence/{pid}.json',
        'replay_cmd_template': f'./check {pid} --replay {{path}}',
        'engine': 'tlc+harness',
        'level_claimed': {'category': c.get('level', 'model_checking'), 'text': c['text'],
                          'design_ref': c['design_ref']},
        'level_note': c['note'],
        'technique': c['technique'],
    })
na = [{'property_id': pid, 'reason': registry.NOT_YET.get(pid, 'check not built yet in this round (planned: see DESIGN.md §4); not claimed')}
      for pid in props if pid not in registry.CHECKS]
manifest = {
    'version': 1,
    'setup_cmd': 'cd /verif && ./setup.sh',
    'hooks': {
        'guard': 'FURAX_VERIF',
        'enable': 'no source hooks: the harness imports furax from /repo/src of the current working tree and, with '
                  'FURAX_VERIF=1 in its worker processes, wraps the rule instances of BINARY_RULE_REGISTRY at run time',
        'baseline_off_cmd': 'cd /repo && /venv/bin/python -m pytest -ra -q -p no:cacheprovider --timeout=900 '
                            '--continue-on-collection-errors',
        'source_commits': [],
        'add_only': True,
    },
    'engines': [{
        'name': 'tlc+harness',
        'path': '/verif/check',
        'serves_properties': [c['property_id'] for c in checks],
        'kind_free_text': 'TLC 1.8 on the TLA+ modules in /verif/spec (exhaustive + simulation + batch trace validation) '
                          'driven by /verif/harness (Python, executes the generated behaviours on furax from /repo/src)',
    }],
    'checks': checks,
    'not_applicable': na,
    'notes': 'See DESIGN.md. Exit codes: 0 held, 1 VIOLATION, 2 machinery failure.',
}
(ROOT / 'MANIFEST.json').write_text(json.dumps(manifest, indent=1) + '\n')
print(f'{len(checks)} checks, {len(na)} not claimed')
