#!/bin/bash
# tools/neutralrun.sh <patch> <name> [check ids...] : run checks against a behaviour-preserving change; any VIOLATION or
# machinery error is a false alarm of the machinery (or the change is not neutral).  Uses a scratch worktree.
patch=$1; name=$2; shift 2
checks=${@:-C01 C02 C03 C04 C05 C06 C07 C08 C09 C10 C11 C12 C13 C14 C15 C16 C17 C18 C19 C20}
wt=/var/tmp/neutralwt.$$
git -C /repo worktree add -q --detach "$wt" HEAD || exit 2
( cd "$wt" && git apply --include='src/*' "$patch" ) || { git -C /repo worktree remove --force "$wt"; echo "$name: patch does not apply"; exit 2; }
for c in $checks; do
  s=$(date +%s)
  out=$(cd /verif && VERIF_EVIDENCE_DIR=/var/tmp/mut-evidence FURAX_REPO="$wt" timeout 3000 ./check "$c" --tier quick 2>&1)
  rc=$?
  echo "$name $c rc=$rc $(( $(date +%s)-s ))s $(printf '%s\n' "$out" | grep -E '^VIOLATION|MACHINERY' | head -2 | cut -c1-200)"
done
git -C /repo worktree remove --force "$wt"
