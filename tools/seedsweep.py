#!/usr/bin/env python3
"""tools/seedsweep.py [-j N] [pattern]: run, for every seeded change under /verif/seeded (and every mutants/*.patch listed
in mutants/RESULTS.txt as detected), the first check that is recorded as detecting it, against a scratch worktree with the
change applied (tools/mutrun.sh).  Prints one line per change; exit 1 if a change recorded as detected is no longer."""
import glob
import json
import subprocess
import sys
from concurrent.futures import ThreadPoolExecutor

args = sys.argv[1:]
jobs = 3
if args[:1] == ['-j']:
    jobs = int(args[1]); args = args[2:]
pat = args[0] if args else ''
todo = []
for d in sorted(glob.glob('/verif/seeded/*/')):
    m = json.load(open(d + 'meta.json'))
    det = (m.get('detected_after_strengthening') or []) + (m.get('detected_by') or [])
    if pat in m['name'] and det:
        todo.append((m['name'], d + 'patch.diff', det[0]))


def one(item):
    name, patch, check = item
    r = subprocess.run(['/verif/tools/mutrun.sh', patch, check], capture_output=True, text=True)
    line = next((l for l in r.stdout.splitlines() if 'violations=' in l), r.stdout[-200:])
    ok = 'violations=0' not in line and 'machinery=0' in line
    print(('ok   ' if ok else 'MISS ') + name, check, line.split(':', 1)[-1].strip(), flush=True)
    return ok


with ThreadPoolExecutor(jobs) as ex:
    res = list(ex.map(one, todo))
print(f'{sum(res)} of {len(res)} detected')
sys.exit(0 if all(res) else 1)
