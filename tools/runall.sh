#!/bin/bash
# tools/runall.sh [tier] : run every registered check once, print rc and wall time
cd /verif
tier=${1:-quick}
for p in $(python3 -c "import json; print(' '.join(c['property_id'] for c in json.load(open('MANIFEST.json'))['checks']))"); do
  s=$(date +%s)


  out=$(./check $p --tier $tier 2>&1); rc=$?; out=$(printf "%s\n" "$out" | grep -E "^VIOLATION|^KNOWN-FINDING|MACHINERY" | head -3 | cut -c1-160)
  echo "$p rc=$rc $(( $(date +%s) - s ))s $out"
done
