#!/usr/bin/env python3
"""tools/seedcheck.py <seed-dir> <name> <property> <check ids...>

Confirms a seeded breaking change written by an independent sub-agent and records it under /verif/seeded/<name>/:
  1. fresh scratch worktree of /repo HEAD; demo.py must exit 0 WITHOUT the change;
  2. patch.diff applied; demo.py must exit non-zero WITH the change;
  3. the repository's full test suite with the change: every baseline stable-pass test must still pass;
  4. the given checks are run against the changed tree (FURAX_REPO) - do they report a VIOLATION?
Nothing is ever applied to /repo itself."""
import json
import os
import shutil
import subprocess
import sys
import time
import xml.etree.ElementTree as ET
from pathlib import Path

seed, name, prop, checks = Path(sys.argv[1]), sys.argv[2], sys.argv[3], sys.argv[4:]
wt = Path(f'/var/tmp/seedwt.{os.getpid()}')
out = Path('/verif/seeded') / name
out.mkdir(parents=True, exist_ok=True)
meta = {'name': name, 'property': prop, 'source': f'independent sub-agent given only the text of {prop} and a scratch worktree',
        'ran': []}


def sh(cmd, **kw):
    meta['ran'].append(cmd if isinstance(cmd, str) else ' '.join(cmd))
    return subprocess.run(cmd, shell=isinstance(cmd, str), capture_output=True, text=True, **kw)


subprocess.run(['git', '-C', '/repo', 'worktree', 'add', '-q', '--detach', str(wt), 'HEAD'], check=True)
try:
    env = dict(os.environ, PYTHONPATH=str(wt / 'src'), JAX_PLATFORMS='cpu')
    shutil.copy(seed / 'demo.py', wt / 'demo.py')
    r0 = sh(f'cd {wt} && timeout 900 /venv/bin/python demo.py', env=env)
    meta['demo_without_change_exit'] = r0.returncode
    # the patch: source files only
    patch = (seed / 'patch.diff').read_text()
    (wt / 'seed.patch').write_text(patch)
    ra = sh(f'cd {wt} && git apply --include="src/*" seed.patch')
    meta['patch_applies'] = ra.returncode == 0
    meta['patch_apply_stderr'] = ra.stderr[-500:]
    meta['files_changed'] = sh(f'cd {wt} && git diff --stat -- src').stdout.strip().splitlines()
    r1 = sh(f'cd {wt} && timeout 900 /venv/bin/python demo.py', env=env)
    meta['demo_with_change_exit'] = r1.returncode
    meta['demo_with_change_tail'] = (r1.stdout + r1.stderr)[-600:]
    # existing tests with the change
    t0 = time.time()
    junit = wt / 'junit.xml'
    sh(f'cd {wt} && timeout 2400 /venv/bin/python -m pytest -q -p no:cacheprovider --timeout=900 '
       f'--continue-on-collection-errors --junitxml={junit} tests > /dev/null 2>&1', env=env)
    stable = set(json.load(open('/root/.vp/BASELINE.json'))['stable_pass'])
    res = {}
    if junit.exists():
        for tc in ET.parse(junit).iter('testcase'):
            n = tc.get('classname') + '::' + tc.get('name')
            res[n] = 'pass' if not any(ch.tag in ('failure', 'error', 'skipped') for ch in tc) else 'fail'
    broken = sorted(s for s in stable if res.get(s) != 'pass')
    meta['tests'] = {'baseline_stable': len(stable), 'stable_now_failing': broken[:20], 'passed': sum(v == 'pass' for v in res.values()),
                     'wall_s': round(time.time() - t0)}
    # my checks against the changed tree
    meta['checks'] = {}
    for c in checks:
        e2 = dict(os.environ, FURAX_REPO=str(wt), VERIF_EVIDENCE_DIR='/var/tmp/mut-evidence')
        snap = os.environ.get('VERIF_SNAP', '/verif')     # a snapshot of /verif, so that /verif can be edited meanwhile
        rc = sh(f'cd {snap} && timeout 3000 /venv/bin/python {snap}/harness/main.py {c} --tier quick', env=e2)
        meta['verif_commit'] = subprocess.run(['git', '-C', '/verif', 'log', '--format=%h', '-1'], capture_output=True, text=True).stdout.strip()
        lines = [l for l in rc.stdout.splitlines() if l.startswith('VIOLATION')]
        meta['checks'][c] = {'exit': rc.returncode, 'violations': len(lines), 'first': [l[:220] for l in lines[:3]]}
    meta['confirmed'] = (meta['demo_without_change_exit'] == 0 and meta['demo_with_change_exit'] != 0
                         and meta['patch_applies'] and not broken)
    meta['detected_by'] = [c for c, v in meta['checks'].items() if v['exit'] == 1 and v['violations'] > 0]
    shutil.copy(seed / 'patch.diff', out / 'patch.diff')
    shutil.copy(seed / 'demo.py', out / 'demo.py')
    if (seed / 'notes.txt').exists():
        meta['needs_to_manifest'] = (seed / 'notes.txt').read_text()[:1500]
    (out / 'meta.json').write_text(json.dumps(meta, indent=1))
    print(json.dumps({k: meta[k] for k in ('name', 'confirmed', 'detected_by', 'demo_without_change_exit',
                                           'demo_with_change_exit')}), meta['tests']['stable_now_failing'][:3])
finally:
    subprocess.run(['git', '-C', '/repo', 'worktree', 'remove', '--force', str(wt)])
