#!/bin/bash
# tools/mutsweep.sh : run every mutant of /verif/mutants against the checks that should catch it; writes mutants/RESULTS.txt
cd /verif
declare -A MAP=(
 [m01_qurot_sign]="C01 C15" [m02_no_stepback]="C07" [m03_homothety_side]="C07" [m04_index_transpose_ignores_unique]="C12 C01"
 [m05_no_restart_after_scalar]="C07" [m06_rot_hwp_no_transpose]="C15 C01" [m07_comp_transpose_not_reversed]="C03"
 [m08_config_exit_no_reset]="C19" [m09_hwp_v_sign]="C15" [m10_rotT_sign]="C15 C03" [m11_rotT_rotT_sign]="C15 C01"
 [m12_blockrow_asmatrix_vstack]="C04 C10" [m13_blockcol_transpose_blocks_not_transposed]="C03 C10" [m14_diagonal_tagged_psd]="C08"
 [m16_addition_neg_drops_sign]="C02" [m17_rmatmul_order]="C02" [m18_inverse_accepts_non_square]="C06"
 [m19_broadcastdiag_square]="C05" [m20_euler_angles_swapped]="C16" [m21_sat_without_hwp]="C16"
 [m22_homothety_concretizes_value]="C18" [m23_inverse_collapse_by_type]="C02" [m24_hwp_factory_order]="C15"
)
out=/verif/mutants/RESULTS.txt
: > $out.tmp
for m in $(ls mutants/*.patch | sort); do
  name=$(basename $m .patch)
  checks=${MAP[$name]}
  if [ -z "$checks" ]; then
    case $name in c09_*) checks=C09;; c11_*) checks=C11;; c13_*) checks=C13;; c14_*) checks=C14;; c17_*) checks=C17;; c20_*) checks=C20;; esac
  fi
  [ -n "$1" ] && [[ "$name" != $1* ]] && continue
  tools/mutrun.sh /verif/$m $checks 2>&1 | grep -E "violations=" >> $out.tmp
done
mv $out.tmp $out
