#!/bin/sh
# tools/mutrun.sh <patch> <check ids...> : apply a mutant to /repo, run the checks, restore /repo.
# Only for validating the machinery; nothing is committed to /repo.
patch=$1; shift
cd /repo || exit 2
git diff --quiet || { echo "/repo is dirty"; exit 2; }
git apply "$patch" || exit 2
for c in "$@"; do
  out=$(cd /verif && timeout 3000 ./check "$c" --tier "${TIER:-quick}" 2>&1 | grep -v "Converged\|64-bit")
  rc=$?
  nviol=$(printf '%s\n' "$out" | grep -c '^VIOLATION')
  nmach=$(printf '%s\n' "$out" | grep -c 'MACHINERY-ERROR')
  echo "$(basename "$patch") $c: violations=$nviol machinery=$nmach"
  printf '%s\n' "$out" | grep -E '^VIOLATION|MACHINERY' | head -3 | cut -c1-220
done
git -C /repo checkout -- .
