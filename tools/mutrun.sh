#!/bin/sh
# tools/mutrun.sh <patch> <check ids...> : apply a mutant to a scratch worktree of /repo (HEAD), run the checks
# against it (FURAX_REPO), remove the worktree.  /repo itself is never touched.
patch=$1; shift
wt=/var/tmp/mutwt.$$
git -C /repo worktree add -q --detach "$wt" HEAD || exit 2
( cd "$wt" && git apply "$patch" ) || { git -C /repo worktree remove --force "$wt"; exit 2; }
for c in "$@"; do
  out=$(cd /verif && VERIF_EVIDENCE_DIR=/var/tmp/mut-evidence FURAX_REPO="$wt" timeout 3000 ./check "$c" --tier "${TIER:-quick}" 2>&1 | grep -v "Converged\|64-bit")
  nviol=$(printf '%s\n' "$out" | grep -c '^VIOLATION')
  nmach=$(printf '%s\n' "$out" | grep -c 'MACHINERY-ERROR')
  echo "$(basename "$patch") $c: violations=$nviol machinery=$nmach"
  printf '%s\n' "$out" | grep -E '^VIOLATION|MACHINERY' | head -3 | cut -c1-220
done
git -C /repo worktree remove --force "$wt"
