------------------------------ MODULE MC_Pytree ------------------------------
(* C18 state machine: a class (or landscape) is chosen, then a mode; the model says whether mv can run in
   that mode and that the result is the eager one.  Every (class, mode) pair is emitted. *)
EXTENDS FxPytree, Json

VARIABLES phase, cls, mode
vars == <<phase, cls, mode>>

Init == phase = "class" /\ cls = "" /\ mode = ""
PickClass(c) == phase = "class" /\ cls' = c /\ phase' = "mode" /\ UNCHANGED mode
PickMode(m) == phase = "mode" /\ mode' = m /\ phase' = "done" /\ UNCHANGED cls
Next == (\E c \in Classes \cup Landscapes : PickClass(c)) \/ (\E m \in Modes : PickMode(m))

IsOp == cls \in Classes
\* C18: every mode can run every operator, except the boolean-mask selectors under the filtering jit
ModesRun == (phase = "done" /\ IsOp) => (CanRun(cls, mode) <=> ~(mode = "filter_jit" /\ MaskSelecting(cls)))
RoundTrips == (phase = "done" /\ IsOp) => RoundTripPreserves(cls)
LandscapeRoundTrips == (phase = "done" /\ ~IsOp) => UnflattenDefined(cls)

Emit == phase = "done" =>
  PrintT(<<"CASE", ToJson([cls |-> cls, mode |-> mode, is_op |-> IsOp,
                           can_run |-> IF IsOp THEN CanRun(cls, mode) ELSE UnflattenDefined(cls),
                           fields |-> IF IsOp THEN [f \in {x.name : x \in ClassTable[cls]} |-> TypeOf(cls, f)]
                                      ELSE [f \in LandscapeTable[cls].aux |-> "aux"],
                           ctor |-> IF IsOp THEN {} ELSE LandscapeTable[cls].ctor ])>>)
=============================================================================
