----------------------------- MODULE FxLandscape -----------------------------
(***************************************************************************)
(* furax.landscapes (property C17): pixel coordinates -> flat indices      *)
(* (StokesLandscape.pixel2index), hit histogram (get_coverage) and the     *)
(* HEALPix ring scheme (HealpixLandscape.world2pixel = ang2pix, RING).     *)
(*                                                                         *)
(* Each part has (a) a REFERENCE definition that says what the result      *)
(* should be, written declaratively and independently of the algorithm,    *)
(* and (b) a literal TRANSCRIPTION of the implementation's algorithm.      *)
(* MC_Landscape checks with TLC that they agree over the bounded domain.   *)
(*                                                                         *)
(* Exact arithmetic only:                                                  *)
(*  - pixel coordinates are integers q in QUARTER-pixel units (real        *)
(*    coordinate q/4), so that pixel centres (q % 4 = 0), pixel borders    *)
(*    (q % 4 = 2, the rounding ties) and interior points are all exact;    *)
(*  - sky directions are (z, tt) with z = cos(theta) and tt = phi/(pi/2)   *)
(*    rational; in the polar caps the point is given by s with             *)
(*    z = +-(1 - s^2/3), so that sqrt(3(1-|z|)) = s is rational.           *)
(***************************************************************************)
EXTENDS Integers, Sequences, FiniteSets, TLC

Abs(x) == IF x < 0 THEN -x ELSE x

RECURSIVE ProdTo(_, _)          \* s[1] * ... * s[k]
ProdTo(s, k) == IF k = 0 THEN 1 ELSE s[k] * ProdTo(s, k - 1)
Prod(s) == ProdTo(s, Len(s))

RECURSIVE SumTo(_, _)           \* s[1] + ... + s[k]
SumTo(s, k) == IF k = 0 THEN 0 ELSE s[k] + SumTo(s, k - 1)

RECURSIVE MaxTo(_, _)
MaxTo(s, k) == IF k = 1 THEN s[1] ELSE IF s[k] > MaxTo(s, k - 1) THEN s[k] ELSE MaxTo(s, k - 1)

Reverse(s) == [i \in 1..Len(s) |-> s[Len(s) + 1 - i]]

-----------------------------------------------------------------------------
(***************************************************************************)
(* PART 1 - pixel2index.  `ps` is pixel_shape = (n_x, n_y, ...), i.e. the  *)
(* array `shape` reversed; q is the sequence of coordinates (x, y, ...) in *)
(* quarter-pixel units.                                                    *)
(***************************************************************************)

(* ---- reference ---- *)

\* the integer pixel centres nearest to the real coordinate q/4: one, or two on a tie
Nearest4(q) == LET lo == q \div 4
                   cand == {lo, lo + 1}
               IN {c \in cand : \A d \in cand : Abs(4 * c - q) <= Abs(4 * d - q)}
IsTie4(q) == Cardinality(Nearest4(q)) = 2

InMap(ps, c) == \A d \in 1..Len(ps) : 0 <= c[d] /\ c[d] < ps[d]

\* first coordinate fastest: c[1] + n_1 c[2] + n_1 n_2 c[3] + ...
FlatIndex(ps, c) == SumTo([d \in 1..Len(ps) |-> c[d] * ProdTo(ps, d - 1)], Len(ps))

RefIndex(ps, c) == IF InMap(ps, c) THEN FlatIndex(ps, c) ELSE -1

\* all admissible choices of nearest centres (ties unconstrained) and the answers they give
Centres(q) == LET cand == UNION {Nearest4(q[d]) : d \in 1..Len(q)}
              IN {c \in [1..Len(q) -> cand] : \A d \in 1..Len(q) : c[d] \in Nearest4(q[d])}
Accept(ps, q) == {RefIndex(ps, c) : c \in Centres(q)}

\* properties of the reference itself (checked by TLC for every shape)
AllInMap(ps) == {c \in [1..Len(ps) -> 0..(MaxTo(ps, Len(ps)) - 1)] : InMap(ps, c)}
Bijective(ps) == /\ {FlatIndex(ps, c) : c \in AllInMap(ps)} = 0..(Prod(ps) - 1)
                 /\ Cardinality(AllInMap(ps)) = Prod(ps)
FirstFastest(ps) == \A c \in AllInMap(ps) : \A d \in 1..Len(ps) :
                       c[d] + 1 < ps[d] =>
                          FlatIndex(ps, [c EXCEPT ![d] = @ + 1]) = FlatIndex(ps, c) + ProdTo(ps, d - 1)
\* it is the C (row-major) offset in the array of shape Reverse(ps) at multi-index Reverse(c)
COffset(shape, idx) == SumTo([k \in 1..Len(shape) |->
                                 idx[k] * ProdTo(Reverse(shape), Len(shape) - k)], Len(shape))
RowMajorOfShape(ps) == \A c \in AllInMap(ps) : FlatIndex(ps, c) = COffset(Reverse(ps), Reverse(c))

(* ---- transcription of StokesLandscape.pixel2index ---- *)

\* jnp.round (round half to even) of q/4
RoundHalfEven4(q) == LET f == q \div 4
                         r == q % 4
                     IN IF r < 2 THEN f
                        ELSE IF r > 2 THEN f + 1
                        ELSE IF f % 2 = 0 THEN f ELSE f + 1

PixNone == [indices |-> 0, stride |-> 0, valid |-> TRUE, k |-> 0]

\* the statements before the loop:  stride = pixel_shape[0]; indices = round(coords[0]);
\*                                  valid = (0 <= indices) & (indices < pixel_shape[0])
PixBegin(ps, q1) == LET r == RoundHalfEven4(q1)
                    IN [indices |-> r, stride |-> ps[1], valid |-> (0 <= r /\ r < ps[1]), k |-> 1]

\* one iteration of  `for coord, dim in zip(coords[1:], pixel_shape[1:])`
PixStep(ps, st, qk) == LET d == st.k + 1
                           r == RoundHalfEven4(qk)
                       IN [indices |-> st.indices + r * st.stride,
                           stride |-> st.stride * ps[d],
                           valid |-> (st.valid /\ 0 <= r /\ r < ps[d]),
                           k |-> d]

\* return jnp.where(valid, indices, -1)
PixResult(st) == IF st.valid THEN st.indices ELSE -1

\* loop invariant after k dimensions
PixLoopInv(ps, q, st) ==
   LET r == [d \in 1..st.k |-> RoundHalfEven4(q[d])]
   IN /\ st.k = Len(q)
      /\ st.indices = SumTo([d \in 1..st.k |-> r[d] * ProdTo(ps, d - 1)], st.k)
      /\ st.stride = ProdTo(ps, st.k)
      /\ st.valid <=> \A d \in 1..st.k : 0 <= r[d] /\ r[d] < ps[d]

(* ---- index dtype ----                                                   *)
(* documented: int32 unless the largest index N-1 would overflow, then     *)
(* int64.  TLC integers are 32-bit: N - 1 <= 2^31 - 1, i.e. N <= 2^31, is  *)
(* evaluated by successive floor divisions instead of forming N.           *)
MaxInt32 == 2147483647
P30 == 1073741824
Div2p31(h) == IF h > P30 THEN 1                                \* floor(2^31 / h), 2 <= h < 2^31
              ELSE 2 * (P30 \div h) + ((2 * (P30 % h)) \div h)
RECURSIVE ProdLeq(_, _)                                        \* Prod(s) <= K
ProdLeq(s, K) == IF s = <<>> THEN 1 <= K ELSE ProdLeq(Tail(s), K \div Head(s))
RECURSIVE Fits32(_)                                            \* Prod(s) - 1 <= MaxInt32
Fits32(s) == IF s = <<>> THEN TRUE
             ELSE IF Head(s) = 1 THEN Fits32(Tail(s))
             ELSE ProdLeq(Tail(s), Div2p31(Head(s)))
IndexDtype(ps) == IF Fits32(ps) THEN "int32" ELSE "int64"

-----------------------------------------------------------------------------
(***************************************************************************)
(* PART 2 - get_coverage: hits is the sequence of flat indices of the      *)
(* samples (all valid: every sky direction lies in some HEALPix pixel; an  *)
(* index -1 would be scattered to the last pixel by JAX's negative-index   *)
(* rule - not reachable for HealpixLandscape).                             *)
(***************************************************************************)

(* ---- reference: the histogram, and its fold over the samples ---- *)
Histogram(N, hits) == [p \in 0..(N - 1) |-> Cardinality({i \in 1..Len(hits) : hits[i] = p})]
CovInit(N) == [p \in 0..(N - 1) |-> 0]
CovStep(cov, p) == [cov EXCEPT ![p] = @ + 1]
RECURSIVE SumFun(_, _)          \* cov[0] + ... + cov[n-1]
SumFun(cov, n) == IF n = 0 THEN 0 ELSE cov[n - 1] + SumFun(cov, n - 1)

(* ---- transcription: jnp.unique(indices, return_counts=True), zeros, scatter-add ---- *)
RECURSIVE SortedSeq(_)
SortedSeq(S) == IF S = {} THEN <<>>
                ELSE LET m == CHOOSE x \in S : \A y \in S : x <= y
                     IN <<m>> \o SortedSeq(S \ {m})
UniqueValues(hits) == SortedSeq({hits[i] : i \in 1..Len(hits)})
UniqueCounts(hits) == LET u == UniqueValues(hits)
                      IN [i \in 1..Len(u) |-> Cardinality({j \in 1..Len(hits) : hits[j] = u[i]})]
RECURSIVE ScatterAdd(_, _, _, _)   \* coverage.at[u].add(c), entry i..Len(u)
ScatterAdd(cov, u, c, i) == IF i > Len(u) THEN cov
                            ELSE ScatterAdd([cov EXCEPT ![u[i]] = @ + c[i]], u, c, i + 1)
CoverageImpl(N, hits) == ScatterAdd(CovInit(N), UniqueValues(hits), UniqueCounts(hits), 1)

-----------------------------------------------------------------------------
(***************************************************************************)
(* Rationals <<num, den>>, den > 0, in lowest terms.                       *)
(***************************************************************************)
RECURSIVE Gcd(_, _)
Gcd(a, b) == IF b = 0 THEN a ELSE Gcd(b, a % b)
Q(n, d) == LET sg == IF d < 0 THEN -1 ELSE 1
               g == Gcd(Abs(n), Abs(d))
           IN <<(sg * n) \div g, (sg * d) \div g>>
QI(n) == <<n, 1>>
QAdd(a, b) == Q(a[1] * b[2] + b[1] * a[2], a[2] * b[2])
QSub(a, b) == Q(a[1] * b[2] - b[1] * a[2], a[2] * b[2])
QMul(a, b) == LET x == Q(a[1], b[2])  y == Q(b[1], a[2])      \* cross-reduce first: smaller products
              IN <<x[1] * y[1], x[2] * y[2]>>
QDiv(a, b) == QMul(a, IF b[1] < 0 THEN <<-b[2], -b[1]>> ELSE <<b[2], b[1]>>)
QNeg(a) == <<-a[1], a[2]>>
QAbs(a) == <<Abs(a[1]), a[2]>>
QLe(a, b) == a[1] * b[2] <= b[1] * a[2]
QLt(a, b) == a[1] * b[2] < b[1] * a[2]
QMin(a, b) == IF QLe(a, b) THEN a ELSE b
QFloor(a) == a[1] \div a[2]
QIsInt(a) == a[2] = 1
QIsHalfInt(a) == a[2] = 2
\* distance to the nearest integer
QNearDist(a) == LET f == QSub(a, QI(QFloor(a))) IN QMin(f, QSub(QI(1), f))

-----------------------------------------------------------------------------
(***************************************************************************)
(* PART 3 - HEALPix, RING scheme (Gorski et al. 2005, ApJ 622, 759).       *)
(* n = nside.  Rings g = 1..4n-1 from the north pole; north cap g < n has  *)
(* 4g pixels per ring, the equatorial belt n <= g <= 3n has 4n, the south  *)
(* cap mirrors the north.  Pixels are numbered ring after ring, eastwards  *)
(* within a ring.                                                          *)
(*                                                                         *)
(* A point is [z, s, tt, north]: z = cos(theta) exactly; in the caps       *)
(* (|z| >= 2/3) s is given with |z| = 1 - s^2/3; tt = phi/(pi/2).          *)
(***************************************************************************)
NPix(n) == 12 * n * n
NCap(n) == 2 * n * (n - 1)
TwoThirds == <<2, 3>>

EqPt(z, tt) == [z |-> z, s |-> QI(0), tt |-> tt, cap |-> FALSE]
CapPt(north, s, tt) == LET az == QSub(QI(1), QDiv(QMul(s, s), QI(3)))
                       IN [z |-> IF north THEN az ELSE QNeg(az), s |-> s, tt |-> tt, cap |-> TRUE]
\* the square root the implementation needs is exactly s (when the point is given by s)
SqrtExact(pt) == pt.cap => QMul(pt.s, pt.s) = QMul(QI(3), QSub(QI(1), QAbs(pt.z)))

QMod4(t) == QSub(t, QI(4 * QFloor(QDiv(t, QI(4)))))

(* ---- reference: ring enumeration, pixel centres (pix2ang_ring), pixel boundaries ---- *)

\* [zone, i, j]: cap pixels: ring i counted from the nearest pole (1..n-1), j-th pixel (from 0)
\* eastwards; belt pixels: global ring number i in n..3n
RingInfo(n, p) ==
   IF p < NCap(n) THEN
      LET i == CHOOSE i \in 1..n : 2 * i * (i - 1) <= p /\ p < 2 * i * (i + 1)
      IN [zone |-> "north", i |-> i, j |-> p - 2 * i * (i - 1)]
   ELSE IF p < NPix(n) - NCap(n) THEN
      [zone |-> "eq", i |-> (p - NCap(n)) \div (4 * n) + n, j |-> (p - NCap(n)) % (4 * n)]
   ELSE
      LET m == NPix(n) - 1 - p      \* numbering mirrored from the south pole
          i == CHOOSE i \in 1..n : 2 * i * (i - 1) <= m /\ m < 2 * i * (i + 1)
      IN [zone |-> "south", i |-> i, j |-> 4 * i - 1 - (m - 2 * i * (i - 1))]

\* pixel centre: caps z = +-(1 - i^2/(3n^2)), phi = (j + 1/2) pi/(2i);
\* belt z = 4/3 - 2i/(3n), phi = (j + 1 - f) pi/(2n) with f = 1 if i+n is odd else 1/2
Centre(n, p) ==
   LET r == RingInfo(n, p)
   IN IF r.zone = "eq"
      THEN EqPt(Q(2 * (2 * n - r.i), 3 * n),
                IF (r.i + n) % 2 = 1 THEN Q(r.j, n) ELSE Q(2 * r.j + 1, 2 * n))
      ELSE CapPt(r.zone = "north", Q(r.i, n), Q(2 * r.j + 1, 2 * r.i))

\* Pixel boundaries are the curves u integer and v integer, where
\*   belt:  u = n (1/2 + tt - 3z/4),  v = n (1/2 + tt + 3z/4)
\*          [cos(theta) = 2/3 - 4k/(3n) +- 8 phi/(3 pi)]
\*   caps:  u = n s tp,  v = n s (1 - tp)  with tp = tt - floor(tt)
\*          [cos(theta) = 1 - k^2/(3n^2) (pi/(2 phi_t))^2  and same with phi_t - pi/2]
\* together with the meridians tt integer in the caps (u = 0 or v = 0).
EqUV(n, z, tt) == <<QMul(QI(n), QAdd(<<1, 2>>, QSub(tt, QMul(<<3, 4>>, z)))),
                    QMul(QI(n), QAdd(<<1, 2>>, QAdd(tt, QMul(<<3, 4>>, z))))>>
CapUV(n, s, tt) == LET tp == QSub(tt, QI(QFloor(tt)))
                   IN <<QMul(QMul(QI(n), s), tp), QMul(QMul(QI(n), s), QSub(QI(1), tp))>>

\* the points with given (u, v)
EqFromUV(n, u, v) == EqPt(QDiv(QMul(QI(2), QSub(v, u)), QI(3 * n)),
                          QMod4(QDiv(QSub(QAdd(u, v), QI(n)), QI(2 * n))))
CapFromUV(n, north, quad, u, v) == CapPt(north, QDiv(QAdd(u, v), QI(n)),
                                         QAdd(QI(quad), QDiv(u, QAdd(u, v))))

\* Pixel p is the cell around its centre: the points of the same zone whose (u, v) differ from
\* the centre's (which are half-integers: CentreHalfInt) by less than 1/2 in both coordinates.
\* Pixels of the rings n and 3n straddle the zone border |z| = 2/3: their belt part is given
\* with rep = "eq", their cap part with rep = "cap" (centre s = 1).
HasRep(n, p, rep) == LET r == RingInfo(n, p)
                     IN IF rep = "eq" THEN r.zone = "eq"
                        ELSE r.zone # "eq" \/ r.i = n \/ r.i = 3 * n
CentreAs(n, p, rep) == LET r == RingInfo(n, p)   c == Centre(n, p)
                       IN IF rep = "cap" /\ r.zone = "eq" THEN CapPt(r.i = n, QI(1), c.tt) ELSE c
CentreUV(n, p, rep) == LET c == CentreAs(n, p, rep)
                       IN IF rep = "eq" THEN EqUV(n, c.z, c.tt) ELSE CapUV(n, c.s, c.tt)
CentreHalfInt(n, p, rep) == QIsHalfInt(CentreUV(n, p, rep)[1]) /\ QIsHalfInt(CentreUV(n, p, rep)[2])

\* the point of pixel p at offset (a, b), |a|, |b| < 1/2, from the centre in (u, v)
PixelPoint(n, p, rep, a, b) ==
   LET c == CentreAs(n, p, rep)
       uv == CentreUV(n, p, rep)
       u == QAdd(uv[1], a)
       v == QAdd(uv[2], b)
   IN IF rep = "eq" THEN EqFromUV(n, u, v)
      ELSE CapFromUV(n, QLt(QI(0), c.z), QFloor(c.tt), u, v)
\* ... which exists in that zone iff
PointValid(pt) == IF pt.cap THEN QLt(QI(0), pt.s) /\ QLe(pt.s, QI(1))
                  ELSE QLe(QAbs(pt.z), TwoThirds)

(* ---- transcription of ang2pix (RING): jax_healpy._zphi2pix_ring, = HEALPix ang2pix_ring ---- *)
\* astype(int) of the non-negative arguments below is floor

IsPow2(n) == \E k \in 0..30 : n = 2 ^ k
RECURSIVE BitAnd(_, _)
BitAnd(x, y) == IF x = 0 \/ y = 0 THEN 0 ELSE (x % 2) * (y % 2) + 2 * BitAnd(x \div 2, y \div 2)

EqArgs(n, z, tt) == EqUV(n, z, tt)          \* <<nside*(0.5 + tt - 0.75 z), nside*(0.5 + tt + 0.75 z)>>

\* wrap = "mod": ip = (t1 >> 1) mod 4n (HEALPix definition, any nside)
\* wrap = "and": ip = (t1 >> 1) & (4n - 1) (jax_healpy; the same thing iff 4n is a power of two)
EquatorialPixA(n, args, wrap) ==
   LET jp == QFloor(args[1])
       jm == QFloor(args[2])
       ir == n + 1 + jp - jm
       kshift == 1 - (ir % 2)
       t1 == jp + jm - n + kshift + 1 + 4 * n + 4 * n
       ip == IF wrap = "mod" THEN (t1 \div 2) % (4 * n) ELSE BitAnd(t1 \div 2, 4 * n - 1)
   IN NCap(n) + (ir - 1) * 4 * n + ip

\* <<tp * tmp, (1 - tp) * tmp, tt * ir>> with tmp = nside * sqrt(3 (1 - |z|)) = nside * s
PolarArgs(n, s, tt) ==
   LET tp == QSub(tt, QI(QFloor(tt)))
       tmp == QMul(QI(n), s)
       a1 == QMul(tp, tmp)
       a2 == QMul(QSub(QI(1), tp), tmp)
       ir == QFloor(a1) + QFloor(a2) + 1
   IN <<a1, a2, QMul(tt, QI(ir))>>

PolarPixA(n, north, args) ==
   LET jp == QFloor(args[1])
       jm == QFloor(args[2])
       ir == jp + jm + 1
       ip == QFloor(args[3])
   IN IF north THEN 2 * ir * (ir - 1) + ip ELSE NPix(n) - 2 * ir * (ir + 1) + ip

\* everything about one point, the floor arguments being evaluated once:
\*   pix     ang2pix by the HEALPix definition
\*   pixand  ang2pix with the bit-mask wrap of jax_healpy
\*   margin  exact distance (in pixel units) of the point to the nearest discontinuity of any
\*           floor taken on the branch followed
\*   geo     in the caps the implementation takes ip = floor(tt * ir) where the boundary
\*           definition says quadrant * ir + jp: the same thing in exact arithmetic
HpxEval(n, pt) ==
   LET tt == QMod4(pt.tt)                                 \* jnp.mod(2 phi / pi, 4)
       belt == QLe(QAbs(pt.z), TwoThirds)                 \* jnp.abs(z) <= 2/3
       north == QLt(QI(0), pt.z)
       ea == EqArgs(n, pt.z, tt)
       pa == PolarArgs(n, pt.s, tt)
       ir == QFloor(pa[1]) + QFloor(pa[2]) + 1
   IN [pix |-> IF belt THEN EquatorialPixA(n, ea, "mod") ELSE PolarPixA(n, north, pa),
       pixand |-> IF belt THEN EquatorialPixA(n, ea, "and") ELSE PolarPixA(n, north, pa),
       margin |-> IF belt THEN QMin(QNearDist(ea[1]), QNearDist(ea[2]))
                  ELSE QMin(QNearDist(pa[1]), QMin(QNearDist(pa[2]), QNearDist(pa[3]))),
       geo |-> belt \/ QFloor(pa[3]) = QFloor(tt) * ir + QFloor(pa[1])]

Ang2Pix(n, pt) == HpxEval(n, pt).pix
=============================================================================
