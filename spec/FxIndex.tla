------------------------------- MODULE FxIndex -------------------------------
(***************************************************************************)
(* furax._base.indices.IndexOperator / furax._base.linear.PackOperator.    *)
(* Part 1: the reference - NumPy indexing `x[items]` as a selection map    *)
(* (output shape, and for every output position the input position) for   *)
(* tuples of integers, slices (step 1, 2, -1, None bounds), one ellipsis,  *)
(* and at most one array-like item: an integer array of rank 1 or 2        *)
(* (negative and repeated entries) or a boolean mask of rank 1 or 2.       *)
(* Integers next to an array-like item take part in advanced indexing      *)
(* (NumPy's adjacency rule decides where the broadcast dimensions go).     *)
(* Part 2: the transcription of the operator's own logic: unique_indices,  *)
(* indexed_axes, reduce(), the output structure, and the two rules.        *)
(* An item is a record [t, a, s, v, sh]:                                   *)
(*   t = "int"   a = the integer                                           *)
(*   t = "slice" s = <<start, stop, step>>, None encoded as NONE           *)
(*   t = "ell"                                                             *)
(*   t = "arr"   v = values (row-major), sh = shape of the index array     *)
(*   t = "mask"  v = bits (row-major), sh = shape of the mask              *)
(***************************************************************************)
EXTENDS FxShapes

NONE == 99
Item(t, a, s, v, sh) == [t |-> t, a |-> a, s |-> s, v |-> v, sh |-> sh]
IntI(a) == Item("int", a, <<>>, <<>>, <<>>)
SliceI(b, e, st) == Item("slice", 0, <<b, e, st>>, <<>>, <<>>)
FullI == SliceI(NONE, NONE, NONE)
EllI == Item("ell", 0, <<>>, <<>>, <<>>)
ArrI(v, sh) == Item("arr", 0, <<>>, v, sh)
MaskI(v, sh) == Item("mask", 0, <<>>, v, sh)

IsFull(it) == it.t = "slice" /\ it.s = <<NONE, NONE, NONE>>
IsArrayLike(it) == it.t \in {"arr", "mask"}
Consumes(it) == IF it.t = "ell" THEN 0 ELSE IF it.t = "mask" THEN Len(it.sh) ELSE 1

Norm(i, n) == IF i < 0 THEN i + n ELSE i
Clamp(x, lo, hi) == IF x < lo THEN lo ELSE IF x > hi THEN hi ELSE x

-----------------------------------------------------------------------------
(* Part 1: reference *)

\* Python slice.indices(n) -> the sequence of selected positions
SliceSel(n, s) ==
  LET step == IF s[3] = NONE THEN 1 ELSE s[3] IN
  IF step > 0
  THEN LET b == IF s[1] = NONE THEN 0 ELSE Clamp(Norm(s[1], n), 0, n)
           e == IF s[2] = NONE THEN n ELSE Clamp(Norm(s[2], n), 0, n)
           cnt == IF e > b THEN (e - b + step - 1) \div step ELSE 0
       IN [j \in 1..cnt |-> b + (j - 1) * step]
  ELSE LET b == IF s[1] = NONE THEN n - 1 ELSE Clamp(Norm(s[1], n), -1, n - 1)
           e == IF s[2] = NONE THEN -1 ELSE Clamp(Norm(s[2], n), -1, n - 1)
           cnt == IF b > e THEN (b - e + (-step) - 1) \div (-step) ELSE 0
       IN [j \in 1..cnt |-> b + (j - 1) * step]

SumConsumes(items) == SumSeq([i \in 1..Len(items) |-> Consumes(items[i])])
HasEll(items) == \E i \in 1..Len(items) : items[i].t = "ell"
Fulls(k) == [i \in 1..k |-> FullI]

\* ellipsis replaced by full slices / full slices appended: one entry per consumed axis group
Expand(items, rank) ==
  LET missing == rank - SumConsumes(items) IN
  IF HasEll(items)
  THEN LET p == CHOOSE i \in 1..Len(items) : items[i].t = "ell"
       IN SubSeq(items, 1, p - 1) \o Fulls(missing) \o SubSeq(items, p + 1, Len(items))
  ELSE items \o Fulls(missing)

\* first leaf axis (0-based) addressed by entry k of the expanded expression
AxisOf(ex, k) == SumSeq([i \in 1..(k - 1) |-> Consumes(ex[i])])

\* a mask of rank r selects like r integer arrays (nonzero()); positions in row-major order
MaskHits(it) == SelectSeq([f \in 1..Len(it.v) |-> f - 1], LAMBDA f : it.v[f + 1] = 1)

HasArrayLike(ex) == \E k \in 1..Len(ex) : IsArrayLike(ex[k])
IsAdv(ex, k) == IsArrayLike(ex[k]) \/ (ex[k].t = "int" /\ HasArrayLike(ex))
AdvPos(ex) == {k \in 1..Len(ex) : IsAdv(ex, k)}
AdvAdjacent(ex) == \A k \in 1..Len(ex) :
                      (k > CHOOSE a \in AdvPos(ex) : \A b \in AdvPos(ex) : a <= b) /\
                      (k < CHOOSE a \in AdvPos(ex) : \A b \in AdvPos(ex) : a >= b) => IsAdv(ex, k)

\* broadcast shape of the advanced part (at most one array-like item in scope)
BShape(ex) ==
  IF ~HasArrayLike(ex) THEN <<>>
  ELSE LET it == ex[CHOOSE k \in 1..Len(ex) : IsArrayLike(ex[k])]
       IN IF it.t = "arr" THEN it.sh ELSE <<Len(MaskHits(it))>>

SliceDims(ex, shape) ==
  [k \in 1..Len(ex) |-> IF ex[k].t = "slice" THEN Len(SliceSel(shape[AxisOf(ex, k) + 1], ex[k].s)) ELSE -1]

\* positions (entries of ex) that produce an output dimension, in output order, with -1 marking the
\* block of broadcast dimensions
OutLayout(ex) ==
  LET slices == SelectSeq([k \in 1..Len(ex) |-> k], LAMBDA k : ex[k].t = "slice")
  IN IF ~HasArrayLike(ex) THEN slices
     ELSE IF AdvAdjacent(ex)
          THEN LET first == CHOOSE a \in AdvPos(ex) : \A b \in AdvPos(ex) : a <= b
               IN SelectSeq(slices, LAMBDA k : k < first) \o <<-1>> \o SelectSeq(slices, LAMBDA k : k > first)
          ELSE <<-1>> \o slices

OutShape(ex, shape) ==
  ConcatAll([i \in 1..Len(OutLayout(ex)) |->
               IF OutLayout(ex)[i] = -1 THEN BShape(ex) ELSE <<SliceDims(ex, shape)[OutLayout(ex)[i]]>>])

\* offset of layout entry i inside the output multi-index
LayoutOffset(ex, shape, i) ==
  SumSeq([j \in 1..(i - 1) |-> IF OutLayout(ex)[j] = -1 THEN Len(BShape(ex)) ELSE 1])

\* input multi-index (0-based, per leaf axis) selected by output multi-index omi
InputIndex(ex, shape, omi) ==
  LET lay == OutLayout(ex)
      bpos == IF \E i \in 1..Len(lay) : lay[i] = -1 THEN CHOOSE i \in 1..Len(lay) : lay[i] = -1 ELSE 0
      bmi == IF bpos = 0 THEN <<>>
             ELSE SubSeq(omi, LayoutOffset(ex, shape, bpos) + 1, LayoutOffset(ex, shape, bpos) + Len(BShape(ex)))
      bflat == IF bpos = 0 THEN 0 ELSE Ravel(BShape(ex), bmi)
  IN ConcatAll([k \in 1..Len(ex) |->
       LET ax == AxisOf(ex, k)  n == shape[ax + 1] IN
       CASE ex[k].t = "int" -> <<Norm(ex[k].a, n)>>
         [] ex[k].t = "slice" ->
              LET li == CHOOSE i \in 1..Len(lay) : lay[i] = k
              IN <<SliceSel(n, ex[k].s)[omi[LayoutOffset(ex, shape, li) + 1] + 1]>>
         [] ex[k].t = "arr" -> <<Norm(ex[k].v[bflat + 1], n)>>
         [] ex[k].t = "mask" ->
              LET hit == MaskHits(ex[k])[bflat + 1]
                  sub == [a \in 1..Len(ex[k].sh) |-> shape[ax + a]]
              IN Unravel(sub, hit)])

\* the selection: output flat index -> input flat index (both 0-based), as a sequence
Selection(items, shape) ==
  LET ex == Expand(items, Len(shape))
      osh == OutShape(ex, shape)
  IN [f \in 1..ProdSeq(osh) |-> Ravel(shape, InputIndex(ex, shape, Unravel(osh, f - 1)))]

OutShapeOf(items, shape) == OutShape(Expand(items, Len(shape)), shape)

\* is the expression legal for a leaf of this shape (in bounds, dims available)?
Legal(items, shape) ==
  /\ SumConsumes(items) <= Len(shape)
  /\ Len(SelectSeq(items, LAMBDA it : it.t = "ell")) <= 1
  /\ Len(SelectSeq(items, IsArrayLike)) <= 1
  /\ LET ex == Expand(items, Len(shape)) IN
       \A k \in 1..Len(ex) :
          LET n == shape[AxisOf(ex, k) + 1] IN
          /\ (ex[k].t = "int" => -n <= ex[k].a /\ ex[k].a < n)
          /\ (ex[k].t = "arr" => \A i \in 1..Len(ex[k].v) : -n <= ex[k].v[i] /\ ex[k].v[i] < n)
          /\ (ex[k].t = "mask" => ex[k].sh = [a \in 1..Len(ex[k].sh) |-> shape[AxisOf(ex, k) + a]])

SelMatrix(items, shape) ==
  LET sel == Selection(items, shape) IN
  Mat(Len(sel), ProdSeq(shape), 1, LAMBDA i, j : IF sel[i] = j - 1 THEN 1 ELSE 0)

NoInputTwice(items, shape) ==
  LET sel == Selection(items, shape) IN \A i, j \in 1..Len(sel) : i # j => sel[i] # sel[j]

\* how many times each input position is selected
InputMultiplicity(items, shape) ==
  LET sel == Selection(items, shape) IN
  [j \in 1..ProdSeq(shape) |-> Len(SelectSeq(sel, LAMBDA x : x = j - 1))]

-----------------------------------------------------------------------------
(* Part 2: the operator's own logic, transcribed *)

\* __init__: unique_indices is forced to True when every item is an int, a slice, an ellipsis or a
\* boolean array; otherwise the caller's value (default False)
UniqueFlag(items, given) ==
  IF \A i \in 1..Len(items) : items[i].t \in {"int", "slice", "ell", "mask"} THEN TRUE ELSE given

\* the property `indexed_axes` (positions counted from the end after an ellipsis)
IndexedAxesT(items) ==
  LET n == Len(items)
      e == IF HasEll(items) THEN (CHOOSE i \in 1..n : items[i].t = "ell") - 1 ELSE n   \* 0-based ellipsis_index
      before == SelectSeq([i \in 1..n |-> i - 1], LAMBDA a : a < e /\ ~IsFull(items[a + 1]))
      after == SelectSeq([i \in 1..n |-> i - 1], LAMBDA a : a > e /\ ~IsFull(items[a + 1]))
  IN before \o [i \in 1..Len(after) |-> after[i] - n]

\* reference: the entries that are not full slices (as positions of the items tuple)
IndexedItems(items) == {i \in 1..Len(items) : items[i].t # "ell" /\ ~IsFull(items[i])}

ReducesToIdentity(items) == IndexedAxesT(items) = <<>>

\* IndexTransposeRule: P @ P.T -> identity iff the flag is set
PPtRewritten(items, given) == UniqueFlag(items, given)

\* TransposeIndexRule: P.T @ P -> DiagonalOperator(coverage, axis) when exactly one axis is indexed,
\* the flag is not set and all leaves have the same shape; coverage[j] = number of entries of the index
\* array equal to j (after the repair: negative aliases counted with their non-negative value)
PtPRewritten(items, given, shapes) ==
  Len(IndexedAxesT(items)) = 1 /\ ~UniqueFlag(items, given) /\ Cardinality(shapes) = 1
PtPAxis(items) == IndexedAxesT(items)[1]
PtPItem(items) == items[IF PtPAxis(items) >= 0 THEN PtPAxis(items) + 1 ELSE Len(items) + PtPAxis(items) + 1]
PtPCoverage(items, shape) ==
  LET it == PtPItem(items)
      n == shape[Norm(PtPAxis(items), Len(shape)) + 1]
  IN [j \in 1..n |-> Len(SelectSeq(it.v, LAMBDA x : Norm(x, n) = j - 1))]
\* the diagonal operator built from it multiplies along that axis: its diagonal over the flattened leaf
PtPDiagonal(items, shape) ==
  LET ax == Norm(PtPAxis(items), Len(shape))
      cov == PtPCoverage(items, shape)
  IN [f \in 1..ProdSeq(shape) |-> cov[Unravel(shape, f - 1)[ax + 1] + 1]]
=============================================================================
