------------------------------- MODULE FxViews -------------------------------
(***************************************************************************)
(* Derived observables of an operator term, as the code computes them:     *)
(* as_matrix() (the class-specific overrides and the generic loop), the    *)
(* algebraic tags registered by the decorators, and the dtype flow of      *)
(* out_structure().  Each is stated next to the matrix-level definition it *)
(* must agree with (C03, C04, C05, C06, C08).                              *)
(***************************************************************************)
EXTENDS FxAlgebra

-----------------------------------------------------------------------------
(* as_matrix(): class-specific constructions; "generic" = column j is op(e_j) *)
RECURSIVE AsMatrix(_)
AsMatrix(t) ==
  CASE t.k = "id" -> IdentityMat(SizeS(t.s))                                   \* jnp.identity(in_size)
    [] t.k = "hom" -> MatScale(t.p[1], t.p[2], IdentityMat(SizeS(t.s)))        \* value * identity
    [] t.k = "diag" -> DiagMat(ConcatAll([i \in 1..NLeaves(t.s) |-> t.p]))     \* diag(concatenated values)
    [] t.k = "diagq" -> DiagMatOver(ConcatAll([i \in 1..NLeaves(t.s) |-> Tail(t.p)]), t.p[1])
    [] t.k = "dinv" ->                                                         \* same, with the pseudo-inverse values
         LET one == IF t.ch[1].k = "diagq" THEN DiagPinvQ(Tail(t.ch[1].p), t.ch[1].p[1]) ELSE DiagPinv(t.ch[1].p) IN
         BlockDiag([i \in 1..NLeaves(InS(t)) |-> one])
    [] t.k = "toep" -> ToeplitzMat(t.s.sh[1], t.p)                             \* dense_symmetric_band_toeplitz
    [] t.k \in {"reshape", "ravel"} -> IdentityMat(SizeS(t.s))                 \* jnp.eye(in_size)
    [] t.k \in {"inv", "rotT"} -> MatInvO(AsMatrix(t.ch[1]))                    \* jnp.linalg.inv(operator.as_matrix())
    [] t.k = "add" -> MatSum([i \in 1..Len(t.ch) |-> AsMatrix(t.ch[i])])
    [] t.k = "brow" -> HStack([i \in 1..Len(t.ch) |-> AsMatrix(t.ch[i])])
    [] t.k = "bcol" -> VStack([i \in 1..Len(t.ch) |-> AsMatrix(t.ch[i])])
    [] t.k = "bdiag" -> BlockDiag([i \in 1..Len(t.ch) |-> AsMatrix(t.ch[i])])
    [] OTHER -> Den(t)                                                         \* generic basis loop

-----------------------------------------------------------------------------
(* tags: what lineax's is_* functions return for the class of t *)
Tags(t) ==
  [ sym |-> t.k \in SymmetricKinds,
    diag |-> t.k \in DiagonalKinds,
    lower |-> FALSE, upper |-> FALSE, tridiag |-> FALSE, psd |-> FALSE, nsd |-> FALSE ]

\* every claimed tag is true of the matrix
TagsTruthful(t) ==
  LET M == Den(t) g == Tags(t) IN
  /\ g.sym => IsSymmetric(M)
  /\ g.diag => IsDiagonalM(M)
  /\ g.lower => IsLower(M)
  /\ g.upper => IsUpper(M)
  /\ g.tridiag => IsTridiagonal(M)
  /\ g.psd => IsPSD(M)
  /\ g.nsd => IsNSD(M)
  /\ t.k \in OrthogonalKinds => IsOrthogonal(M)
  /\ t.k \in SquareKinds => InS(t) = OutS(t)

-----------------------------------------------------------------------------
(* has the inverse a closed form (no iterative solver anywhere inside)? *)
RECURSIVE SolverFree(_)
SolverFree(t) == t.k # "inv" /\ \A i \in 1..Len(t.ch) : SolverFree(t.ch[i])

\* no diagonal operator with a zero entry anywhere inside (then closed-form inverses are true inverses)
RECURSIVE NoZeroDiag(_)
NoZeroDiag(t) == /\ (t.k = "diag" => \A i \in 1..Len(t.p) : t.p[i] # 0)
                 /\ (t.k = "diagq" => \A i \in 2..Len(t.p) : t.p[i] # 0)
                 /\ \A i \in 1..Len(t.ch) : NoZeroDiag(t.ch[i])
\* small enough for the exact determinant / inverse by expansion
Small(M) == M.r <= 4 /\ M.c <= 4
\* (determinants are only expanded when they stay far inside TLC's 32-bit integers)
BoundedEntries(M) == M.d < 5000 /\ \A i \in 1..M.r, j \in 1..M.c : Abs(M.e[i][j]) < 5000
SmallSPD(M) == M.r = M.c /\ M.r <= 4 /\ BoundedEntries(M) /\ IsPosDef(M)

\* Moore-Penrose identities
IsPinv(A, X) ==
  /\ MatMul(MatMul(A, X), A) = A
  /\ MatMul(MatMul(X, A), X) = X
  /\ IsSymmetric(MatMul(A, X))
  /\ IsSymmetric(MatMul(X, A))
=============================================================================
