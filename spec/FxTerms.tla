------------------------------- MODULE FxTerms -------------------------------
(***************************************************************************)
(* The operator term language of furax and its meaning.                    *)
(*                                                                         *)
(* A term is a record  [k, id, s, p, ch]  (same fields for every kind):    *)
(*   k   class kind (see below)                                            *)
(*   id  object identity (0 = an object nobody else refers to); the rules  *)
(*       of the library test `left.operator is right`                      *)
(*   s   the in_structure the object carries (leaf-like kinds), or the     *)
(*       container tree of a block operator (leaves Leaf(<<i>>,"op") = i-th*)
(*       child), or NoS                                                    *)
(*   p   integer parameters                                                *)
(*   ch  child terms                                                       *)
(*                                                                         *)
(* kinds and parameters                                                    *)
(*   "id"      IdentityOperator(s)                                         *)
(*   "hom"     HomothetyOperator(p[1]/p[2], s)                             *)
(*   "dense"   DenseBlockDiagonalOperator 'ij,j->i', p = <<r, c, e11, ..>> *)
(*   "toep"    SymmetricBandToeplitzOperator, p = band values              *)
(*   "obs"     ToastObservationMatrixOperator (square CSR matrix read from *)
(*             a file), p = <<n, n, e11, ..>>                              *)
(*   "diag"    DiagonalOperator, p = values (1-D, applied to every leaf)   *)
(*   "diagq"   DiagonalOperator with rational values p[i+1]/p[1] (tiny or  *)
(*             huge entries); "dinv" wraps it like "diag"                  *)
(*   "dinv"    DiagonalInverseOperator(ch[1])                              *)
(*   "bdiagb"  BroadcastDiagonalOperator, p = <<r, n, v11, ..>>, axis -1   *)
(*   "index"   IndexOperator on 1-D leaves, p = <<unique, i1, .., im>>     *)
(*   "pack"    PackOperator, p = mask bits                                 *)
(*   "mvax"    MoveAxisOperator, p = <<source, destination>>               *)
(*   "reshape" ReshapeOperator, p = target shape                           *)
(*   "ravel"   RavelOperator, p = <<first, last>>                          *)
(*   "rot"     QURotationOperator, p = angles (see FxAngles below)         *)
(*   "rotT"    QURotationTransposeOperator(ch[1])                          *)
(*   "hwp"     HWPOperator(s)        "pol"  LinearPolarizerOperator(s)     *)
(*   "T"       TransposeOperator(ch[1])    (generic lazy transpose)        *)
(*   "RT"      ReshapeTransposeOperator(ch[1])                             *)
(*   "inv"     InverseOperator(ch[1])      (lazy, iterative solver)        *)
(*   "comp"    CompositionOperator(ch)     "add"  AdditionOperator(ch)     *)
(*   "brow" "bdiag" "bcol"  block operators over the container tree s      *)
(***************************************************************************)
EXTENDS FxShapes

NoS == Leaf(<<>>, "")
Term(k, id, s, p, ch) == [k |-> k, id |-> id, s |-> s, p |-> p, ch |-> ch]
ErrT == Term("error", 0, NoS, <<>>, <<>>)
IsErr(t) == t.k = "error"

Id(s) == Term("id", 0, s, <<>>, <<>>)
Hom(n, d, s) == LET g == Gcd(n, d) * (IF d < 0 THEN -1 ELSE 1)
                IN Term("hom", 0, s, <<n \div g, d \div g>>, <<>>)
Comp(ops) == Term("comp", 0, NoS, <<>>, ops)
AddT(ops) == Term("add", 0, NoS, <<>>, ops)
TOf(t) == Term("T", 0, NoS, <<>>, <<t>>)
RTOf(t) == Term("RT", 0, NoS, <<>>, <<t>>)
InvOf(t) == Term("inv", 0, NoS, <<>>, <<t>>)
DInvOf(t) == Term("dinv", 0, NoS, <<>>, <<t>>)
RotTOf(t) == Term("rotT", 0, NoS, <<>>, <<t>>)

\* the term with every object identity erased and rotation angles taken modulo a full turn
\* (structural comparison)
RECURSIVE StripIds(_)
StripIds(t) == [t EXCEPT !.id = 0, !.ch = TLCEval([i \in 1..Len(t.ch) |-> StripIds(t.ch[i])]),
                         !.p = IF t.k = "rot" THEN TLCEval([i \in 1..Len(t.p) |-> IF i % 2 = 1 THEN t.p[i] % 4 ELSE t.p[i]])
                               ELSE t.p]

BlockKinds == {"brow", "bdiag", "bcol"}
LazyInverseKinds == {"inv", "dinv", "rotT"}   \* AbstractLazyInverseOperator subclasses
TransposeKinds == {"T", "RT", "rotT"}         \* TransposeOperator subclasses

-----------------------------------------------------------------------------
(* Angles.  2a = q * pi/2 + n * phi with cos(phi) = 3/5, sin(phi) = 4/5, so *)
(* cos 2a, sin 2a are rational and the sign of every angle matters.  An    *)
(* angle array is <<q1, n1, ..., qL, nL>>: L = 1 is a scalar angle         *)
(* (q, n) is also an integer linear form over two generators (pi/4 and     *)
(* phi/2): the harness instantiates the generators with arbitrary reals.   *)
(* (broadcast), L = m one angle per element of the Stokes leaves.          *)

\* (3+4i)^n as <<re, im>>, n >= 0
RECURSIVE PowPhi(_)
PowPhi(n) == IF n = 0 THEN <<1, 0>>
             ELSE LET z == PowPhi(n - 1) IN <<3 * z[1] - 4 * z[2], 4 * z[1] + 3 * z[2]>>
RECURSIVE Pow5(_)
Pow5(n) == IF n = 0 THEN 1 ELSE 5 * Pow5(n - 1)
\* <<cos 2a * D, sin 2a * D, D>> for 2a = q pi/2 + n phi
CisNum(q, n) ==
  LET z0 == PowPhi(Abs(n))
      z == IF n < 0 THEN <<z0[1], -z0[2]>> ELSE z0       \* conjugate for negative n
      qq == q % 4
      w == CASE qq = 0 -> z [] qq = 1 -> <<-z[2], z[1]>> [] qq = 2 -> <<-z[1], -z[2]>> [] qq = 3 -> <<z[2], -z[1]>>
  IN <<w[1], w[2], Pow5(Abs(n))>>

NAngles(p) == Len(p) \div 2
AngleAt(p, i, m) == IF NAngles(p) = 1 THEN <<p[1], p[2]>> ELSE <<p[2 * i - 1], p[2 * i]>>
\* element-wise combination  sa * a + sb * b  of two angle arrays (broadcast scalar/vector)
AngleLin(sa, a, sb, b) ==
  LET L == Max2(NAngles(a), NAngles(b))
  IN TLCEval([i \in 1..(2 * L) |->
        LET e == (i + 1) \div 2
            x == AngleAt(a, e, L)
            y == AngleAt(b, e, L)
        IN IF i % 2 = 1 THEN sa * x[1] + sb * y[1] ELSE sa * x[2] + sb * y[2]])

-----------------------------------------------------------------------------
(* structures *)

LeafDt(s) == Leaves(s)[1].dt
WithShape(l, sh) == Leaf(sh, l.dt)

NormAxis(a, nd) == IF a < 0 THEN a + nd ELSE a

\* numpy.moveaxis on a shape, 0-based axes; p = <<s1, .., sk, d1, .., dk>> (k sources, k destinations):
\* order = the axes that are not sources, then for (dest, src) sorted by dest: insert src at position dest
MoveK(p) == Len(p) \div 2
MoveSrc(p, nd) == [i \in 1..MoveK(p) |-> NormAxis(p[i], nd)]
MoveDst(p, nd) == [i \in 1..MoveK(p) |-> NormAxis(p[MoveK(p) + i], nd)]
InsertAt(s, pos, x) == SubSeq(s, 1, pos) \o <<x>> \o SubSeq(s, pos + 1, Len(s))     \* pos 0-based
RECURSIVE MoveInsert(_, _, _, _)
\* insert the pairs whose destination is d, d+1, ... in increasing destination order
MoveInsert(order, src, dst, d) ==
  IF d > Len(order) + Len(src) THEN order
  ELSE IF \E i \in 1..Len(dst) : dst[i] = d
       THEN MoveInsert(InsertAt(order, d, src[CHOOSE i \in 1..Len(dst) : dst[i] = d]), src, dst, d + 1)
       ELSE MoveInsert(order, src, dst, d + 1)
MovePermP(nd, p) ==
  \* perm[k] (1-based position k of the output) = input axis (0-based)
  LET src == MoveSrc(p, nd)
      dst == MoveDst(p, nd)
      rest == SelectSeq([i \in 1..nd |-> i - 1], LAMBDA x : \A i \in 1..Len(src) : src[i] # x)
  IN TLCEval(MoveInsert(rest, src, dst, 0))
MovePerm(nd, src, dst) == MovePermP(nd, <<src, dst>>)
MovedShapeP(sh, p) == TLCEval([k \in 1..Len(sh) |-> sh[MovePermP(Len(sh), p)[k] + 1]])
MovedShape(sh, src, dst) == MovedShapeP(sh, <<src, dst>>)

ReshapeTarget(sh, target) ==
  LET known == ProdSeq(SelectSeq(target, LAMBDA x : x # -1))
  IN TLCEval([k \in 1..Len(target) |-> IF target[k] = -1 THEN ProdSeq(sh) \div known ELSE target[k]])

RavelShape(sh, first, last) ==
  LET f == NormAxis(first, Len(sh))
      l == NormAxis(last, Len(sh))
  IN IF f = l THEN sh
     ELSE SubSeq(sh, 1, f) \o <<ProdSeq(SubSeq(sh, f + 1, l + 1))>> \o SubSeq(sh, l + 2, Len(sh))

PopCount(bits) == SumSeq(bits)

\* substitute the i-th structure for the leaf Leaf(<<i>>, "op") of a container tree
RECURSIVE Subst(_, _)
Subst(tree, ss) == IF tree.k = "leaf" THEN ss[tree.sh[1]]
                   ELSE [tree EXCEPT !.ch = TLCEval([i \in 1..Len(tree.ch) |-> Subst(tree.ch[i], ss)])]

RECURSIVE MapLeafShapes(_, _, _)
\* every leaf l of s replaced by Leaf(shape, l.dt) where shape = table[l.sh]; mode selects the map
ShapeMap(mode, sh, p) ==
  CASE mode = "index" -> <<Len(p) - 1>>
    [] mode = "pack" -> <<PopCount(p)>>
    [] mode = "mvax" -> MovedShapeP(sh, p)
    [] mode = "reshape" -> ReshapeTarget(sh, p)
    [] mode = "ravel" -> RavelShape(sh, p[1], p[2])
MapLeafShapes(s, mode, p) ==
  IF s.k = "leaf" THEN Leaf(ShapeMap(mode, s.sh, p), s.dt)
  ELSE [s EXCEPT !.ch = TLCEval([i \in 1..Len(s.ch) |-> MapLeafShapes(s.ch[i], mode, p)])]

RECURSIVE InS(_)
RECURSIVE OutS(_)
InS(t) ==
  CASE t.k \in {"id", "hom", "dense", "obs", "toep", "diag", "diagq", "bdiagb", "index", "pack", "mvax",
                "reshape", "ravel", "rot", "hwp", "pol"} -> t.s
    [] t.k = "dinv" -> InS(t.ch[1])
    [] t.k \in {"T", "RT", "inv", "rotT"} -> OutS(t.ch[1])
    [] t.k = "comp" -> InS(t.ch[Len(t.ch)])
    [] t.k = "add" -> InS(t.ch[1])
    [] t.k \in {"brow", "bdiag"} -> Subst(t.s, [i \in 1..Len(t.ch) |-> InS(t.ch[i])])
    [] t.k = "bcol" -> InS(t.ch[1])
OutS(t) ==
  CASE t.k \in {"id", "hom", "obs", "toep", "diag", "diagq", "rot", "hwp"} -> t.s
    [] t.k = "dense" -> Leaf(<<t.p[1]>>, LeafDt(t.s))
    [] t.k = "bdiagb" -> Leaf(<<t.p[1], t.p[2]>>, LeafDt(t.s))
    [] t.k \in {"index", "pack", "mvax", "reshape", "ravel"} -> MapLeafShapes(t.s, t.k, t.p)
    [] t.k = "pol" -> Leaves(t.s)[1]
    [] t.k = "dinv" -> InS(t.ch[1])
    [] t.k \in {"T", "RT", "inv", "rotT"} -> InS(t.ch[1])
    [] t.k = "comp" -> OutS(t.ch[1])
    [] t.k = "add" -> OutS(t.ch[1])
    [] t.k \in {"bcol", "bdiag"} -> Subst(t.s, [i \in 1..Len(t.ch) |-> OutS(t.ch[i])])
    [] t.k = "brow" -> OutS(t.ch[1])

-----------------------------------------------------------------------------
(* meaning: the dense matrix between the flattened input and output *)

DenseMatOf(p) == MatOfRows([i \in 1..p[1] |-> [j \in 1..p[2] |-> p[2 + (i - 1) * p[2] + j]]])
ToeplitzMat(n, band) ==
  Mat(n, n, 1, LAMBDA i, j : IF Abs(i - j) < Len(band) THEN band[Abs(i - j) + 1] ELSE 0)
BroadcastDiagMat(p) ==
  LET r == p[1] n == p[2] IN
  Mat(r * n, n, 1, LAMBDA i, j : IF (i - 1) % n = j - 1 THEN p[2 + i] ELSE 0)
\* selection: row k picks input position idx[k] (raw indices, negative = from the end)
SelectMat(n, idx) ==
  Mat(Len(idx), n, 1, LAMBDA i, j : IF NormAxis(idx[i], n) = j - 1 THEN 1 ELSE 0)
MaskIdx(bits) == SelectSeq([i \in 1..Len(bits) |-> i - 1], LAMBDA x : bits[x + 1] = 1)
\* permutation matrix of moveaxis on a leaf of shape sh
MoveAxisMat(sh, p) ==
  LET nd == Len(sh)
      perm == MovePermP(nd, p)
      osh == MovedShapeP(sh, p)
      n == ProdSeq(sh)
  IN Mat(n, n, 1, LAMBDA i, j :
        LET omi == Unravel(osh, i - 1)
            imi == [a \in 1..nd |-> omi[CHOOSE k \in 1..nd : perm[k] = a - 1]]
        IN IF Ravel(sh, imi) = j - 1 THEN 1 ELSE 0)

\* one matrix per leaf, block-diagonal over the leaves of s
PerLeaf(s, F(_)) == BlockDiag([i \in 1..NLeaves(s) |-> F(Leaves(s)[i])])

\* Mueller matrices acting on the component index, for m elements per component
RotBlock(kind, c, sn, d) ==
  \* (Q,U) -> (cQ - sU, sQ + cU), I and V untouched; entries over denominator d
  CASE kind = "I" -> MatOfRowsOver(<< <<d>> >>, d)
    [] kind = "QU" -> MatOfRowsOver(<< <<c, -sn>>, <<sn, c>> >>, d)
    [] kind = "IQU" -> MatOfRowsOver(<< <<d, 0, 0>>, <<0, c, -sn>>, <<0, sn, c>> >>, d)
    [] kind = "IQUV" -> MatOfRowsOver(<< <<d, 0, 0, 0>>, <<0, c, -sn, 0>>, <<0, sn, c, 0>>, <<0, 0, 0, d>> >>, d)
\* rotation with one angle per element: element e of every component uses angle e
RotMat(kind, m, p) ==
  LET nc == NComp(kind)
      cis == [e \in 1..m |-> LET a == AngleAt(p, e, m) IN CisNum(a[1], a[2])]
      D == ProdSeq([e \in 1..m |-> cis[e][3]])
      blk == [e \in 1..m |-> MatScale(1, 1, RotBlock(kind, cis[e][1], cis[e][2], cis[e][3]))]
  IN Mat(nc * m, nc * m, D, LAMBDA i, j :
        LET ci == (i - 1) \div m  ei == (i - 1) % m
            cj == (j - 1) \div m  ej == (j - 1) % m
        IN IF ei # ej THEN 0
           ELSE blk[ei + 1].e[ci + 1][cj + 1] * (D \div blk[ei + 1].d))
HwpMat(kind, m) ==
  LET v == CASE kind = "I" -> <<1>> [] kind = "QU" -> <<1, -1>> [] kind = "IQU" -> <<1, 1, -1>>
             [] kind = "IQUV" -> <<1, 1, -1, -1>>
  IN KronI(DiagMat(v), m)
PolMat(kind, m) ==
  LET v == CASE kind = "I" -> <<1>> [] kind = "QU" -> <<1, 0>> [] kind = "IQU" -> <<1, 1, 0>>
             [] kind = "IQUV" -> <<1, 1, 0, 0>>
  IN KronI(MatOfRowsOver(<<v>>, 2), m)

\* Moore-Penrose inverse of a diagonal: 1/v where v # 0, else 0
DiagPinv(v) ==
  LET nz == SelectSeq(v, LAMBDA x : x # 0)
      L == ProdSeq([i \in 1..Len(nz) |-> Abs(nz[i])])
  IN DiagMatOver([i \in 1..Len(v) |-> IF v[i] = 0 THEN 0 ELSE (L \div Abs(v[i])) * (IF v[i] < 0 THEN -1 ELSE 1)], L)

\* the same for rational values v[i]/den: entries den/v[i] over the common denominator lcm-like L
DiagPinvQ(v, den) ==
  \* every fraction den / v[i] is reduced first (values many orders of magnitude apart stay within 32 bits)
  LET g(i) == IF v[i] = 0 THEN 1 ELSE Gcd(den, v[i])
      num(i) == (den \div g(i)) * (IF v[i] < 0 THEN -1 ELSE 1)
      dd(i) == IF v[i] = 0 THEN 1 ELSE Abs(v[i]) \div g(i)
      L == ProdSeq([i \in 1..Len(v) |-> dd(i)])
  IN DiagMatOver([i \in 1..Len(v) |-> IF v[i] = 0 THEN 0 ELSE num(i) * (L \div dd(i))], L)

RECURSIVE Den(_)
Den(t) ==
  CASE t.k = "id" -> IdentityMat(SizeS(t.s))
    [] t.k = "hom" -> MatScale(t.p[1], t.p[2], IdentityMat(SizeS(t.s)))
    [] t.k \in {"dense", "obs"} -> DenseMatOf(t.p)
    [] t.k = "toep" -> ToeplitzMat(t.s.sh[1], t.p)
    [] t.k = "diag" -> PerLeaf(t.s, LAMBDA l : DiagMat(t.p))
    [] t.k = "diagq" -> PerLeaf(t.s, LAMBDA l : DiagMatOver(Tail(t.p), t.p[1]))
    [] t.k = "dinv" -> PerLeaf(InS(t.ch[1]), LAMBDA l : IF t.ch[1].k = "diagq" THEN DiagPinvQ(Tail(t.ch[1].p), t.ch[1].p[1])
                                                       ELSE DiagPinv(t.ch[1].p))
    [] t.k = "bdiagb" -> BroadcastDiagMat(t.p)
    [] t.k = "index" -> PerLeaf(t.s, LAMBDA l : SelectMat(l.sh[1], Tail(t.p)))
    [] t.k = "pack" -> PerLeaf(t.s, LAMBDA l : SelectMat(l.sh[1], MaskIdx(t.p)))
    [] t.k = "mvax" -> PerLeaf(t.s, LAMBDA l : MoveAxisMat(l.sh, t.p))
    [] t.k \in {"reshape", "ravel"} -> IdentityMat(SizeS(t.s))
    [] t.k = "rot" -> RotMat(t.s.k, LeafSize(Leaves(t.s)[1]), t.p)
    [] t.k = "hwp" -> HwpMat(t.s.k, LeafSize(Leaves(t.s)[1]))
    [] t.k = "pol" -> PolMat(t.s.k, LeafSize(Leaves(t.s)[1]))
    [] t.k \in {"T", "RT", "rotT"} -> MatT(Den(t.ch[1]))
    [] t.k = "inv" -> MatInvO(Den(t.ch[1]))
    [] t.k = "comp" -> MatProd([i \in 1..Len(t.ch) |-> Den(t.ch[i])])
    [] t.k = "add" -> MatSum([i \in 1..Len(t.ch) |-> Den(t.ch[i])])
    [] t.k = "brow" -> HStack([i \in 1..Len(t.ch) |-> Den(t.ch[i])])
    [] t.k = "bcol" -> VStack([i \in 1..Len(t.ch) |-> Den(t.ch[i])])
    [] t.k = "bdiag" -> BlockDiag([i \in 1..Len(t.ch) |-> Den(t.ch[i])])

-----------------------------------------------------------------------------
(* tags, as the decorators register them *)
SymmetricKinds == {"id", "hom", "diag", "diagq", "dinv", "toep", "hwp"}     \* transpose() returns self
DiagonalKinds == {"id", "hom", "diag", "diagq", "dinv", "hwp"}
OrthogonalKinds == {"id", "rot", "rotT"}                             \* inverse = transpose
SquareKinds == SymmetricKinds \cup OrthogonalKinds                   \* out_structure = in_structure
IsScalarT(t) == t.k = "hom"
IsIdT(t) == t.k = "id"

-----------------------------------------------------------------------------
(* transpose(), as each class constructs it *)
RECURSIVE Transpose(_)
ReverseSeq(s) == TLCEval([i \in 1..Len(s) |-> s[Len(s) + 1 - i]])
Transpose(t) ==
  CASE t.k \in SymmetricKinds -> t
    [] t.k = "dense" ->
         \* same class, subscripts rewritten: acts as the transposed matrix on the output structure
         LET r == t.p[1] c == t.p[2] IN
         Term("dense", 0, OutS(t),
              TLCEval(<<c, r>> \o [x \in 1..(r * c) |-> t.p[2 + ((x - 1) % r) * c + ((x - 1) \div r) + 1]]), <<>>)
    [] t.k = "mvax" -> Term("mvax", 0, OutS(t), SubSeq(t.p, MoveK(t.p) + 1, Len(t.p)) \o SubSeq(t.p, 1, MoveK(t.p)), <<>>)
    [] t.k \in {"reshape", "ravel"} -> RTOf(t)
    [] t.k = "rot" -> RotTOf(t)
    [] t.k \in TransposeKinds -> t.ch[1]
    [] t.k = "comp" -> Comp(ReverseSeq(TLCEval([i \in 1..Len(t.ch) |-> Transpose(t.ch[i])])))
    [] t.k = "add" -> AddT(TLCEval([i \in 1..Len(t.ch) |-> Transpose(t.ch[i])]))
    [] t.k = "brow" -> Term("bcol", 0, t.s, <<>>, TLCEval([i \in 1..Len(t.ch) |-> Transpose(t.ch[i])]))
    [] t.k = "bcol" -> Term("brow", 0, t.s, <<>>, TLCEval([i \in 1..Len(t.ch) |-> Transpose(t.ch[i])]))
    [] t.k = "bdiag" -> Term("bdiag", 0, t.s, <<>>, TLCEval([i \in 1..Len(t.ch) |-> Transpose(t.ch[i])]))
    [] OTHER -> TOf(t)     \* bdiagb, index, pack, pol, inv: jax.linear_transpose
=============================================================================
