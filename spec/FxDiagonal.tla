------------------------------ MODULE FxDiagonal ------------------------------
(***************************************************************************)
(* furax._base.diagonal: BroadcastDiagonalOperator, DiagonalOperator and   *)
(* DiagonalInverseOperator (property C11).                                 *)
(*                                                                         *)
(* Part 1 - REFERENCE.  "The stored values are laid along the requested    *)
(* destination axes and multiplied with each input leaf with NumPy         *)
(* broadcasting", written as an index formula: which entry of the values   *)
(* and which entry of the leaf meet in each entry of the output.           *)
(*                                                                         *)
(* Part 2 - TRANSCRIPTION.  What the code does: __init__ (turning a scalar *)
(* axis into a range), _normalize_axes, _reshape_diagonal (reshape to      *)
(* values.shape + (1,)*k followed by jnp.moveaxis), _reshape_input_leaf,   *)
(* jnp.broadcast_shapes, the strict _check_leaf_shapes of DiagonalOperator,*)
(* the broadcasting product, DiagonalOperator.as_matrix and the values of  *)
(* DiagonalInverseOperator.                                                *)
(*                                                                         *)
(* MC_Diagonal checks that the two parts agree on the whole bounded        *)
(* domain; the real library is compared with Part 1.                       *)
(*                                                                         *)
(* Conventions: Python axes and indices are 0-based integers, TLA+         *)
(* sequences are 1-based: axis a of a shape sh is sh[a + 1].  Arrays are   *)
(* never materialised: an array derived from `values` (or from the leaf)   *)
(* is represented by its shape and by the map from its flat row-major      *)
(* index to the flat index of the entry of `values` (of the leaf) it       *)
(* holds.  The outcome for one leaf is the record                          *)
(*   [err, why, osh, vmap, xmap]                                           *)
(* out.ravel()[f] = values.ravel()[vmap[f+1]] * x.ravel()[xmap[f+1]].      *)
(***************************************************************************)
EXTENDS FxShapes

RECURSIVE MinSeq(_)
MinSeq(s) == IF Len(s) = 1 THEN s[1] ELSE Min2(s[1], MinSeq(Tail(s)))
RECURSIVE MaxSeq(_)
MaxSeq(s) == IF Len(s) = 1 THEN s[1] ELSE Max2(s[1], MaxSeq(Tail(s)))

Ones(k) == [i \in 1..k |-> 1]                       \* k * (1,)   (empty for k <= 0, as in Python)
PyRange(lo, hi) == [k \in 1..(hi - lo) |-> lo + k - 1]   \* tuple(range(lo, hi))
HasDup(s) == \E i, j \in 1..Len(s) : i < j /\ s[i] = s[j]

\* axis_destination as given by the caller: an int (scalar = TRUE, a) or a sequence (t)
ScalarSpec(a) == [scalar |-> TRUE, a |-> a, t |-> <<>>]
TupleSpec(t) == [scalar |-> FALSE, a |-> 0, t |-> t]

\* multi-indices (0-based components) of all entries of an array of shape sh, in row-major order
AllIndices(sh) == LET st == Strides(sh)
                  IN TLCEval([f \in 1..ProdSeq(sh) |-> [j \in 1..Len(sh) |-> ((f - 1) \div st[j]) % sh[j]]])

LeafErr(why) == [err |-> TRUE, why |-> why, osh |-> <<>>, vmap |-> <<>>, xmap |-> <<>>]
LeafOk(osh, vmap, xmap) == [err |-> FALSE, why |-> "", osh |-> osh, vmap |-> vmap, xmap |-> xmap]

Outcome(err, why, leaves) == [err |-> err, why |-> why, leaves |-> leaves]

-----------------------------------------------------------------------------
(*                        Part 1: REFERENCE SEMANTICS                      *)

\* the destination axis of every axis of the values (m = values.ndim): an explicit tuple
\* is taken as it is; a non-negative int a means (a, ..., a+m-1): the FIRST values axis
\* sits at a; a negative int means (a-m+1, ..., a): the LAST values axis sits at a
RefAxes(sp, m) ==
  IF sp.scalar THEN [k \in 1..m |-> IF sp.a >= 0 THEN sp.a + (k - 1) ELSE sp.a - (m - k)]
  ELSE sp.t

\* negative axes count from the end of the leaf they are applied to
RefNorm(ax, r) == [k \in 1..Len(ax) |-> IF ax[k] < 0 THEN ax[k] + r ELSE ax[k]]

\* V: values shape (rank >= 1), sp: axis specification, S: leaf shape, strict: DiagonalOperator
RefLeaf(V, sp, S, strict) ==
  LET m == Len(V)
      r == Len(S)
      n == RefNorm(RefAxes(sp, m), r)
  IN IF HasDup(n) THEN LeafErr("duplicate") ELSE
  LET left == -Min2(0, MinSeq(n))                  \* output axes added before the leaf's
      right == Max2(0, MaxSeq(n) - r + 1)          \* output axes added after the leaf's
      R == left + r + right                        \* output rank
      \* extent of the values / of the leaf along output axis j - 1
      VD == [j \in 1..R |-> IF \E k \in 1..m : n[k] + left = j - 1
                            THEN V[CHOOSE k \in 1..m : n[k] + left = j - 1] ELSE 1]
      XD == [j \in 1..R |-> IF j > left /\ j <= left + r THEN S[j - left] ELSE 1]
  IN IF \E j \in 1..R : VD[j] # XD[j] /\ VD[j] # 1 /\ XD[j] # 1 THEN LeafErr("broadcast") ELSE
  LET O == TLCEval([j \in 1..R |-> IF VD[j] = 1 THEN XD[j] ELSE VD[j]])
  IN IF strict /\ O # S THEN LeafErr("strict") ELSE
  LET N == ProdSeq(O)
      I == AllIndices(O)                           \* I[f + 1] = multi-index of flat output index f
      Vi(f) == [k \in 1..m |-> IF V[k] = 1 THEN 0 ELSE I[f][n[k] + left + 1]]
      Xi(f) == [t \in 1..r |-> IF S[t] = 1 THEN 0 ELSE I[f][left + t]]
  IN LeafOk(O, TLCEval([f \in 1..N |-> Ravel(V, Vi(f))]), TLCEval([f \in 1..N |-> Ravel(S, Xi(f))]))

\* whole operator: construction fails if the values are not a single array of rank >= 1 or
\* if some leaf fails; otherwise one outcome per leaf (pytree order)
RECURSIVE FirstErr(_)
FirstErr(rs) == IF rs = <<>> THEN "" ELSE IF Head(rs).err THEN Head(rs).why ELSE FirstErr(Tail(rs))

\* per-leaf outcomes (none if the values are rejected outright)
RefLeaves(tree, V, vtree, sp, strict) ==
  IF vtree \/ V = <<>> THEN <<>> ELSE TLCEval([i \in 1..Len(tree) |-> RefLeaf(V, sp, tree[i], strict)])
RefCombine(V, vtree, rs) ==
  IF vtree THEN Outcome(TRUE, "pytree", <<>>)
  ELSE IF V = <<>> THEN Outcome(TRUE, "scalar", <<>>)
  ELSE IF FirstErr(rs) # "" THEN Outcome(TRUE, FirstErr(rs), <<>>) ELSE Outcome(FALSE, "", rs)
RefOutcome(tree, V, vtree, sp, strict) == RefCombine(V, vtree, RefLeaves(tree, V, vtree, sp, strict))

\* dense matrix of an accepted operator: entry (o, i), 1-based over the flattened output and
\* input pytrees, as an index into values.ravel() (0-based) or -1 for a structural zero
RefEntryLeaf(res, o, i) == IF res.xmap[o] = i - 1 THEN res.vmap[o] ELSE -1
OutSize(res) == Len(res.vmap)

-----------------------------------------------------------------------------
(*                 Part 2: TRANSCRIPTION OF furax/_base/diagonal.py        *)

\* BroadcastDiagonalOperator.__init__ up to the assignment of self.axis_destination
ImplInit(vtree, V, sp) ==
  IF vtree THEN [err |-> TRUE, why |-> "pytree", ad |-> <<>>]               \* not is_leaf(diagonal)
  ELSE IF Len(V) = 0 THEN [err |-> TRUE, why |-> "scalar", ad |-> <<>>]    \* diagonal.ndim == 0
  ELSE [err |-> FALSE, why |-> "",
        ad |-> IF sp.scalar
               THEN (IF sp.a >= 0 THEN PyRange(sp.a, sp.a + Len(V))
                     ELSE PyRange(sp.a - Len(V) + 1, sp.a + 1))
               ELSE sp.t]

\* _normalize_axes
NormalizeAxes(ad, S) == [k \in 1..Len(ad) |-> IF ad[k] >= 0 THEN ad[k] ELSE Len(S) + ad[k]]
\* [k for k, v in Counter(axes).items() if v > 1]
CounterDups(axes) == {v \in {axes[k] : k \in 1..Len(axes)} : Cardinality({k \in 1..Len(axes) : axes[k] = v}) > 1}

\* list.insert(pos, v) for pos >= 0
PyInsert(s, pos, v) == LET p == Min2(pos, Len(s)) IN SubSeq(s, 1, p) \o <<v>> \o SubSeq(s, p + 1, Len(s))
\* sorted() of a set of pairs
PairLess(p, q) == p[1] < q[1] \/ (p[1] = q[1] /\ p[2] < q[2])
RECURSIVE SortedPairs(_)
SortedPairs(P) == IF P = {} THEN <<>>
                  ELSE LET mn == CHOOSE p \in P : \A q \in P : q = p \/ PairLess(p, q)
                       IN <<mn>> \o SortedPairs(P \ {mn})
RECURSIVE InsertAll(_, _)
InsertAll(order, pairs) == IF pairs = <<>> THEN order
                           ELSE InsertAll(PyInsert(order, Head(pairs)[1], Head(pairs)[2]), Tail(pairs))
RECURSIVE Without(_, _)
Without(s, src) == IF s = <<>> THEN <<>>
                   ELSE (IF \E k \in 1..Len(src) : src[k] = Head(s) THEN <<>> ELSE <<Head(s)>>) \o Without(Tail(s), src)
\* jnp.moveaxis(a, src, dst) = transpose(a, perm) with (axes already canonical, 0 <= . < nd)
\*   perm = [i for i in range(nd) if i not in src]
\*   for d, s in sorted(zip(dst, src)): perm.insert(d, s)
MoveAxisPerm(nd, src, dst) ==
  InsertAll(Without(PyRange(0, nd), src), SortedPairs({<<dst[k], src[k]>> : k \in 1..Len(src)}))

\* jnp.broadcast_shapes of two shapes
PadLeft(sh, n) == Ones(n - Len(sh)) \o sh
BroadcastShapes(a, b) ==
  LET n == Max2(Len(a), Len(b))
      pa == PadLeft(a, n)
      pb == PadLeft(b, n)
  IN IF \E j \in 1..n : pa[j] # pb[j] /\ pa[j] # 1 /\ pb[j] # 1 THEN [ok |-> FALSE, sh |-> <<>>]
     ELSE [ok |-> TRUE, sh |-> TLCEval([j \in 1..n |-> IF pa[j] = 1 THEN pb[j] ELSE pa[j]])]

\* (the `ok |-> FALSE` branch - a destination outside the reshaped array, on which jnp.moveaxis
\* raises - is transcribed for completeness; TLC's coverage shows it is never taken: distinct
\* normalised axes always fit into left + rank + right dimensions)
\* _reshape_diagonal(axes, input_leaf_ndim): the reshaped array (shape rsh, same flat order as
\* the values: a reshape keeps the row-major order) and its transposition by perm (shape sh)
ReshapeDiagonal(V, axes, r) ==
  LET m == Len(V)
      left == -Min2(0, MinSeq(axes))
      right == Max2(0, MaxSeq(axes) - r + 1)
      rsh == V \o Ones(left + right + r - m)
      nd == Len(rsh)
      dst == [k \in 1..m |-> axes[k] + left]
  IN IF \E k \in 1..m : dst[k] < -nd \/ dst[k] >= nd THEN [ok |-> FALSE, rsh |-> rsh, perm |-> <<>>, sh |-> <<>>]
     ELSE LET perm == MoveAxisPerm(nd, PyRange(0, m), [k \in 1..m |-> IF dst[k] < 0 THEN dst[k] + nd ELSE dst[k]])
          IN [ok |-> TRUE, rsh |-> rsh, perm |-> perm, sh |-> TLCEval([i \in 1..nd |-> rsh[perm[i] + 1]])]

\* flat index in the values of entry `di` (multi-index, 0-based components) of the array D
\* returned by _reshape_diagonal:  D[i_1, .., i_nd] = reshaped[s]  with  s[perm[i]] = i_i
DiagFlat(rd, di) ==
  LET nd == Len(rd.sh) IN Ravel(rd.rsh, [p \in 1..nd |-> di[CHOOSE i \in 1..nd : rd.perm[i] = p - 1]])

\* index into an operand of shape sh of the entry that broadcasting pairs with entry idx of
\* the result (rank R): trailing components, 0 where the operand has extent 1
Operand(sh, idx, R) == [j \in 1..Len(sh) |-> IF sh[j] = 1 THEN 0 ELSE idx[R - Len(sh) + j]]

\* one iteration of jax.tree.map(func, x) in mv: _reshape_leaves followed by the product
ImplLeaf(V, ad, S, strict) ==
  LET r == Len(S)
      axes == NormalizeAxes(ad, S)
  IN IF CounterDups(axes) # {} THEN LeafErr("duplicate") ELSE
  LET rd == ReshapeDiagonal(V, axes, r)
  IN IF ~rd.ok THEN LeafErr("moveaxis") ELSE
  LET rightX == Max2(0, MaxSeq(axes) - r + 1)        \* _reshape_input_leaf
      Xsh == S \o Ones(rightX)
      B == BroadcastShapes(rd.sh, Xsh)               \* _check_leaf_shapes
  IN IF ~B.ok THEN LeafErr("broadcast")
     ELSE IF strict /\ B.sh # S THEN LeafErr("strict") ELSE
  LET O == B.sh
      R == Len(O)
      N == ProdSeq(O)
      I == AllIndices(O)
  IN LeafOk(O, TLCEval([f \in 1..N |-> DiagFlat(rd, Operand(rd.sh, I[f], R))]),
               TLCEval([f \in 1..N |-> Ravel(Xsh, Operand(Xsh, I[f], R))]))

\* DiagonalOperator.as_matrix: jnp.diag of, per leaf,
\*    broadcast_to(_reshape_diagonal(_normalize_axes(leaf.shape), leaf.ndim), leaf.shape).ravel()
\* returned as indices into the values; <<-2>> when broadcast_to would raise
ImplDiagLeaf(V, ad, S) ==
  LET r == Len(S)
      rd == ReshapeDiagonal(V, NormalizeAxes(ad, S), r)
      I == AllIndices(S)
  IN IF ~rd.ok \/ Len(rd.sh) > r \/ ~BroadcastShapes(rd.sh, S).ok \/ BroadcastShapes(rd.sh, S).sh # S THEN <<-2>>
     ELSE TLCEval([f \in 1..ProdSeq(S) |-> DiagFlat(rd, Operand(rd.sh, I[f], r))])

ImplDiag(V, ad, tree) == ConcatAll([i \in 1..Len(tree) |-> ImplDiagLeaf(V, ad, tree[i])])

-----------------------------------------------------------------------------
(* concrete values used by the replay and for the pseudo-inverse           *)
Primes == <<2, 3, 5, 7, 11, 13, 17, 19, 23, 29, 31, 37, 41, 43, 47, 53, 59, 61, 67, 71, 73, 79, 83, 89, 97, 101, 103>>
\* values.ravel() of the probes: distinct primes / the same with zeros and negative entries
ValP(V) == [f \in 1..ProdSeq(V) |-> Primes[f]]
ValZ(V) == [f \in 1..ProdSeq(V) |-> IF f % 3 = 2 THEN 0 ELSE IF f % 3 = 0 THEN -Primes[f] ELSE Primes[f]]

\* exact rationals <<num, den>>, den > 0
Rat(n, d) == IF d < 0 THEN <<-n, -d>> ELSE <<n, d>>
RatMul(p, q) == <<p[1] * q[1], p[2] * q[2]>>
RatEq(p, q) == p[1] * q[2] = q[1] * p[2]
\* DiagonalInverseOperator.diagonal: jnp.where(d != 0, 1 / d, 0)
ImplInvValue(v) == IF v # 0 THEN Rat(1, v) ELSE <<0, 1>>
\* Moore-Penrose conditions for 1x1 blocks (the other two, symmetry, are trivial)
IsPinv(v, p) == /\ RatEq(RatMul(RatMul(<<v, 1>>, p), <<v, 1>>), <<v, 1>>)
                /\ RatEq(RatMul(RatMul(p, <<v, 1>>), p), p)
                /\ p[2] > 0
=============================================================================
