------------------------------ MODULE MC_Dense ------------------------------
(***************************************************************************)
(* C14 at design level.  The machine builds every subscript string          *)
(*   blocks , leaf -> output   token by token (letters i j k h and at most  *)
(* one ellipsis per operand, any position), chooses how the string is       *)
(* written (explicit, with blanks, or malformed), runs the transcribed      *)
(* _get_transposed_subscripts statement by statement, then chooses the      *)
(* shapes (letter sizes pairwise different or all equal; the ellipsis of    *)
(* the blocks standing for one dimension or none; one leaf, two leaves      *)
(* sharing the blocks, two leaves with their own blocks) and judges the     *)
(* returned string with the reference einsum of FxDense.                    *)
(* Every terminal state is emitted as a case for the replay on furax.       *)
(***************************************************************************)
EXTENDS FxDense, Json

CONSTANTS MaxB, MaxX, MaxO,   \* maximal number of tokens of blocks / leaf / output subscripts
          Family,             \* "all": ellipsis anywhere; "trailing": only as the last token
          Modes,              \* subset of {"distinct", "equal"}: letter sizes for the single-leaf cases
          ErrModes,           \* the same for the strings the algorithm rejects (quick tier: one of them)
          DenAll,             \* TRUE: also compute the operator matrix for strings the algorithm rejects
          UseSeeds,           \* inject DocSeeds (longer strings from the docstrings / tests)
          BFirst              \* first tokens allowed in the blocks subscripts ("" = empty blocks): sharding

VARIABLES phase,  \* "b" | "x" | "o" | "alg" | "done"
          b, x, o,  \* token sequences
          form,   \* how the string is written
          alg,    \* state of _get_transposed_subscripts
          par,    \* shapes chosen
          jd      \* judgement computed when the shapes are chosen
vars == <<phase, b, x, o, form, alg, par, jd>>

Tok == Letters \cup {Ellipsis}
NoPar == [mode |-> "", eb |-> 0, ex |-> 1, tree |-> ""]
NoJd == [ctor |-> FALSE, ctorwhy |-> "", valid |-> FALSE, outs |-> <<>>, adj |-> "na", hasden |-> FALSE,
         den |-> <<>>, blocks |-> <<>>, xs |-> <<>>]

DocSeeds == { << <<"h", "i", "j", "...">>, <<"h", "j", "...">>, <<"h", "i", "...">> >>,
              << <<"i", "k", "j">>, <<"k", "j">>, <<"k", "i">> >>,
              << <<"i", "j", "...">>, <<"j", "...">>, <<"i", "...">> >>,
              << <<"...", "i", "j">>, <<"...", "j">>, <<"...", "i">> >>,
              << <<"k", "k", "i", "j">>, <<"k", "j">>, <<"k", "i">> >>,
              << <<"i", "j", "j", "k">>, <<"k", "j">>, <<"k", "i">> >>,
              << <<"k", "i", "...", "j">>, <<"j", "...", "k">>, <<"i", "...", "k">> >>,
              \* two batch items (letters, or a letter and the ellipsis) listed in the same / in a different order
              \* in the leaf and in the output: the reordering check of the algorithm decides
              << <<"h", "k", "i", "j">>, <<"h", "k", "j">>, <<"h", "k", "i">> >>,
              << <<"h", "k", "i", "j">>, <<"h", "k", "j">>, <<"k", "h", "i">> >>,
              << <<"h", "k", "i", "j">>, <<"k", "h", "j">>, <<"h", "k", "i">> >>,
              << <<"k", "...", "i", "j">>, <<"k", "...", "j">>, <<"...", "k", "i">> >>,
              << <<"k", "...", "i", "j">>, <<"k", "...", "j">>, <<"k", "...", "i">> >>,
              \* the two cases of one letter are different axes: an upper-case batch letter next to the lower-case
              \* contracted / free letters (of the same size in both shape modes)
              << <<"J", "i", "j">>, <<"J", "j">>, <<"J", "i">> >>,
              << <<"i", "J", "j">>, <<"J", "j">>, <<"i", "J">> >> }

Init == /\ phase = "b" /\ b = <<>> /\ x = <<>> /\ o = <<>> /\ form = "" /\ alg = AlgInit(<<>>)
        /\ par = NoPar /\ jd = NoJd

Cur == IF phase = "b" THEN b ELSE IF phase = "x" THEN x ELSE o
Bound == IF phase = "b" THEN MaxB ELSE IF phase = "x" THEN MaxX ELSE MaxO

Add(tk) == /\ phase \in {"b", "x", "o"} /\ Len(Cur) < Bound
           /\ (tk = Ellipsis => ~HasEll(Cur))
           /\ (Family = "trailing" => ~HasEll(Cur))
           /\ (phase = "b" /\ b = <<>> => tk \in BFirst)
           /\ b' = IF phase = "b" THEN Append(b, tk) ELSE b
           /\ x' = IF phase = "x" THEN Append(x, tk) ELSE x
           /\ o' = IF phase = "o" THEN Append(o, tk) ELSE o
           /\ UNCHANGED <<phase, form, alg, par, jd>>

Close == /\ phase \in {"b", "x"}
         /\ (phase = "b" /\ b = <<>> => "" \in BFirst)
         /\ phase' = (IF phase = "b" THEN "x" ELSE "o")
         /\ UNCHANGED <<b, x, o, form, alg, par, jd>>

\* a longer string, complete (its output subscripts are not extended: they are at least MaxO long)
Inject(sd) == /\ UseSeeds /\ phase = "b" /\ b = <<>> /\ "" \in BFirst /\ Len(sd[3]) >= MaxO
              /\ b' = sd[1] /\ x' = sd[2] /\ o' = sd[3] /\ phase' = "o"
              /\ UNCHANGED <<form, alg, par, jd>>

-----------------------------------------------------------------------------
(* the string as passed to the constructor *)
L0 == Chars(b)
R0 == Chars(x)
O0 == Chars(o)
Written(f) ==
  CASE f = "explicit" -> Join3(L0, R0, O0)
    [] f = "spaced"   -> L0 \o <<",", " ">> \o R0 \o <<" ">> \o Arrow \o <<" ">> \o O0
    [] f = "implicit" -> L0 \o <<",">> \o R0
    [] f = "three"    -> L0 \o <<",">> \o R0 \o <<",">> \o R0 \o Arrow \o O0
    [] f = "nocomma"  -> L0 \o Arrow \o O0
    [] f = "arrows2"  -> Join3(L0, R0, O0) \o Arrow \o O0
\* the other ways of writing are generated for a small family only
Small == Len(b) = 2 /\ Len(x) <= 1 /\ Len(o) <= 1 /\ ~HasEll(b) /\ ~HasEll(x) /\ ~HasEll(o)
Forms == {"explicit"} \cup (IF Small THEN {"spaced", "three", "arrows2"} ELSE {})
                      \cup (IF Small /\ o = <<>> THEN {"implicit"} ELSE {})
                      \cup (IF Small /\ x = <<>> THEN {"nocomma"} ELSE {})
WellWritten(f) == f \in {"explicit", "spaced"}

(* the output subscripts are complete: choose how the string is written and enter
   _get_transposed_subscripts (its first statement, the call of _parse_subscripts, is executed here);
   transpose() passes the stored subscripts, i.e. blanks removed by __init__ *)
ChooseForm(f) == /\ phase = "o" /\ f \in Forms
                 /\ form' = f /\ phase' = "alg"
                 /\ alg' = AlgStep(AlgInit(StrRemove(Written(f), <<" ">>)))
                 /\ UNCHANGED <<b, x, o, par, jd>>

AlgAdvance == /\ phase = "alg" /\ alg.pc # "end"
              /\ alg' = AlgStep(alg)
              /\ UNCHANGED <<phase, b, x, o, form, par, jd>>

-----------------------------------------------------------------------------
(* shapes *)
SizesOf(mode) == IF mode = "distinct" THEN [i |-> 2, j |-> 3, k |-> 4, h |-> 5, J |-> 3]
                 ELSE [i |-> 2, j |-> 2, k |-> 2, h |-> 2, J |-> 2]
ShapeOf(toks, mode, er) ==
  ConcatAll([p \in 1..Len(toks) |-> IF toks[p] = Ellipsis THEN [q \in 1..er |-> 2]
                                    ELSE <<SizesOf(mode)[toks[p]]>>])
BSize(mode, eb) == ProdSeq(ShapeOf(b, mode, eb))
\* blocks / in_structure for the parameters
BlocksOf(p) ==
  CASE p.tree = "leaf"     -> [leaf |-> TRUE, it |-> <<[sh |-> ShapeOf(b, p.mode, p.eb), off |-> 0]>>]
    [] p.tree = "shared2"  -> [leaf |-> TRUE, it |-> <<[sh |-> ShapeOf(b, p.mode, p.eb), off |-> 0]>>]
    [] p.tree = "perleaf2" -> [leaf |-> FALSE,
                               it |-> <<[sh |-> ShapeOf(b, "distinct", p.eb), off |-> 0],
                                        [sh |-> ShapeOf(b, "equal", p.eb), off |-> BSize("distinct", p.eb)]>>]
XsOf(p) ==
  CASE p.tree = "leaf"     -> [leaf |-> TRUE, it |-> <<ShapeOf(x, p.mode, p.ex)>>]
    [] p.tree = "shared2"  -> [leaf |-> FALSE, it |-> <<ShapeOf(x, p.mode, p.ex), ShapeOf(x, p.mode, 1)>>]
    [] p.tree = "perleaf2" -> [leaf |-> FALSE, it |-> <<ShapeOf(x, "distinct", 1), ShapeOf(x, "equal", 1)>>]

Params ==
  LET ebs == IF HasEll(b) THEN {0, 1} ELSE {0}
      \* the ellipsis of the leaf stands for one dimension, or for two (leaves of higher rank) in the pytree case
      exs == IF HasEll(x) THEN {1, 2} ELSE {1}
  IN {[mode |-> m, eb |-> e, ex |-> 1, tree |-> "leaf"] : m \in (IF alg.ok THEN Modes ELSE ErrModes), e \in ebs}
     \cup (IF WellWritten(form) /\ alg.ok
           THEN {[mode |-> "distinct", eb |-> e, ex |-> f, tree |-> "shared2"] : e \in ebs, f \in exs}
                \cup {[mode |-> "equal", eb |-> e, ex |-> 2, tree |-> "shared2"] : e \in ebs \cap (IF HasEll(x) THEN {0} ELSE {})}
                \cup {[mode |-> "mixed", eb |-> e, ex |-> 1, tree |-> "perleaf2"] : e \in ebs}
           ELSE {})

Judge(p) ==
  LET blocks == BlocksOf(p)
      xs == XsOf(p)
      c == Ctor(Written(form), [q \in 1..Len(blocks.it) |-> Len(blocks.it[q].sh)])
      valid == c.ok /\ OpValid(L0, R0, O0, blocks, xs)
      wantden == valid /\ (alg.ok \/ (DenAll /\ p.mode = "equal"))
      ys == OpOut(L0, R0, O0, blocks, xs)
      m0 == OpMat(L0, R0, O0, blocks, xs)
  IN [ctor |-> c.ok, ctorwhy |-> c.why, valid |-> valid,
      outs |-> IF valid THEN ys.it ELSE <<>>,
      adj |-> IF valid /\ alg.ok THEN AdjointVerdict(m0, ys, alg.l, alg.r, alg.o, blocks, xs) ELSE "na",
      hasden |-> wantden,
      den |-> IF wantden THEN m0.e ELSE <<>>,
      blocks |-> blocks.it, xs |-> xs.it]

ChoosePar(p) == /\ phase = "alg" /\ alg.pc = "end" /\ p \in Params
                /\ par' = p /\ jd' = Judge(p) /\ phase' = "done"
                /\ UNCHANGED <<b, x, o, form, alg>>

Next == \/ \E tk \in Tok : Add(tk)
        \/ Close
        \/ \E sd \in DocSeeds : Inject(sd)
        \/ \E f \in {"explicit", "spaced", "implicit", "three", "nocomma", "arrows2"} : ChooseForm(f)
        \/ AlgAdvance
        \/ \E p \in Params : ChoosePar(p)

-----------------------------------------------------------------------------
(* invariants *)
Built == phase \in {"alg", "done"}
Ended == Built /\ alg.pc = "end"

\* the string model is faithful: characters <-> tokens
RoundTrip == Built => Tokens(L0) = b /\ Tokens(R0) = x /\ Tokens(O0) = o

\* malformed strings are rejected by the parser, well written ones are parsed into the three operands
Parsing == (Built /\ alg.pc \notin {"parse"}) =>
              IF WellWritten(form) THEN (alg.pc # "end" \/ alg.why \notin {"comma", "arrow"})
                                        /\ (alg.pc \in {"sum", "transpose"} => alg.l = L0 /\ alg.r = R0 /\ alg.o = O0)
              ELSE alg.pc = "end" /\ ~alg.ok /\ alg.why \in {"comma", "arrow"}

\* assertions between the statements
AfterSum == (Built /\ alg.pc \in {"transpose", "swap", "check"}) =>
               /\ alg.s \in AllLetters /\ Count(b, alg.s) >= 1 /\ Count(x, alg.s) >= 1 /\ Count(o, alg.s) = 0
AfterTranspose == (Built /\ alg.pc \in {"swap", "check"}) =>
               /\ alg.t \in AllLetters /\ alg.t # alg.s
               /\ Count(b, alg.t) >= 1 /\ Count(o, alg.t) >= 1 /\ Count(x, alg.t) = 0
\* the swap exchanges the two letters at every position of the blocks subscripts and nothing else
AfterSwap == (Built /\ (alg.pc = "check" \/ (alg.pc = "end" /\ alg.ok))) =>
               /\ Len(alg.l) = Len(L0)
               /\ \A p \in 1..Len(L0) : alg.l[p] = (IF L0[p] = alg.s THEN alg.t
                                                   ELSE IF L0[p] = alg.t THEN alg.s ELSE L0[p])
               /\ Count(alg.l, alg.s) = Count(L0, alg.t) /\ Count(alg.l, alg.t) = Count(L0, alg.s)
               /\ Cardinality({p \in 1..Len(L0) : alg.l[p] # L0[p]}) = Count(L0, alg.s) + Count(L0, alg.t)
               /\ alg.r = R0 /\ alg.o = O0

\* the accepted strings are exactly the characterised set
AcceptSet == (Ended /\ WellWritten(form)) => (alg.ok <=> Accepts(b, x, o))

Rep == RepeatedLetter(alg)

\* transposing twice gives back the very same string
Involution == (Ended /\ alg.ok) =>
                 LET a2 == GetTransposedSubscripts(ResultString(alg))
                 IN a2.ok /\ a2.l = L0 /\ a2.r = R0 /\ a2.o = O0

\* accepted strings are einsums the library can evaluate on shapes that fit the letters
AcceptedAreValid == (phase = "done" /\ alg.ok /\ jd.ctor) => jd.valid

(* C14: the algorithm raises, or returns the subscripts of the exact adjoint - for every string *)
AdjointOrError == (phase = "done" /\ jd.valid /\ alg.ok) => jd.adj = "ok"
(* ... in particular in the class of O10 (repeated summed / transposed letter in the blocks subscripts),
   where the algorithm before furax a5387e9 was wrong for every string *)
RepeatedLetterIsAdjoint == (phase = "done" /\ jd.valid /\ alg.ok /\ Rep) => jd.adj = "ok"

Emit == phase = "done" =>
          PrintT(<<"CASE", ToJson([b |-> b, x |-> x, o |-> o, form |-> form, sub |-> Written(form),
                                   mode |-> par.mode, eb |-> par.eb, ex |-> par.ex, tree |-> par.tree,
                                   blocks |-> jd.blocks, xs |-> jd.xs,
                                   ctor |-> jd.ctor, ctorwhy |-> jd.ctorwhy, valid |-> jd.valid, outs |-> jd.outs,
                                   tok |-> alg.ok, twhy |-> alg.why, tsub |-> IF alg.ok THEN ResultString(alg) ELSE <<>>,
                                   dev |-> Rep, adj |-> jd.adj, hasden |-> jd.hasden, den |-> jd.den])>>)
=============================================================================
