------------------------------ MODULE FxAlgebra ------------------------------
(***************************************************************************)
(* The operator algebra of furax as the code builds it:                    *)
(*   - the arithmetic dunders (core.py)              MatMulT, AddOp, ...   *)
(*   - the binary rule table (rules.py + the *Rule classes)                *)
(*   - the n-ary identity / scalar rules and the scan of                   *)
(*     AlgebraicReductionRule.apply as a step function (ScanStep)          *)
(*   - reduce() and inverse() per class                                    *)
(* Results are terms of FxTerms (or ErrT when the code raises).            *)
(***************************************************************************)
EXTENDS FxTerms

RECURSIVE MatMulT(_, _)
RECURSIVE Reduce(_)
RECURSIVE ScanRun(_)

SameObj(x, y) == x.id # 0 /\ x.id = y.id
\* `w.operator is y` for a wrapper term w
OperatorIs(w, y) == Len(w.ch) = 1 /\ SameObj(w.ch[1], y)

-----------------------------------------------------------------------------
(* arithmetic *)

\* AbstractLinearOperator.__matmul__ and its overrides (a @ b)
BaseMatMul(a, b) ==
  IF InS(a) # OutS(b) THEN ErrT
  ELSE IF b.k = "comp" THEN Comp(<<a>> \o b.ch)               \* NotImplemented -> b.__rmatmul__(a)
  ELSE IF b.k \in LazyInverseKinds /\ OperatorIs(b, a) THEN Id(InS(a))
  ELSE Comp(<<a, b>>)

MatMulT(a, b) ==
  IF IsErr(a) \/ IsErr(b) THEN ErrT
  ELSE CASE a.k = "id" -> IF InS(a) # OutS(b) THEN ErrT ELSE b    \* IdentityOperator.__matmul__
    [] a.k = "hom" /\ b.k = "hom" ->                              \* HomothetyOperator.__matmul__
         IF InS(a) # OutS(b) THEN ErrT ELSE Hom(a.p[1] * b.p[1], a.p[2] * b.p[2], a.s)
    [] a.k \in LazyInverseKinds /\ OperatorIs(a, b) -> Id(InS(a))
    [] a.k = "comp" ->
         IF InS(a) # OutS(b) THEN ErrT
         ELSE Comp(a.ch \o (IF b.k = "comp" THEN b.ch ELSE <<b>>))
    [] OTHER -> BaseMatMul(a, b)

\* the same with the structure checks the property demands of every operand kind
MatMulChecked(a, b) == IF IsErr(a) \/ IsErr(b) \/ InS(a) # OutS(b) THEN ErrT ELSE MatMulT(a, b)

StructsAgree(a, b) == InS(a) = InS(b) /\ OutS(a) = OutS(b)
AddLeaves(t) == IF t.k = "add" THEN t.ch ELSE <<t>>
AddOp(a, b) ==
  IF IsErr(a) \/ IsErr(b) \/ ~StructsAgree(a, b) THEN ErrT
  ELSE AddT(AddLeaves(a) \o AddLeaves(b))

\* k * a  with k = n/d :  HomothetyOperator(k, a.out_structure()) @ a
ScaleOp(n, d, a) == IF IsErr(a) THEN ErrT ELSE MatMulT(Hom(n, d, OutS(a)), a)
NegOp(a) ==
  IF IsErr(a) THEN ErrT
  ELSE IF a.k = "add" THEN AddT(TLCEval([i \in 1..Len(a.ch) |-> ScaleOp(-1, 1, a.ch[i])]))
  ELSE ScaleOp(-1, 1, a)
SubOp(a, b) == IF IsErr(a) \/ IsErr(b) \/ ~StructsAgree(a, b) THEN ErrT ELSE AddOp(a, NegOp(b))
DivOp(a, n, d) == ScaleOp(d, n, a)

-----------------------------------------------------------------------------
(* binary rules *)

RuleNames == <<"InverseBinaryRule", "MoveAxisInverseRule", "ReshapeInverseRule", "PackUnpackRule",
               "QURotationRule", "QURotationHWPRule", "LinearPolarizerHWPRule",
               "BlockRowBlockDiagonalRule", "BlockDiagonalBlockColumnRule",
               "BlockDiagonalBlockDiagonalRule", "BlockRowBlockColumnRule",
               "IndexTransposeRule", "TransposeIndexRule">>

RotKinds == {"rot", "rotT"}
ReshapeKinds == {"reshape", "ravel"}
IndexUnique(t) == t.p[1] = 1
\* exact selection multiplicities of a 1-D index operator on a leaf of length n
Multiplicities(n, idx) == TLCEval([j \in 1..n |-> Len(SelectSeq(idx, LAMBDA x : NormAxis(x, n) = j - 1))])
LeafShapes(s) == {Leaves(s)[i].sh : i \in 1..NLeaves(s)}

BlockRulePair(l, r) ==
  \/ l.k = "brow" /\ r.k = "bdiag"
  \/ l.k = "bdiag" /\ r.k = "bcol"
  \/ l.k = "bdiag" /\ r.k = "bdiag"
  \/ l.k = "brow" /\ r.k = "bcol"
BlockRuleName(l, r) ==
  CASE l.k = "brow" /\ r.k = "bdiag" -> "BlockRowBlockDiagonalRule"
    [] l.k = "bdiag" /\ r.k = "bcol" -> "BlockDiagonalBlockColumnRule"
    [] l.k = "bdiag" /\ r.k = "bdiag" -> "BlockDiagonalBlockDiagonalRule"
    [] l.k = "brow" /\ r.k = "bcol" -> "BlockRowBlockColumnRule"

\* rule `name` rewrites the adjacent pair (l, r)  (check() passes and apply() does not raise NoReduction)
Applicable(name, l, r) ==
  CASE name = "InverseBinaryRule" ->
         IF l.k \in LazyInverseKinds THEN OperatorIs(l, r)
         ELSE r.k \in LazyInverseKinds /\ OperatorIs(r, l)
    [] name = "MoveAxisInverseRule" ->
         l.k = "mvax" /\ r.k = "mvax" /\ Len(l.p) = Len(r.p)
         /\ SubSeq(l.p, 1, MoveK(l.p)) = SubSeq(r.p, MoveK(r.p) + 1, Len(r.p))
         /\ SubSeq(l.p, MoveK(l.p) + 1, Len(l.p)) = SubSeq(r.p, 1, MoveK(r.p))
    [] name = "ReshapeInverseRule" ->
         \/ l.k \in ReshapeKinds /\ r.k = "RT" /\ OperatorIs(r, l)
         \/ l.k = "RT" /\ r.k \in ReshapeKinds /\ OperatorIs(l, r)
    [] name = "PackUnpackRule" -> l.k = "pack" /\ r.k \in TransposeKinds /\ OperatorIs(r, l)
    [] name = "QURotationRule" -> l.k \in RotKinds /\ r.k \in RotKinds
    [] name = "QURotationHWPRule" -> l.k \in RotKinds /\ r.k = "hwp"
    [] name = "LinearPolarizerHWPRule" -> l.k = "pol" /\ r.k = "hwp"
    [] name \in {"BlockRowBlockDiagonalRule", "BlockDiagonalBlockColumnRule",
                 "BlockDiagonalBlockDiagonalRule", "BlockRowBlockColumnRule"} ->
         /\ BlockRulePair(l, r) /\ BlockRuleName(l, r) = name
         /\ TreeDef(l.s) = TreeDef(r.s) /\ Len(l.ch) = Len(r.ch)     \* same container layout
    [] name = "IndexTransposeRule" ->
         l.k = "index" /\ r.k \in TransposeKinds /\ OperatorIs(r, l) /\ IndexUnique(l)
    [] name = "TransposeIndexRule" ->
         /\ l.k \in TransposeKinds /\ r.k = "index" /\ OperatorIs(l, r)
         /\ ~IndexUnique(r) /\ Cardinality(LeafShapes(r.s)) = 1

RotAngles(t) == IF t.k = "rot" THEN t.p ELSE t.ch[1].p

\* what the rule puts in place of (l, r); ErrT inside the result models an exception out of apply()
Rewrite(name, l, r) ==
  CASE name \in {"InverseBinaryRule", "MoveAxisInverseRule", "ReshapeInverseRule", "PackUnpackRule",
                 "IndexTransposeRule"} -> <<>>
    [] name = "QURotationRule" ->
         LET sl == IF l.k = "rot" THEN 1 ELSE -1
             sr == IF r.k = "rot" THEN 1 ELSE -1
         IN <<Term("rot", 0, InS(r), AngleLin(sl, RotAngles(l), sr, RotAngles(r)), <<>>)>>
    [] name = "QURotationHWPRule" -> IF l.k = "rot" THEN <<r, RotTOf(l)>> ELSE <<r, l.ch[1]>>
    [] name = "LinearPolarizerHWPRule" -> <<l>>
    [] name \in {"BlockRowBlockDiagonalRule", "BlockDiagonalBlockColumnRule",
                 "BlockDiagonalBlockDiagonalRule"} ->
         IF TreeDef(l.s) # TreeDef(r.s) \/ Len(l.ch) # Len(r.ch) THEN <<ErrT>>   \* tree_map raises
         ELSE LET prods == TLCEval([i \in 1..Len(l.ch) |-> MatMulT(l.ch[i], r.ch[i])])
                  kind == IF name = "BlockRowBlockDiagonalRule" THEN "brow"
                          ELSE IF name = "BlockDiagonalBlockColumnRule" THEN "bcol" ELSE "bdiag"
              IN <<Reduce(Term(kind, 0, l.s, <<>>, prods))>>
    [] name = "BlockRowBlockColumnRule" ->
         IF TreeDef(l.s) # TreeDef(r.s) \/ Len(l.ch) # Len(r.ch) THEN <<ErrT>>
         ELSE <<Reduce(AddT(TLCEval([i \in 1..Len(l.ch) |-> MatMulT(l.ch[i], r.ch[i])])))>>
    [] name = "TransposeIndexRule" ->
         <<Term("diag", 0, r.s, Multiplicities(Leaves(r.s)[1].sh[1], Tail(r.p)), <<>>)>>

ApplicableRules(l, r) == {i \in DOMAIN RuleNames : Applicable(RuleNames[i], l, r)}
Reducible(l, r) == ApplicableRules(l, r) # {}
\* registry order: the first applicable rule fires
FirstRule(l, r) == RuleNames[CHOOSE i \in ApplicableRules(l, r) : \A j \in ApplicableRules(l, r) : i <= j]

-----------------------------------------------------------------------------
(* n-ary rules *)

IdentityPass(ops) == SelectSeq(ops, LAMBDA o : o.k # "id")

HomPass(ops) ==
  IF Len(ops) < 2 THEN ops
  ELSE LET first == ops[1]
           last == ops[Len(ops)]
           homs == SelectSeq(ops, IsScalarT)
           rest == SelectSeq(ops, LAMBDA o : o.k # "hom")
           num == ProdSeq([i \in 1..Len(homs) |-> homs[i].p[1]])
           den == ProdSeq([i \in 1..Len(homs) |-> homs[i].p[2]])
           onLeft == SizeS(OutS(first)) <= SizeS(InS(last))
       IN IF Len(homs) = 0 THEN ops
          ELSE IF Len(homs) = 1 /\ onLeft /\ first.k = "hom" THEN ops
          ELSE IF Len(homs) = 1 /\ ~onLeft /\ last.k = "hom" THEN ops
          ELSE IF onLeft THEN <<Hom(num, den, OutS(first))>> \o rest
          ELSE rest \o <<Hom(num, den, InS(last))>>

-----------------------------------------------------------------------------
(* the scan of AlgebraicReductionRule.apply, one iteration of the while loop per step *)
\* scan state: [ops, idx, done, ins]   (ins = in_structure of the original chain)

ScanInit(operands) ==
  IF Len(operands) < 2 THEN [ops |-> operands, idx |-> 0, done |-> TRUE, ins |-> NoS, early |-> TRUE]
  ELSE [ops |-> HomPass(IdentityPass(operands)), idx |-> 0, done |-> FALSE,
        ins |-> InS(operands[Len(operands)]), early |-> FALSE]

Splice(ops, idx, new) == SubSeq(ops, 1, idx) \o new \o SubSeq(ops, idx + 3, Len(ops))

HasErr(ops) == \E i \in 1..Len(ops) : IsErr(ops[i])

ScanStep(st) ==
  IF st.idx < Len(st.ops) - 1 /\ ~HasErr(st.ops)
  THEN LET l == st.ops[st.idx + 1]
           r == st.ops[st.idx + 2]
       IN IF Reducible(l, r)
          THEN LET new == Rewrite(FirstRule(l, r), l, r)
                   o0 == Splice(st.ops, st.idx, new)
                   \* an identity produced by a rule is discarded like the initial ones
                   o1 == IF \E i \in 1..Len(new) : new[i].k = "id" THEN IdentityPass(o0) ELSE o0
                   hasH == \E i \in 1..Len(new) : new[i].k = "hom"
                   o2 == IF hasH THEN HomPass(o1) ELSE o1
                   i1 == IF hasH THEN 0 ELSE st.idx
                   i2 == IF i1 > 0 THEN i1 - 1 ELSE i1
               IN [st EXCEPT !.ops = o2, !.idx = i2]
          ELSE [st EXCEPT !.idx = st.idx + 1]
  ELSE [st EXCEPT !.done = TRUE,
                  !.ops = IF st.ops = <<>> THEN <<Id(st.ins)>> ELSE st.ops]

ScanRun(st) == IF st.done THEN st.ops ELSE ScanRun(ScanStep(st))
Scan(operands) == ScanRun(ScanInit(operands))

-----------------------------------------------------------------------------
(* reduce() per class *)
Reduce(t) ==
  CASE IsErr(t) -> ErrT
    [] t.k = "comp" ->
         LET ops == Scan(TLCEval([i \in 1..Len(t.ch) |-> Reduce(t.ch[i])]))
         IN IF HasErr(ops) THEN ErrT
            ELSE IF Len(ops) = 0 THEN Id(InS(t))
            ELSE IF Len(ops) = 1 THEN ops[1] ELSE Comp(ops)
    [] t.k = "add" ->
         LET rs == TLCEval([i \in 1..Len(t.ch) |-> Reduce(t.ch[i])])
         IN IF HasErr(rs) THEN ErrT ELSE IF Len(rs) = 1 THEN rs[1] ELSE AddT(rs)
    [] t.k \in {"brow", "bcol"} ->
         LET rs == TLCEval([i \in 1..Len(t.ch) |-> Reduce(t.ch[i])])
         IN IF HasErr(rs) THEN ErrT ELSE [t EXCEPT !.ch = rs, !.id = 0]
    [] t.k = "bdiag" ->
         LET rs == TLCEval([i \in 1..Len(t.ch) |-> Reduce(t.ch[i])])
         IN IF HasErr(rs) THEN ErrT
            ELSE IF \A i \in 1..Len(rs) : rs[i].k = "id" THEN Id(InS(t))
            ELSE [t EXCEPT !.ch = rs, !.id = 0]
    [] t.k \in ReshapeKinds -> IF OutS(t) = InS(t) THEN Id(InS(t)) ELSE t
    [] OTHER -> t

-----------------------------------------------------------------------------
(* inverse() per class *)
RECURSIVE Inverse(_)
LazyInverse(t) == IF InS(t) # OutS(t) THEN ErrT
                  ELSE LET r == Reduce(t) IN IF IsErr(r) THEN ErrT ELSE InvOf(r)
Inverse(t) ==
  CASE IsErr(t) -> ErrT
    [] t.k = "id" -> t
    [] t.k = "hom" -> Hom(t.p[2], t.p[1], t.s)
    [] t.k \in {"diag", "diagq"} -> DInvOf(t)
    [] t.k \in LazyInverseKinds -> t.ch[1]
    [] t.k = "rot" -> RotTOf(t)
    [] t.k = "mvax" -> Transpose(t)
    [] t.k = "bdiag" ->
         IF \A i \in 1..Len(t.ch) : InS(t.ch[i]) = OutS(t.ch[i])
         THEN LET inv == TLCEval([i \in 1..Len(t.ch) |-> Inverse(t.ch[i])])
              IN IF HasErr(inv) THEN ErrT ELSE Term("bdiag", 0, t.s, <<>>, inv)
         ELSE LazyInverse(t)
    [] OTHER -> LazyInverse(t)

-----------------------------------------------------------------------------
(* normal form of a reduced chain (C07) *)
ChainOf(t) == IF t.k = "comp" THEN t.ch ELSE <<t>>
NormalChain(c) ==
  /\ \A i \in 1..(Len(c) - 1) : ~Reducible(c[i], c[i + 1])
  /\ Len(c) > 1 => \A i \in 1..Len(c) : c[i].k # "id"
  /\ Len(SelectSeq(c, IsScalarT)) <= 1
  /\ (Len(c) > 1 /\ Len(SelectSeq(c, IsScalarT)) = 1) =>
        \/ c[1].k = "hom" /\ SizeS(OutS(c[1])) <= SizeS(InS(c[Len(c)]))
        \/ c[Len(c)].k = "hom" /\ SizeS(InS(c[Len(c)])) <= SizeS(OutS(c[1]))
=============================================================================
