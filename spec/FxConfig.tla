------------------------------- MODULE FxConfig -------------------------------
(***************************************************************************)
(* furax._base.config: the `Config` context manager, the context variable  *)
(* that holds the active ConfigState, and its capture by lazy inverses     *)
(* (furax._base.core.InverseOperator.__init__ / mv).                       *)
(*                                                                         *)
(* Implementation-shaped state: `val` is the value of the ContextVar in    *)
(* each context, `stack` the (instance, token) pairs of entered blocks -   *)
(* __exit__ is `reset(token)`, i.e. restore the value the variable had     *)
(* just before the matching __enter__.                                     *)
(* Specification-shaped ghost state: `base` (configuration the context     *)
(* started with) and `gst` (keyword sets of the enclosing blocks).  The    *)
(* property C19 is stated on the ghost and checked against the             *)
(* implementation-shaped variables in every reachable state.               *)
(***************************************************************************)
EXTENDS Integers, Sequences, FiniteSets, TLC

CONSTANTS Ctx,       \* context ids; 0 is the main context
          MaxDepth,  \* bound on nesting depth per context
          MaxInv,    \* bound on the number of lazy inverses created
          NKw        \* number of keyword sets in use (prefix of Kw)

Default == [solver |-> 0, throw |-> 0, cb |-> 0]

\* keyword sets of `Config(**kw)`; -1 = keyword absent (setting inherited)
Kw == << [solver |-> 1,  throw |-> -1, cb |-> -1],
         [solver |-> -1, throw |-> 1,  cb |-> 2],
         [solver |-> 2,  throw |-> -1, cb |-> 1],
         [solver |-> 0,  throw |-> 0,  cb |-> -1],
         [solver |-> -1, throw |-> -1, cb |-> 2] >>

\* dataclasses.replace(config, **kw)
Replace(cfg, kw) == [f \in DOMAIN cfg |-> IF kw[f] = -1 THEN cfg[f] ELSE kw[f]]

VARIABLES status,  \* c -> "idle" | "run" | "done"
          val,     \* c -> value of the context variable as seen in context c
          pend,    \* c -> <<>> or <<[inst, k]>>: Config object built, not yet entered
          stack,   \* c -> sequence of [inst, old]   (old = what the token restores)
          base,    \* ghost: c -> configuration the context started with
          gst,     \* ghost: c -> configuration the property says is active inside each enclosing block, outermost first
          invs,    \* sequence of [cap, exp]: configuration captured / ghost expectation
          pre      \* c -> <<>> or <<[inst, k]>>: a Config object built earlier and kept for later (`quiet = Config(...)`),
                   \*      entered by `with quiet:` at any later point of the same context

vars == <<status, val, pend, stack, base, gst, invs, pre>>

RECURSIVE FoldKw(_, _)
FoldKw(cfg, ks) == IF ks = <<>> THEN cfg ELSE FoldKw(Replace(cfg, Kw[Head(ks)]), Tail(ks))

\* what the property says is active in context c: the configuration of the innermost open block, else what the
\* context started with.  For a `with Config(**kw)` block that configuration is the one active just before the block
\* with the named settings overridden (ghost computed from the ghost, never from val); for a Config object built
\* earlier it is the object's own configuration (settings inherited where and when the object was built).
Active(c) == IF gst[c] = <<>> THEN base[c] ELSE gst[c][Len(gst[c])]

Init == /\ status = [c \in Ctx |-> IF c = 0 THEN "run" ELSE "idle"]
        /\ val = [c \in Ctx |-> Default]
        /\ pend = [c \in Ctx |-> <<>>]
        /\ stack = [c \in Ctx |-> <<>>]
        /\ base = [c \in Ctx |-> Default]
        /\ gst = [c \in Ctx |-> <<>>]
        /\ invs = <<>>
        /\ pre = [c \in Ctx |-> <<>>]

Running(c) == status[c] = "run"
Free(c) == Running(c) /\ pend[c] = <<>>

\* Config.__init__: reads the *current* configuration and applies the keywords
New(c, k) == /\ Free(c) /\ Len(stack[c]) < MaxDepth
             /\ pend' = [pend EXCEPT ![c] = <<[inst |-> Replace(val[c], Kw[k]), k |-> k]>>]
             /\ UNCHANGED <<status, val, stack, base, gst, invs, pre>>

\* Config.__enter__: token = var.set(instance)
Enter(c) == /\ Running(c) /\ pend[c] # <<>>
            /\ val' = [val EXCEPT ![c] = pend[c][1].inst]
            /\ stack' = [stack EXCEPT ![c] = Append(@, [inst |-> pend[c][1].inst, old |-> val[c]])]
            /\ gst' = [gst EXCEPT ![c] = Append(@, Replace(Active(c), Kw[pend[c][1].k]))]
            /\ pend' = [pend EXCEPT ![c] = <<>>]
            /\ UNCHANGED <<status, base, invs, pre>>

\* a Config object built now and kept: `quiet = Config(**kw)` (it reads the configuration current NOW)
Prebuild(c, k) == /\ Free(c) /\ pre[c] = <<>>
                  /\ pre' = [pre EXCEPT ![c] = <<[inst |-> Replace(val[c], Kw[k]), k |-> k]>>]
                  /\ UNCHANGED <<status, val, pend, stack, base, gst, invs>>

\* `with quiet:` later, possibly inside other blocks: the object's own configuration becomes active; leaving the
\* block must restore what was active just before THIS enter (not what was current when the object was built)
EnterPre(c) == /\ Free(c) /\ pre[c] # <<>> /\ Len(stack[c]) < MaxDepth
               /\ val' = [val EXCEPT ![c] = pre[c][1].inst]
               /\ stack' = [stack EXCEPT ![c] = Append(@, [inst |-> pre[c][1].inst, old |-> val[c]])]
               /\ gst' = [gst EXCEPT ![c] = Append(@, pre[c][1].inst)]
               /\ pre' = [pre EXCEPT ![c] = <<>>]
               /\ UNCHANGED <<status, pend, base, invs>>

\* Config.__exit__ (normally or through an exception): var.reset(token)
Exit(c, how) == /\ Free(c) /\ stack[c] # <<>>
                /\ how \in {"normal", "exception"}
                /\ val' = [val EXCEPT ![c] = stack[c][Len(stack[c])].old]
                /\ stack' = [stack EXCEPT ![c] = SubSeq(@, 1, Len(@) - 1)]
                /\ gst' = [gst EXCEPT ![c] = SubSeq(@, 1, Len(@) - 1)]
                /\ UNCHANGED <<status, pend, base, invs, pre>>

\* InverseOperator.__init__: self.config = Config.instance()
CreateInv(c) == /\ Free(c) /\ Len(invs) < MaxInv
                /\ invs' = Append(invs, [cap |-> val[c], exp |-> Active(c)])
                /\ UNCHANGED <<status, val, pend, stack, base, gst, pre>>

\* InverseOperator.mv: uses self.config whatever is active (no state change)
ApplyInv(c, i) == /\ Free(c) /\ i \in 1..Len(invs) /\ UNCHANGED vars

Read(c) == /\ Free(c) /\ UNCHANGED vars

\* a new thread starts from the default configuration; copy_context() snapshots the
\* current one (as asyncio tasks do)
Spawn(p, c, kind) == /\ Free(p) /\ status[c] = "idle" /\ c # p
                     /\ kind \in {"thread", "copy"}
                     /\ status' = [status EXCEPT ![c] = "run"]
                     /\ LET v == IF kind = "thread" THEN Default ELSE val[p] IN
                        /\ val' = [val EXCEPT ![c] = v]
                        /\ base' = [base EXCEPT ![c] = v]
                     /\ UNCHANGED <<pend, stack, gst, invs, pre>>

Finish(c) == /\ c # 0 /\ Free(c) /\ stack[c] = <<>>
             /\ status' = [status EXCEPT ![c] = "done"]
             /\ UNCHANGED <<val, pend, stack, base, gst, invs, pre>>

Next == \E c \in Ctx :
          \/ \E k \in 1..NKw : New(c, k)
          \/ Enter(c)
          \/ \E k \in 1..NKw : Prebuild(c, k)
          \/ EnterPre(c)
          \/ \E how \in {"normal", "exception"} : Exit(c, how)
          \/ CreateInv(c)
          \/ \E i \in 1..MaxInv : ApplyInv(c, i)
          \/ Read(c)
          \/ \E p \in Ctx, kind \in {"thread", "copy"} : Spawn(p, c, kind)
          \/ Finish(c)

Spec == Init /\ [][Next]_vars

-----------------------------------------------------------------------------
(* Properties (C19) *)

TypeOK == /\ \A c \in Ctx : Len(stack[c]) <= MaxDepth /\ Len(gst[c]) = Len(stack[c])
          /\ Len(invs) <= MaxInv

\* the active configuration is that of the innermost block, outer settings inherited
ActiveIsInnermost == \A c \in Ctx : status[c] # "idle" => val[c] = Active(c)

\* after all blocks are left, the configuration the context started with (main: defaults)
EndsWithBase == \A c \in Ctx : (status[c] # "idle" /\ stack[c] = <<>>) => val[c] = base[c]
MainBaseIsDefault == base[0] = Default

\* a lazy inverse holds the configuration that was active when it was created
CapturedAtCreation == \A i \in 1..Len(invs) : invs[i].cap = invs[i].exp

\* leaving a block restores exactly what was active before entering it
ExitRestores == [][\A c \in Ctx :
                     (Len(stack'[c]) < Len(stack[c])) =>
                        /\ val'[c] = stack[c][Len(stack[c])].old
                        /\ val'[c] = (IF Len(gst[c]) = 1 THEN base[c] ELSE gst[c][Len(gst[c]) - 1])]_vars

\* configuration changes made in one context are never visible in another:
\* val[c] changes only through c's own Enter/Exit or when c is spawned
Isolation == [][\A c \in Ctx :
                  val'[c] # val[c] =>
                     \/ Len(stack'[c]) # Len(stack[c])
                     \/ status[c] = "idle" /\ status'[c] = "run"]_vars

\* captured configurations never change afterwards
CapturedStable == [][\A i \in 1..Len(invs) : invs'[i] = invs[i]]_vars
=============================================================================
