------------------------------ MODULE MC_Config ------------------------------
(* Exhaustive design-level check of FxConfig (C19) under small bounds. *)
EXTENDS FxConfig
CONSTANT MaxLevel
LevelBound == TLCGet("level") <= MaxLevel
=============================================================================
