------------------------------- MODULE FxShapes -------------------------------
(***************************************************************************)
(* Pytree structures (what in_structure()/out_structure() return): trees   *)
(* whose leaves are (shape, dtype) pairs.  Every node is a record with the *)
(* same fields so that `=` is total:                                       *)
(*   [k |-> kind, sh |-> shape, dt |-> dtype, ch |-> children, keys |-> ..]*)
(* kinds: "leaf", "list", "tuple", "dict" (keys sorted, as JAX does),      *)
(* "I", "QU", "IQU", "IQUV" (Stokes containers; children in that order).   *)
(* Flattening convention: leaves in pytree order, each in row-major order. *)
(***************************************************************************)
EXTENDS FxMatrix

Leaf(sh, dt) == [k |-> "leaf", sh |-> sh, dt |-> dt, ch |-> <<>>, keys |-> <<>>]
LeafF(sh) == Leaf(sh, "f32")
Node(kind, chs) == [k |-> kind, sh |-> <<>>, dt |-> "", ch |-> chs, keys |-> <<>>]
ListS(chs) == Node("list", chs)
TupleS(chs) == Node("tuple", chs)
DictS(keys, chs) == [k |-> "dict", sh |-> <<>>, dt |-> "", ch |-> chs, keys |-> keys]
StokesKinds == {"I", "QU", "IQU", "IQUV"}
NComp(kind) == CASE kind = "I" -> 1 [] kind = "QU" -> 2 [] kind = "IQU" -> 3 [] kind = "IQUV" -> 4
StokesS(kind, sh, dt) == Node(kind, TLCEval([i \in 1..NComp(kind) |-> Leaf(sh, dt)]))

IsLeafS(s) == s.k = "leaf"

RECURSIVE Leaves(_)
Leaves(s) == IF s.k = "leaf" THEN <<s>> ELSE ConcatAll([i \in 1..Len(s.ch) |-> Leaves(s.ch[i])])

LeafSize(l) == ProdSeq(l.sh)
SizeS(s) == SumSeq([i \in 1..Len(Leaves(s)) |-> LeafSize(Leaves(s)[i])])
NLeaves(s) == Len(Leaves(s))

\* offset (0-based) of leaf i in the flattened vector
LeafOffset(s, i) == SumSeq([j \in 1..(i - 1) |-> LeafSize(Leaves(s)[j])])

\* tree "shape" only (container kinds and arities), used to compare block layouts
RECURSIVE TreeDef(_)
TreeDef(s) == IF s.k = "leaf" THEN <<"*">>
              ELSE <<s.k>> \o ConcatAll([i \in 1..Len(s.ch) |-> <<"(">> \o TreeDef(s.ch[i]) \o <<")">>])

-----------------------------------------------------------------------------
(* row-major index arithmetic on shapes *)

\* strides of a shape (row-major): stride[k] = prod(sh[k+1..])
Strides(sh) == [k \in 1..Len(sh) |-> ProdSeq(SubSeq(sh, k + 1, Len(sh)))]
\* multi-index (0-based components) of the flat 0-based index f
Unravel(sh, f) == [k \in 1..Len(sh) |-> (f \div Strides(sh)[k]) % sh[k]]
Ravel(sh, mi) == SumSeq([k \in 1..Len(sh) |-> mi[k] * Strides(sh)[k]])

-----------------------------------------------------------------------------
(* dtypes: the small lattice the library meets *)
DTypes == {"f32", "f64", "i32", "i64"}
IsFloat(dt) == dt \in {"f32", "f64"}
\* canonical dtype under the 64-bit flag
Canon(dt, x64) == IF x64 THEN dt ELSE (CASE dt = "f64" -> "f32" [] dt = "i64" -> "i32" [] OTHER -> dt)
\* jnp.result_type on strongly typed arrays of these dtypes
Promote(a, b) ==
  IF a = b THEN a
  ELSE IF IsFloat(a) /\ IsFloat(b) THEN "f64"
  ELSE IF IsFloat(a) THEN (IF a = "f32" /\ b = "i64" THEN "f32" ELSE a)
  ELSE IF IsFloat(b) THEN (IF b = "f32" /\ a = "i64" THEN "f32" ELSE b)
  ELSE "i64"
=============================================================================
