------------------------------ MODULE MC_Index ------------------------------
(***************************************************************************)
(* C12: indexing and packing select, and their transposes scatter-add.     *)
(* A leaf shape is chosen, then the index expression item by item (from a  *)
(* symbolic alphabet resolved against the axis it addresses), then the     *)
(* operator's derived facts are computed.  TLC checks the transcribed      *)
(* logic of IndexOperator against the NumPy reference of FxIndex and emits *)
(* every legal expression with its exact selection map.                    *)
(***************************************************************************)
EXTENDS FxIndex, Json

CONSTANTS ShapeCodes, \* leaf shapes as decimal codes: 23 = (2, 3) (the cfg format has no tuples)
          Alphabet,   \* symbolic item names
          MaxItems

RECURSIVE Digits(_)
Digits(c) == IF c < 10 THEN <<c>> ELSE Append(Digits(c \div 10), c % 10)
Shapes == {Digits(c) : c \in ShapeCodes}

VARIABLES phase, shape, syms, given
vars == <<phase, shape, syms, given>>

\* symbolic items, resolved against the size n of the addressed axis (and the next one for rank-2 masks)
Resolve(sym, n, n2) ==
  CASE sym = "i0" -> IntI(0) [] sym = "i1" -> IntI(1) [] sym = "im1" -> IntI(-1) [] sym = "im2" -> IntI(-2)
    [] sym = "full" -> FullI
    [] sym = "s1_" -> SliceI(1, NONE, NONE) [] sym = "s_m1" -> SliceI(NONE, -1, NONE)
    [] sym = "s__2" -> SliceI(NONE, NONE, 2) [] sym = "s__m1" -> SliceI(NONE, NONE, -1)
    [] sym = "sm2_" -> SliceI(-2, NONE, NONE) [] sym = "s00" -> SliceI(0, 0, NONE)
    [] sym = "s1_m1_m1" -> SliceI(1, NONE, -1)
    [] sym = "ell" -> EllI
    [] sym = "a01" -> ArrI(<<0, 1>>, <<2>>)
    [] sym = "a11m1" -> ArrI(<<1, 1, -1>>, <<3>>)
    [] sym = "aneg" -> ArrI(<<-2, -1, 0, 1>>, <<4>>)
    [] sym = "a0" -> ArrI(<<0>>, <<1>>)
    [] sym = "a10" -> ArrI(<<1, 0>>, <<2>>)
    [] sym = "a2d" -> ArrI(<<0, 1, 1, 0>>, <<2, 2>>)
    [] sym = "a2du" -> ArrI(<<1, 0>>, <<2, 1>>)
    [] sym = "mAlt" -> MaskI([i \in 1..n |-> i % 2], <<n>>)
    [] sym = "mAll" -> MaskI([i \in 1..n |-> 1], <<n>>)
    [] sym = "mNone" -> MaskI([i \in 1..n |-> 0], <<n>>)
    [] sym = "mFirst" -> MaskI([i \in 1..n |-> IF i = 1 THEN 1 ELSE 0], <<n>>)
    [] sym = "m2dAll" -> MaskI([f \in 1..(n * n2) |-> 1], <<n, n2>>)     \* keeps everything, but still flattens the two axes
    [] sym = "m2d" -> MaskI([f \in 1..(n * n2) |-> IF ((((f - 1) \div n2) + ((f - 1) % n2)) % 2) = 0 THEN 1 ELSE 0], <<n, n2>>)

SymConsumes(sym) == IF sym = "ell" THEN 0 ELSE IF sym \in {"m2d", "m2dAll"} THEN 2 ELSE 1

\* resolve the symbolic expression for a leaf shape (axes addressed from the left; after an ellipsis
\* from the right)
ResolveAll(ss, sh) ==
  LET r == Len(sh)
      total == SumSeq([i \in 1..Len(ss) |-> SymConsumes(ss[i])])
      ep == IF \E i \in 1..Len(ss) : ss[i] = "ell" THEN CHOOSE i \in 1..Len(ss) : ss[i] = "ell" ELSE Len(ss) + 1
      axisOf(i) == IF i < ep THEN SumSeq([j \in 1..(i - 1) |-> SymConsumes(ss[j])])
                   ELSE r - SumSeq([j \in 1..(Len(ss) - i + 1) |-> SymConsumes(ss[i + j - 1])])
  IN [i \in 1..Len(ss) |->
        LET ax == axisOf(i) IN
        Resolve(ss[i], IF ax >= 0 /\ ax < r THEN sh[ax + 1] ELSE 1, IF ax + 1 >= 0 /\ ax + 1 < r THEN sh[ax + 2] ELSE 1)]

Items == ResolveAll(syms, shape)

Init == phase = "shape" /\ shape = <<>> /\ syms = <<>> /\ given = FALSE

PickShape(sh) == /\ phase = "shape" /\ shape' = sh /\ phase' = "items" /\ UNCHANGED <<syms, given>>
PickItem(sym) == /\ phase = "items" /\ Len(syms) < MaxItems
                 /\ (sym = "ell" => \A i \in 1..Len(syms) : syms[i] # "ell")
                 /\ SumSeq([i \in 1..Len(syms) |-> SymConsumes(syms[i])]) + SymConsumes(sym) <= Len(shape)
                 /\ syms' = Append(syms, sym) /\ UNCHANGED <<phase, shape, given>>
\* the caller may assert unique_indices=True only when it is true
Finish(g) == /\ phase = "items" /\ Len(syms) >= 1
             /\ Legal(Items, shape)
             /\ (g => NoInputTwice(Items, shape))
             /\ given' = g /\ phase' = "done" /\ UNCHANGED <<shape, syms>>

Next == (\E sh \in Shapes : PickShape(sh)) \/ (\E s \in Alphabet : PickItem(s)) \/ (\E g \in BOOLEAN : Finish(g))

-----------------------------------------------------------------------------
Done == phase = "done"
Sel == Selection(Items, shape)

SelectionWellFormed == Done => \A i \in 1..Len(Sel) : 0 <= Sel[i] /\ Sel[i] < ProdSeq(shape)
\* the flag the constructor derives is truthful: set => no input element is selected twice
FlagTruthful == Done => (UniqueFlag(Items, given) => NoInputTwice(Items, shape))
\* P @ P.T is rewritten to the identity only when no input element is selected twice
PPtOnlyWhenUnique == Done => (PPtRewritten(Items, given) => NoInputTwice(Items, shape))
\* P.T @ P is rewritten to the diagonal of the true selection multiplicities
PtPIsMultiplicity == (Done /\ PtPRewritten(Items, given, {shape})) =>
                        PtPDiagonal(Items, shape) = InputMultiplicity(Items, shape)
\* indexed_axes names exactly the entries that are not full slices
IndexedAxesRight ==
  Done => LET n == Len(Items)
              ref == {IF (HasEll(Items) /\ i > CHOOSE e \in 1..n : Items[e].t = "ell") THEN i - 1 - n ELSE i - 1
                        : i \in IndexedItems(Items)}
          IN {IndexedAxesT(Items)[i] : i \in 1..Len(IndexedAxesT(Items))} = ref
\* reduce() returns the identity only for the identity selection
ReduceOnlyIdentity == (Done /\ ReducesToIdentity(Items)) =>
                         /\ OutShapeOf(Items, shape) = shape
                         /\ Sel = [f \in 1..ProdSeq(shape) |-> f - 1]

Emit == Done =>
  PrintT(<<"CASE", ToJson([
     shape |-> shape, syms |-> syms, items |-> Items, given |-> given,
     outshape |-> OutShapeOf(Items, shape), sel |-> Sel,
     unique |-> UniqueFlag(Items, given), nodup |-> NoInputTwice(Items, shape),
     indexed_axes |-> IndexedAxesT(Items), reduce_id |-> ReducesToIdentity(Items),
     ppt |-> PPtRewritten(Items, given),
     ptp |-> PtPRewritten(Items, given, {shape}),
     mult |-> InputMultiplicity(Items, shape) ])>>)
=============================================================================
