------------------------------ MODULE MC_Stokes ------------------------------
(***************************************************************************)
(* C20 at design level.  One behaviour = one call on a Stokes container or *)
(* a pytree helper: the category and its parameters are chosen one per     *)
(* step (build), the call is evaluated with the transcription of FxStokes  *)
(* (binary operators in two steps, following Python's protocol: the left   *)
(* operand's dunder, then the right operand's reflected dunder), and the   *)
(* terminal state is compared with the reference semantics and emitted     *)
(* with its exact prediction for the replay on the real library.           *)
(***************************************************************************)
EXTENDS FxStokes, Json

CONSTANTS Cats,   \* categories to enumerate
          X64s,   \* values of the jax_enable_x64 flag
          Tier    \* "quick" | "thorough": the set of component shapes

VARIABLES phase, cat, par, tmp, res
vars == <<phase, cat, par, tmp, res>>

AllCats == {"binop", "unary", "index", "reshape", "matmul", "class_for", "factory", "from_stokes",
            "from_iquv", "promote", "like", "as_structure", "is_leaf", "dot", "props"}
BaseShapes == {<<2>>, <<2, 2>>}     \* the index / reshape domains are written for two rows
\* component shapes (at most 4 elements: the value tables are pairwise distinct up to there)
Shapes == IF Tier = "thorough" THEN BaseShapes \cup {<<3>>, <<1, 3>>, <<4>>, <<2, 1>>} ELSE BaseShapes
ASSUME Cats \subseteq AllCats /\ X64s \subseteq BOOLEAN /\ \A s \in Shapes : ProdSeq(s) \in 1..4

-----------------------------------------------------------------------------
(* parameters of each category, in the order they are chosen *)
FieldNames(c) ==
  CASE c = "binop" -> <<"x64", "kind", "shape", "dt", "op", "operand", "form">>
    [] c = "unary" -> <<"x64", "kind", "shape", "dt", "uop">>
    [] c = "index" -> <<"x64", "kind", "shape", "idx">>
    [] c = "reshape" -> <<"x64", "kind", "shape", "to">>
    [] c = "matmul" -> <<"x64", "kind", "shape", "dt", "operand", "form">>
    [] c = "class_for" -> <<"x64", "name">>
    [] c = "factory" -> <<"x64", "kind", "shape", "fn", "dtarg">>
    [] c = "from_stokes" -> <<"x64", "mode", "names", "lk", "dts">>
    [] c = "from_iquv" -> <<"x64", "kind", "lk", "dts">>
    [] c = "promote" -> <<"x64", "tree", "lk", "dts">>
    [] c = "like" -> <<"x64", "fn", "tree", "lk", "dts">>
    [] c = "as_structure" -> <<"x64", "tree", "lk", "dts">>
    [] c = "is_leaf" -> <<"x64", "obj">>
    [] c = "dot" -> <<"x64", "xtree", "ytree", "xpat", "ypat">>
    [] c = "props" -> <<"x64", "kind", "shape", "dt">>

Idx(t, a) == [t |-> t, a |-> a]
Indices == {Idx("int", <<0>>), Idx("int", <<1>>), Idx("int", <<-1>>), Idx("int", <<-2>>),
            Idx("slice", <<0, 1, 1>>), Idx("slice", <<1, 2, 1>>), Idx("slice", <<0, 2, 1>>),
            Idx("slice", <<0, 2, 2>>), Idx("slice", <<-1, 2, 1>>), Idx("slice", <<1, -3, -1>>),
            Idx("slice", <<0, 0, 1>>),
            Idx("iarr", <<1, 0, 1>>), Idx("iarr", <<0>>), Idx("iarr", <<-1, 0>>), Idx("iarr", <<1, 1, 0, 0>>),
            Idx("mask", <<1, 0>>), Idx("mask", <<0, 1>>), Idx("mask", <<1, 1>>), Idx("mask", <<0, 0>>)}
\* <<>> stands for ravel()
Targets == {<<>>, <<2>>, <<4>>, <<1, 2>>, <<2, 1>>, <<2, 2>>, <<1, 4>>, <<4, 1>>, <<-1>>, <<-1, 2>>, <<2, -1>>,
            <<3>>, <<1, 2, 2>>, <<-1, 3>>}
ClassNames == {"I", "QU", "IQU", "IQUV", "IV", "iqu", "", "UQ", "Q", "IQUVI", "i"}
KwNames == {<<"I">>, <<"Q", "U">>, <<"U", "Q">>, <<"I", "Q", "U">>, <<"U", "I", "Q">>, <<"I", "Q", "U", "V">>,
            <<"V", "U", "Q", "I">>, <<"i", "q", "u">>, <<"i">>, <<"I", "Q">>, <<"I", "V">>, <<"Q">>,
            <<"I", "U", "V">>, <<"I", "Q", "U", "V", "W">>, <<"q", "U">>}
Patterns == {<<"f32", "f32", "f32", "f32", "f32">>, <<"i32", "f32", "f64", "i32", "f32">>,
             <<"f64", "i32", "i32", "i32", "i32">>, <<"i32", "i32", "i32", "i32", "i32">>}
D3 == {"i32", "f32", "f64"}
D4 == {"i32", "f32", "f64", "c64"}
D5 == {"i32", "f16", "f32", "f64", "c64"}
HelperTrees == {"leaf", "pair", "dict_list3"}
RandomFn(fn) == fn \in {"normal", "uniform", "normal_like", "uniform_like"}

Dom(c, f, p) ==
  CASE f = "x64" -> X64s
    [] f = "kind" -> Kinds
    [] f = "shape" -> (IF c \in {"index", "reshape"} THEN BaseShapes ELSE Shapes)
    [] f = "dt" -> (CASE c = "binop" -> {"f32", "f64", "mixed"} [] c = "unary" -> {"f32", "f64", "mixed"}
                      [] c = "matmul" -> {"f32", "c64"} [] c = "props" -> {"f32", "f64"})
    [] f = "op" -> Ops
    [] f = "operand" -> (IF c = "binop" THEN Accepted \cup Refused ELSE {"same", "other", "pyint", "jaxarr", "list"})
    [] f = "form" -> (IF p.operand = "same" THEN (IF c = "binop" THEN {"direct", "rdunder"} ELSE {"direct"})
                      ELSE {"direct", "reflected"})
    [] f = "uop" -> {"neg", "abs", "pos"}
    [] f = "idx" -> Indices
    [] f = "to" -> Targets
    [] f = "name" -> ClassNames
    [] f = "fn" -> (IF c = "factory" THEN {"zeros", "ones", "full", "structure_for", "normal", "uniform"}
                    ELSE {"zeros_like", "ones_like", "full_like", "normal_like", "uniform_like"})
    [] f = "dtarg" -> (IF RandomFn(p.fn) THEN {"default", "f32", "f64"} ELSE {"default", "f32", "f64", "i32"})
    [] f = "mode" -> {"pos", "kw", "both"}
    [] f = "names" -> (CASE p.mode = "pos" -> {[i \in 1..n |-> "-"] : n \in 0..5}
                         [] p.mode = "kw" -> KwNames
                         [] p.mode = "both" -> {<<"-", "Q">>, <<"-", "-", "U">>, <<"-", "Q", "U">>})
    [] f = "lk" -> (IF c \in {"from_iquv"} THEN {"arrays", "structs"} ELSE {"arrays", "structs", "alt"})
    [] f = "dts" -> (CASE c = "from_stokes" ->
                            (IF p.mode = "pos" /\ Len(p.names) \in 1..4 /\ p.lk # "alt" THEN [1..Len(p.names) -> D3]
                             ELSE {SubSeq(pt, 1, Len(p.names)) : pt \in Patterns})
                       [] c = "from_iquv" -> (IF p.lk = "arrays" THEN [1..4 -> D3] ELSE {SubSeq(pt, 1, 4) : pt \in Patterns})
                       [] c = "promote" -> [1..NLeaves(p.tree) -> D5]
                       [] c = "like" -> [1..NLeaves(p.tree) -> IF RandomFn(p.fn) THEN {"f32", "f64"} ELSE D3]
                       [] c = "as_structure" -> [1..NLeaves(p.tree) -> D4])
    [] f = "tree" -> HelperTrees
    [] f = "obj" -> {"array", "struct", "pyfloat", "str", "pair", "list2", "dict1", "I", "IQU"}
    [] f \in {"xtree", "ytree"} -> TreeDefs
    [] f \in {"xpat", "ypat"} -> {"real", "cplx", "alt"}

-----------------------------------------------------------------------------
(* concrete inputs (emitted, so that the replay builds exactly these objects) *)
IsStructLk(lk, j) == lk = "structs" \/ (lk = "alt" /\ j % 2 = 0)
RatContainer(kind, sh, cfg, x64, V(_, _)) ==
  MkC(kind, LAMBDA n : Array(sh, DtCfg(cfg, n, x64), [q \in 1..ProdSeq(sh) |-> RInt(V(n, q))]))
GaussContainer(kind, sh, cfg, x64, V(_, _)) ==
  MkC(kind, LAMBDA n : Array(sh, DtCfg(cfg, n, x64), [q \in 1..ProdSeq(sh) |-> V(n, q)]))
Foreign(t, a) == [t |-> t, c |-> NoC, a |-> a]

InA(c, p) ==
  CASE c = "binop" -> RatContainer(p.kind, p.shape, p.dt, p.x64, AVal)
    [] c = "unary" -> RatContainer(p.kind, p.shape, p.dt, p.x64, SVal)
    [] c \in {"index", "reshape"} -> RatContainer(p.kind, p.shape, "mixed", p.x64, SVal)
    [] c = "props" -> RatContainer(p.kind, p.shape, p.dt, p.x64, AVal)
    [] c = "matmul" -> GaussContainer(p.kind, p.shape, p.dt, p.x64, LAMBDA n, q : GAVal(p.dt = "c64", n, q))

InX(c, p) ==
  LET t == p.operand
      n == ProdSeq(p.shape)
  IN IF c = "binop"
     THEN CASE t = "same" -> [t |-> t, a |-> NoArr,
                              c |-> RatContainer(p.kind, p.shape, "rmixed", p.x64, LAMBDA m, q : BVal(p.op, m, q))]
            [] t = "other" -> [t |-> t, a |-> NoArr,
                               c |-> RatContainer(OtherKind(p.kind), p.shape, "rmixed", p.x64, LAMBDA m, q : BVal(p.op, m, q))]
            [] t = "pyint" -> Foreign(t, PyScalar("i32", ScalarVal(p.op, t)))
            [] t = "pyfloat" -> Foreign(t, PyScalar("f32", ScalarVal(p.op, t)))
            [] t \in {"npscalar", "jax0d"} -> Foreign(t, Array(<<>>, "f32", <<ScalarVal(p.op, t)>>))
            [] t = "jaxarr" -> Foreign(t, Array(p.shape, Canon("f64", p.x64), [q \in 1..n |-> RInt(ArrVal(p.op, q))]))
            [] t \in {"list", "none"} -> Foreign(t, NoArr)
     ELSE CASE t = "same" -> [t |-> t, a |-> NoArr,
                              c |-> GaussContainer(p.kind, p.shape, p.dt, p.x64, LAMBDA m, q : GBVal(p.dt = "c64", m, q))]
            [] t = "other" -> [t |-> t, a |-> NoArr,
                               c |-> GaussContainer(OtherKind(p.kind), p.shape, p.dt, p.x64, LAMBDA m, q : GBVal(p.dt = "c64", m, q))]
            [] t = "pyint" -> Foreign(t, PyScalar("i32", <<3, 0>>))
            [] t = "jaxarr" -> Foreign(t, Array(p.shape, "f32", [q \in 1..n |-> <<ArrVal("mul", q), 0>>]))
            [] t = "list" -> Foreign(t, NoArr)

\* from_stokes / from_iquv arguments: argument j has its own values 10 j + position
ArgLeaf(p, j) == MkLeaf(IsStructLk(p.lk, j), <<2>>, p.dts[j], p.x64, LAMBDA q : RInt(10 * j + q))
InArgs(c, p) == IF c = "from_iquv" THEN [j \in 1..4 |-> ArgLeaf(p, j)]
                ELSE [j \in 1..Len(p.names) |-> ArgLeaf(p, j)]
\* helper pytrees
InTree(p) == Tree(p.tree, LAMBDA j : MkLeaf(IsStructLk(p.lk, j), LeafShape(j), p.dts[j], p.x64, LAMBDA q : RInt(10 * j + q)))
IsCx(pat, j) == pat = "cplx" \/ (pat = "alt" /\ j % 2 = 1)
XG(j, q, cx) == <<j + 2 * q, IF cx THEN (IF q % 2 = 0 THEN 1 ELSE -1) * (j + 1) ELSE 0>>
YG(j, q, cx) == <<3 * j - q, IF cx THEN q + j ELSE 0>>
DotTree(def, pat, x64, G(_, _, _)) ==
  Tree(def, LAMBDA j : Array(LeafShape(j), IF IsCx(pat, j) THEN "c64" ELSE "f32",
                             [q \in 1..ProdSeq(LeafShape(j)) |-> G(j, q, IsCx(pat, j))]))
InDotX(p) == DotTree(p.xtree, p.xpat, p.x64, XG)
InDotY(p) == DotTree(p.ytree, p.ypat, p.x64, YG)
ReqDt(p) == IF p.dtarg = "default" THEN "f64" ELSE p.dtarg      \* `float` and np.float64 both mean f64
Fill == 7

Input(c, p) ==
  CASE c \in {"binop", "matmul"} -> [a |-> InA(c, p), x |-> InX(c, p)]
    [] c \in {"unary", "index", "reshape", "props"} -> [a |-> InA(c, p)]
    [] c = "factory" -> [fill |-> Fill, low |-> 2, high |-> 3]
    [] c \in {"from_stokes", "from_iquv"} -> [args |-> InArgs(c, p)]
    [] c \in {"promote", "as_structure"} -> [x |-> InTree(p)]
    [] c = "like" -> [x |-> InTree(p), fill |-> Fill, low |-> 2, high |-> 3]
    [] c = "dot" -> [x |-> InDotX(p), y |-> InDotY(p)]
    [] c \in {"class_for", "is_leaf"} -> [none |-> 0]

-----------------------------------------------------------------------------
(* Python's binary operator protocol around the transcribed dunders.  Foreign left operands   *)
(* (int, float, NumPy scalar, jax.Array, list, None) do not know the container and answer     *)
(* NotImplemented; a container on the other side answers through its own (r)dunder.          *)
Dunder(c, op, self, other) == IF c = "binop" THEN Operation(op, self, other) ELSE Matmul(self, other)
RDunder(c, op, self, other) == IF c = "binop" THEN ROperation(op, self, other) ELSE NotImpl   \* no __rmatmul__
OpOf(c, p) == IF c = "binop" THEN p.op ELSE "matmul"
Call1(c, op, form, a, x) ==
  CASE form = "direct" -> Dunder(c, op, a, x)
    [] form = "reflected" -> (IF IsContainer(x) THEN Dunder(c, op, x.c, Wrap(a)) ELSE NotImpl)
    [] form = "rdunder" -> NotImpl                       \* a.__rop__(x) is called directly
Call2(c, op, form, a, x) ==
  CASE form = "direct" -> (IF IsContainer(x) /\ x.c.kind # a.kind THEN RDunder(c, op, x.c, Wrap(a)) ELSE NotImpl)
    [] form \in {"reflected", "rdunder"} -> RDunder(c, op, a, x)
Dispatch(c, op, form, a, x) ==
  LET r1 == Call1(c, op, form, a, x)
      r2 == IF r1.ni THEN Call2(c, op, form, a, x) ELSE r1
  IN IF r2.ni THEN Err ELSE Ok(r2.c)

FirstLeaf(a) == a.leaf[Lower(Letters(a.kind)[1])]
KwOnly(p) == SelectSeq(p.names, LAMBDA s : s # "-")
NPos(p) == Len(p.names) - Len(KwOnly(p))

\* the transcription, for the single-step categories
Impl(c, p) ==
  CASE c = "unary" -> Ok(IF p.uop = "pos" THEN InA(c, p) ELSE TreeMap1(LAMBDA l : LeafUn(p.uop, l), InA(c, p)))
    [] c = "index" -> Ok(GetItem(InA(c, p), p.idx))
    [] c = "reshape" ->
         (IF p.to = <<>> THEN Ok(TreeMap1(LAMBDA l : ReshapeArr(l, <<Size(l)>>), InA(c, p)))
          ELSE LET r == ResolveShape(p.to, ProdSeq(p.shape))
               IN IF r.ok THEN Ok(TreeMap1(LAMBDA l : ReshapeArr(l, r.sh), InA(c, p))) ELSE Err)
    [] c = "class_for" -> ClassFor(p.name)
    [] c = "factory" -> Factory(p.kind, p.fn, p.shape, ReqDt(p), p.x64, Fill)
    [] c = "from_stokes" -> FromStokes(SubSeq(InArgs(c, p), 1, NPos(p)), KwOnly(p),
                                       SubSeq(InArgs(c, p), NPos(p) + 1, Len(p.names)), p.x64)
    [] c = "from_iquv" -> FromIquv(p.kind, ArgLeaf(p, 1), ArgLeaf(p, 2), ArgLeaf(p, 3), ArgLeaf(p, 4), p.x64)
    [] c = "promote" -> AsPromoted(InTree(p), p.x64)
    [] c = "like" -> (IF RandomFn(p.fn) THEN RandomLike(InTree(p), p.x64)
                      ELSE FullLike(InTree(p), p.x64, CASE p.fn = "zeros_like" -> 0 [] p.fn = "ones_like" -> 1
                                                           [] p.fn = "full_like" -> Fill))
    [] c = "as_structure" -> AsStructure(InTree(p), p.x64)
    [] c = "is_leaf" -> [err |-> FALSE, leaf |-> IsLeafObj(p.obj)]
    [] c = "dot" -> TreeDot(InDotX(p), InDotY(p))
    [] c = "props" -> [err |-> FALSE, sh |-> FirstLeaf(InA(c, p)).sh, dt |-> FirstLeaf(InA(c, p)).dt,
                       c |-> StructureFor(p.kind, FirstLeaf(InA(c, p)).sh, FirstLeaf(InA(c, p)).dt)]

-----------------------------------------------------------------------------
(* the state machine *)
Init == phase = "cat" /\ cat = "" /\ par = <<>> /\ tmp = NotImpl /\ res = Err

PickCat(c) == /\ phase = "cat" /\ cat' = c /\ phase' = "build" /\ UNCHANGED <<par, tmp, res>>

NChosen == Cardinality(DOMAIN par)
Choose == /\ phase = "build" /\ NChosen < Len(FieldNames(cat))
          /\ LET f == FieldNames(cat)[NChosen + 1]
             IN \E v \in Dom(cat, f, par) : par' = par @@ (f :> v)
          /\ UNCHANGED <<phase, cat, tmp, res>>

Dispatched == cat \in {"binop", "matmul"}
Built == phase = "build" /\ NChosen = Len(FieldNames(cat))

\* single-step categories
Eval == /\ Built /\ ~Dispatched
        /\ res' = Impl(cat, par) /\ phase' = "done" /\ UNCHANGED <<cat, par, tmp>>

\* binary operators: first the left operand's method ...
First == /\ Built /\ Dispatched
         /\ tmp' = Call1(cat, OpOf(cat, par), par.form, InA(cat, par), InX(cat, par))
         /\ phase' = "call1" /\ UNCHANGED <<cat, par, res>>
\* ... then, only if it answered NotImplemented, the right operand's reflected method ...
Second == /\ phase = "call1"
          /\ tmp' = IF tmp.ni THEN Call2(cat, OpOf(cat, par), par.form, InA(cat, par), InX(cat, par)) ELSE tmp
          /\ phase' = "call2" /\ UNCHANGED <<cat, par, res>>
\* ... and TypeError if both did
Finish == /\ phase = "call2"
          /\ res' = IF tmp.ni THEN Err ELSE Ok(tmp.c)
          /\ phase' = "done" /\ UNCHANGED <<cat, par, tmp>>

Next == (\E c \in Cats : PickCat(c)) \/ Choose \/ Eval \/ First \/ Second \/ Finish
Spec == Init /\ [][Next]_vars

-----------------------------------------------------------------------------
(* the reference statement of every category *)
NamedArgs(p) ==    \* component name -> argument, for the accepted forms of from_stokes
  IF p.mode = "pos" THEN [n \in CompSet(KindOfCount(Len(p.names))) |-> ArgLeaf(p, FieldIdx(KindOfCount(Len(p.names)), n))]
  ELSE [n \in {Lower(p.names[j]) : j \in 1..Len(p.names)} |-> ArgLeaf(p, CHOOSE j \in 1..Len(p.names) : Lower(p.names[j]) = n)]
Ref(c, p) ==
  CASE c = "binop" -> RefBinop(InA(c, p), p.op, InX(c, p), p.form = "direct")
    [] c = "matmul" -> (IF p.form = "direct" THEN RefMatmul(InA(c, p), InX(c, p)) ELSE Err)
    [] c = "unary" -> RefLeafwise(InA(c, p), LAMBDA l : LeafUn(p.uop, l))
    [] c = "index" -> RefLeafwise(InA(c, p), LAMBDA l : IndexArr(l, p.idx))
    [] c = "reshape" -> (IF p.to = <<>> THEN RefLeafwise(InA(c, p), LAMBDA l : ReshapeArr(l, <<ProdSeq(l.sh)>>))
                         ELSE RefReshape(InA(c, p), p.to))
    [] c = "class_for" -> RefClassFor(p.name)
    [] c = "factory" -> RefFactory(p.kind, p.fn, p.shape, ReqDt(p), p.x64,
                                   CASE p.fn = "zeros" -> 0 [] p.fn = "ones" -> 1 [] OTHER -> Fill)
    [] c = "from_stokes" ->
         (IF p.mode = "both" THEN Err
          ELSE IF p.mode = "pos" THEN (IF Len(p.names) \in 1..4 THEN RefFromNamed(NamedArgs(p), p.x64, TRUE) ELSE Err)
          ELSE IF \A j \in 1..Len(p.names) : p.names[j] \in {"I", "Q", "U", "V"} THEN RefFromNamed(NamedArgs(p), p.x64, TRUE)
          ELSE Err)
    [] c = "from_iquv" -> RefFromNamed([n \in CompSet(p.kind) |-> ArgLeaf(p, GI(n) + 1)], p.x64, NComp(p.kind) > 1)
    [] c = "promote" -> RefPromote(InTree(p), p.x64)
    [] c = "like" -> (IF RandomFn(p.fn) THEN RefRandomLike(InTree(p), p.x64)
                      ELSE RefFullLike(InTree(p), p.x64, CASE p.fn = "zeros_like" -> 0 [] p.fn = "ones_like" -> 1
                                                              [] p.fn = "full_like" -> Fill))
    [] c = "as_structure" -> RefAsStructure(InTree(p), p.x64)
    [] c = "is_leaf" -> [err |-> FALSE, leaf |-> p.obj \notin {"pair", "list2", "dict1", "I", "IQU"}]
    [] c = "dot" -> RefTreeDot(InDotX(p), InDotY(p))
    [] c = "props" -> LET a == InA(c, p)
                      IN [err |-> FALSE, sh |-> CHOOSE s \in {a.leaf[n].sh : n \in CompSet(a.kind)} : TRUE,
                          dt |-> CHOOSE d \in {a.leaf[n].dt : n \in CompSet(a.kind)} : TRUE,
                          c |-> MkC(a.kind, LAMBDA n : Struct(a.leaf[n].sh, a.leaf[n].dt))]

-----------------------------------------------------------------------------
(* invariants *)
Done == phase = "done"
TypeOK == /\ phase \in {"cat", "build", "call1", "call2", "done"}
          /\ cat \in Cats \cup {""}
          /\ tmp.ni \in BOOLEAN /\ res.err \in BOOLEAN
          /\ (Dispatched /\ phase = "done") => tmp.ni = res.err

\* the transcription agrees with the reference statement
Agree == Done => /\ res.err = Ref(cat, par).err
                 /\ ~res.err => res = Ref(cat, par)

\* the stepped protocol computes what the closed form does
SteppedIsDispatch == (Done /\ Dispatched) =>
                       res = Dispatch(cat, OpOf(cat, par), par.form, InA(cat, par), InX(cat, par))

ReturnsContainer == cat \in {"binop", "unary", "index", "reshape", "factory", "from_iquv"}
KindKept == (Done /\ ReturnsContainer /\ ~res.err) =>
              /\ res.c.kind = par.kind
              /\ DOMAIN res.c.leaf = CompSet(par.kind)

RefusedIsError == (Done /\ Dispatched) =>
                    (res.err <=> IF cat = "binop" THEN par.operand \in Refused ELSE par.operand # "same")

\* order: component n is op(left_n, right_n), with the container on the side the expression puts it
InOrder == (Done /\ cat = "binop" /\ ~res.err) =>
             LET a == InA(cat, par)
                 x == InX(cat, par)
             IN \A n \in CompSet(par.kind) : \A q \in 1..ProdSeq(par.shape) :
                  LET av == a.leaf[n].v[q]
                      xv == Elem(OperandLeaf(x, n), q)
                  IN res.c.leaf[n].v[q] = IF par.form = "direct" THEN BinOp(par.op, av, xv) ELSE BinOp(par.op, xv, av)

\* independence: changing another component of the operands does not change component n of the result
\* (+1 on the container, +100 on a same-kind operand except for ** where the powers would overflow)
Perturb(c, m, d) == [c EXCEPT !.leaf[m] = [@ EXCEPT !.v = [q \in 1..Len(@) |-> <<@[q][1] + d * @[q][2], @[q][2]>>]]]
PerturbX(x, m, op) == IF x.t = "same" /\ op # "pow" THEN [x EXCEPT !.c = Perturb(@, m, 100)] ELSE x
Independent ==
  (Done /\ ~res.err /\ cat \in {"binop", "unary", "index"}) =>
    \A m \in CompSet(par.kind) :
      LET a2 == Perturb(InA(cat, par), m, 1)
          r2 == CASE cat = "binop" -> Dispatch(cat, par.op, par.form, a2, PerturbX(InX(cat, par), m, par.op))
                  [] cat = "unary" -> Ok(IF par.uop = "pos" THEN a2 ELSE TreeMap1(LAMBDA l : LeafUn(par.uop, l), a2))
                  [] cat = "index" -> Ok(GetItem(a2, par.idx))
      IN (\A n \in CompSet(par.kind) \ {m} : r2.c.leaf[n] = res.c.leaf[n]) /\ ((res.c.leaf[m].v # <<>> /\ (cat = "binop" => par.op # "pow")) => r2.c.leaf[m] # res.c.leaf[m])

\* the value tables can tell the operand order and the conjugation side
Discriminating ==
  /\ (Done /\ cat = "binop" /\ ~res.err /\ ~Commutative(par.op)) =>
       LET a == InA(cat, par)
           x == InX(cat, par)
       IN \A n \in CompSet(par.kind) : \E q \in 1..ProdSeq(par.shape) :
            LET av == a.leaf[n].v[q]
                xv == Elem(OperandLeaf(x, n), q)
            IN BinOp(par.op, av, xv) # BinOp(par.op, xv, av)
  /\ (/\ Done /\ cat \in {"dot", "matmul"} /\ ~res.err
      /\ \/ (cat = "dot" /\ (par.xpat # "real" \/ par.ypat # "real"))
         \/ (cat = "matmul" /\ par.dt = "c64")) => res.c.v[1][2] # 0
ASSUME \A n, m \in {"i", "q", "u", "v"} : \A q \in 1..4 :
          (n # m) => (AVal(n, q) # AVal(m, q) /\ \A op \in Ops : BVal(op, n, q) # BVal(op, m, q))

\* dtype promotion is a join: commutative, idempotent, monotone w.r.t. canonicalisation
ASSUME \A a, b \in DTypes : Join(a, b) = Join(b, a) /\ Join(a, a) = a
ASSUME \A a, b \in DTypes : \A x \in BOOLEAN : Canon(Join(Canon(a, x), Canon(b, x)), x) = Canon(Join(a, b), x)

Emit == Done => PrintT(<<"CASE", ToJson([cat |-> cat, par |-> par, in |-> Input(cat, par), exp |-> res])>>)
=============================================================================
