------------------------------ MODULE MC_Nested ------------------------------
(***************************************************************************)
(* C01 / C07 / C10 at design level on nested expressions: products of      *)
(* block operators over list / tuple / dict / nested containers, sums of   *)
(* chains, block operators in the middle of a chain, lazy inverses of      *)
(* composites, blocks of blocks.  Slots are filled atom by atom; the       *)
(* assembled term is kept if it is well typed; reduce() is one step.       *)
(***************************************************************************)
EXTENDS FxSigma, Json

CONSTANTS Pool,        \* atom names that may fill a slot
          Templates    \* template numbers in use

VARIABLES phase, tpl, ck, slots, term, red
vars == <<phase, tpl, ck, slots, term, red>>

At(n) == AtomTable[n]
OpLeaf(i) == Leaf(<<i>>, "op")
Cont(kind, n) == [k |-> kind, sh |-> <<>>, dt |-> "", ch |-> [i \in 1..n |-> OpLeaf(i)],
                  keys |-> IF kind = "dict" THEN SubSeq(<<"a", "b", "c">>, 1, n) ELSE <<>>]
Blk(kind, cont, ops) == Term(kind, 0, cont, <<>>, ops)

NSlots(t) == CASE t \in {1, 2, 3, 4, 5, 9, 11, 12} -> 4 [] t \in {6, 8, 10} -> 3 [] t = 7 -> 2

Assemble(t, c, x) ==
  CASE t = 1 -> Comp(<<Blk("bdiag", Cont(c, 2), <<x[1], x[2]>>), Blk("bdiag", Cont(c, 2), <<x[3], x[4]>>)>>)
    [] t = 2 -> Comp(<<Blk("brow", Cont(c, 2), <<x[1], x[2]>>), Blk("bdiag", Cont(c, 2), <<x[3], x[4]>>)>>)
    [] t = 3 -> Comp(<<Blk("bdiag", Cont(c, 2), <<x[1], x[2]>>), Blk("bcol", Cont(c, 2), <<x[3], x[4]>>)>>)
    [] t = 4 -> Comp(<<Blk("brow", Cont(c, 2), <<x[1], x[2]>>), Blk("bcol", Cont(c, 2), <<x[3], x[4]>>)>>)
    [] t = 5 -> Comp(<<Blk("bdiag", Cont(c, 1), <<x[1]>>), Blk("bdiag", Cont(c, 1), <<x[2]>>),
                       Blk("bdiag", Cont(c, 1), <<x[3]>>), Blk("bdiag", Cont(c, 1), <<x[4]>>)>>)
    [] t = 6 -> AddT(<<Comp(<<x[1], x[2]>>), x[3]>>)
    [] t = 7 -> AddT(<<Comp(<<x[1], x[2]>>)>>)
    [] t = 8 -> Comp(<<InvOf(Reduce(Comp(<<x[1], x[2]>>))), x[3]>>)
    [] t = 9 -> \* differently nested containers with equal structures: [[x1, x2]] against [BlockDiagonal([x3, x4])]
         Comp(<<Blk("bdiag", ListS(<<ListS(<<OpLeaf(1), OpLeaf(2)>>)>>), <<x[1], x[2]>>),
                Blk("bdiag", Cont("list", 1), <<Blk("bdiag", Cont("list", 2), <<x[3], x[4]>>)>>)>>)
    [] t = 12 -> \* the mirror image: the LEFT container is the shallower one
         Comp(<<Blk("bdiag", Cont("list", 1), <<Blk("bdiag", Cont("list", 2), <<x[1], x[2]>>)>>),
                Blk("bdiag", ListS(<<ListS(<<OpLeaf(1), OpLeaf(2)>>)>>), <<x[3], x[4]>>)>>)
    [] t = 10 -> Blk("bdiag", Cont(c, 2), <<Blk("bdiag", Cont("list", 2), <<x[1], x[2]>>), x[3]>>)
    [] t = 11 -> \* block operators between two plain operators: row @ diag @ diag @ column
         Comp(<<Blk("brow", Cont(c, 1), <<x[1]>>), Blk("bdiag", Cont(c, 1), <<x[2]>>),
                Blk("bdiag", Cont(c, 1), <<x[3]>>), Blk("bcol", Cont(c, 1), <<x[4]>>)>>)

RECURSIVE WellTyped(_)
WellTyped(t) ==
  /\ \A i \in 1..Len(t.ch) : WellTyped(t.ch[i])
  /\ CASE t.k = "comp" -> \A i \in 1..(Len(t.ch) - 1) : InS(t.ch[i]) = OutS(t.ch[i + 1])
       [] t.k = "add" -> \A i \in 2..Len(t.ch) : StructsAgree(t.ch[1], t.ch[i])
       [] t.k = "brow" -> \A i \in 2..Len(t.ch) : OutS(t.ch[i]) = OutS(t.ch[1])
       [] t.k = "bcol" -> \A i \in 2..Len(t.ch) : InS(t.ch[i]) = InS(t.ch[1])
       [] t.k = "inv" -> InS(t.ch[1]) = OutS(t.ch[1]) /\ IsInvertible(Den(t.ch[1]))
       [] OTHER -> TRUE

Init == /\ phase = "pick" /\ tpl \in Templates /\ ck \in {"list", "tuple", "dict"}
        /\ slots = <<>> /\ term = ErrT /\ red = ErrT

Pick(n) == /\ phase = "pick" /\ Len(slots) < NSlots(tpl)
           /\ slots' = Append(slots, n) /\ UNCHANGED <<phase, tpl, ck, term, red>>

Build == /\ phase = "pick" /\ Len(slots) = NSlots(tpl)
         /\ (tpl \in {6, 7, 8, 9, 12} => ck = "list")            \* container kind irrelevant there
         /\ LET t == Assemble(tpl, ck, [i \in 1..Len(slots) |-> At(slots[i])]) IN
              /\ (tpl = 8 => InS(At(slots[1])) = OutS(At(slots[2])) /\ OutS(At(slots[1])) = InS(At(slots[2]))
                             \* the iterative solver is only claimed for SPD operators (C06)
                             /\ IsPosDef(Den(Comp(<<At(slots[1]), At(slots[2])>>))))
              /\ WellTyped(t)
              /\ term' = t /\ phase' = "built"
         /\ UNCHANGED <<tpl, ck, slots, red>>

DoReduce == /\ phase = "built" /\ red' = Reduce(term) /\ phase' = "done"
            /\ UNCHANGED <<tpl, ck, slots, term>>

Next == (\E n \in Pool : Pick(n)) \/ Build \/ DoReduce

-----------------------------------------------------------------------------
RECURSIVE NormalDeep(_)
NormalDeep(t) ==
  /\ (t.k = "comp" => NormalChain(t.ch))
  /\ (t.k \in {"comp", "add", "brow", "bdiag", "bcol"} => \A i \in 1..Len(t.ch) : NormalDeep(t.ch[i]))

NoRaise == phase = "done" => ~IsErr(red)
Sound == (phase = "done" /\ ~IsErr(red)) => Den(red) = Den(term)
TypesKept == (phase = "done" /\ ~IsErr(red)) => InS(red) = InS(term) /\ OutS(red) = OutS(term)
ReachesNF == (phase = "done" /\ ~IsErr(red)) => NormalDeep(red)

Emit == phase = "done" =>
          PrintT(<<"CASE", ToJson([names |-> <<"tpl", ToString(tpl), ck>> \o slots, term |-> term,
                                   den |-> Den(term), ins |-> InS(term), outs |-> OutS(term),
                                   result |-> red])>>)
=============================================================================
