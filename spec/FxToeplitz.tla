------------------------------ MODULE FxToeplitz ------------------------------
(***************************************************************************)
(* C09 - symmetric band Toeplitz operator (furax/operators/toeplitz.py).   *)
(*                                                                         *)
(* Part 1: reference semantics (what the property says):                   *)
(*     T[i,j] = band[|i-j|] if |i-j| < K else 0, applied row by row.       *)
(* Part 2: literal transcription of the implementation over exact integer  *)
(*     sequences: _get_kernel, dense_symmetric_band_toeplitz (flat-index   *)
(*     scatter), _apply_dense, _apply_direct (pad + valid convolution),    *)
(*     _apply_fft, the pieces of _apply_overlap_save (the loop itself is   *)
(*     stepped by MC_Toeplitz, one action per block), jnp.vectorize        *)
(*     batching, as_matrix, the constructor validation, the default FFT    *)
(*     size and the dtype flow of each kernel.                             *)
(*                                                                         *)
(* An FFT product ifft(fft(a) * fft(h)).real of two real sequences of      *)
(* length L is modelled by what it computes in exact arithmetic: the       *)
(* cyclic convolution of length L.  fft(h, L) zero-pads or truncates h to  *)
(* length L first (FitTo).                                                 *)
(* Sequences are 1-based here; Python offsets are 0-based and are kept     *)
(* 0-based in every index computation that is transcribed (start, stop,    *)
(* position, flat indices).                                                *)
(***************************************************************************)
EXTENDS Integers, Sequences, FiniteSets, TLC

Abs(a) == IF a < 0 THEN -a ELSE a
Max2(a, b) == IF a >= b THEN a ELSE b
Min2(a, b) == IF a <= b THEN a ELSE b

RECURSIVE SumN(_, _)
SumN(f, k) == IF k = 0 THEN 0 ELSE f[k] + SumN(f, k - 1)
RECURSIVE ProdN(_, _)
ProdN(f, k) == IF k = 0 THEN 1 ELSE f[k] * ProdN(f, k - 1)

Zeros(m) == TLCEval([i \in 1..m |-> 0])
Unit(m, k) == TLCEval([i \in 1..m |-> IF i = k THEN 1 ELSE 0])
ScaleSeq(c, s) == TLCEval([i \in 1..Len(s) |-> c * s[i]])
CeilDiv(a, b) == (a + b - 1) \div b            \* a >= 0, b >= 1
RECURSIVE Pow2(_)
Pow2(p) == IF p = 0 THEN 1 ELSE 2 * Pow2(p - 1)
RECURSIVE CeilLog2From(_, _)
CeilLog2From(m, p) == IF Pow2(p) >= m THEN p ELSE CeilLog2From(m, p + 1)
CeilLog2(m) == CeilLog2From(m, 0)              \* np.ceil(np.log2(m)), m >= 1

-----------------------------------------------------------------------------
(* Python / NumPy / lax primitives *)

\* a[start:stop] with the clamping of Python slices (negative = from the end)
PyIdx(i, L) == IF i < 0 THEN Max2(i + L, 0) ELSE Min2(i, L)
PySlice(s, start, stop) ==
  LET lo == PyIdx(start, Len(s))
      hi == PyIdx(stop, Len(s))
  IN TLCEval([i \in 1..Max2(hi - lo, 0) |-> s[lo + i]])

\* jnp.pad(x, (a, b), mode='constant')
Pad(x, a, b) == Zeros(a) \o x \o Zeros(b)

\* lax.dynamic_slice / dynamic_update_slice: the start index is clamped so that the slice fits
DynStart(start, size, len) == Max2(0, Min2(start, len - size))
DynSlice(s, start, size) ==
  LET st == DynStart(start, size, Len(s)) IN TLCEval([i \in 1..size |-> s[st + i]])
DynUpdate(s, upd, start) ==
  LET st == DynStart(start, Len(upd), Len(s))
  IN TLCEval([i \in 1..Len(s) |-> IF i > st /\ i <= st + Len(upd) THEN upd[i - st] ELSE s[i]])

\* fft(h, L): the input is zero-padded or truncated to length L
FitTo(s, L) == TLCEval([i \in 1..L |-> IF i <= Len(s) THEN s[i] ELSE 0])

\* ifft(fft(a) * fft(h)).real for real a, h of the same length L, in exact arithmetic
Cyc(a, h, L) ==
  TLCEval([i \in 1..L |-> SumN([j \in 1..L |-> a[j] * h[((i - j) % L) + 1]], L)])

\* np.convolve(a, v, mode='valid'): operands swapped when v is longer; full[t] = sum_i a[i] v[t-i]
ConvolveValid(a0, v0) ==
  LET a == IF Len(v0) > Len(a0) THEN v0 ELSE a0
      v == IF Len(v0) > Len(a0) THEN a0 ELSE v0
      N == Len(a)
      M == Len(v)
  IN TLCEval([t \in 1..(N - M + 1) |-> SumN([k \in 1..M |-> a[t + M - k] * v[k]], M)])

\* out.at[indices].set(value) on a flat array: negative indices count from the end, indices that
\* are still out of range are dropped (default scatter mode of jnp .at[].set)
NormIdx(i, L) == IF i < 0 THEN i + L ELSE i
ScatterSet(out, idxs, value) ==
  TLCEval([p \in 1..Len(out) |->
             IF \E k \in 1..Len(idxs) : NormIdx(idxs[k], Len(out)) = p - 1 THEN value ELSE out[p]])

-----------------------------------------------------------------------------
(* Part 1 - reference *)

RefEntry(band, i, j) == IF Abs(i - j) < Len(band) THEN band[Abs(i - j) + 1] ELSE 0
RefT(n, band) == TLCEval([i \in 1..n |-> [j \in 1..n |-> RefEntry(band, i, j)]])
RefApply(band, x) ==
  LET n == Len(x)
  IN TLCEval([i \in 1..n |-> SumN([j \in 1..n |-> RefEntry(band, i, j) * x[j]], n)])

\* reference constructor verdict: K is the LAST dimension of the band values
Methods == {"dense", "direct", "fft", "overlap_save"}
None == -1
RefCtor(method, fft, K) ==
  IF method \notin Methods THEN "Error"
  ELSE IF fft # None /\ method # "overlap_save" THEN "Error"
  ELSE IF fft # None /\ fft < 2 * K - 1 THEN "Error"
  ELSE "ok"

-----------------------------------------------------------------------------
(* Part 2 - transcription *)

\* _get_kernel: concatenate((band[-1:0:-1], band));  [4,3,2,1] -> [1,2,3,4,3,2,1]
Kernel(band) ==
  LET K == Len(band) IN TLCEval([i \in 1..(K - 1) |-> band[K + 1 - i]]) \o band
HalfWidth(kernel) == Len(kernel) \div 2

\* dense_symmetric_band_toeplitz(n, band): flat scatter, j = -band_width .. band_width
DenseIndices(n, j) ==
  LET m == n - j                                      \* sic: n - j also for negative j
      cnt == Max2(m, 0)                               \* jnp.arange(m) is empty for m <= 0
      off == IF j >= 0 THEN j ELSE (-n) * j
  IN TLCEval([k \in 1..cnt |-> off + (k - 1) * (n + 1)])
RECURSIVE DenseFrom(_, _, _, _)
DenseFrom(out, n, band, j) ==
  IF j > Len(band) - 1 THEN out
  ELSE DenseFrom(ScatterSet(out, DenseIndices(n, j), band[Abs(j) + 1]), n, band, j + 1)
DenseFlat(n, band) == DenseFrom(Zeros(n * n), n, band, -(Len(band) - 1))
Dense(n, band) ==
  LET flat == DenseFlat(n, band)
  IN TLCEval([i \in 1..n |-> [j \in 1..n |-> flat[(i - 1) * n + j]]])
\* scatter indices that fall outside the flat array (they are silently dropped)
DenseDropped(n, band) ==
  {<<j, k>> \in (-(Len(band) - 1)..(Len(band) - 1)) \X (1..(n + Len(band))) :
      k <= Len(DenseIndices(n, j)) /\ DenseIndices(n, j)[k] >= n * n}

MatVec(M, x) ==
  TLCEval([i \in 1..Len(M) |-> SumN([j \in 1..Len(x) |-> M[i][j] * x[j]], Len(x))])

ApplyDense(x, band) == MatVec(Dense(Len(x), band), x)

ApplyDirect(x, band) ==
  LET kernel == Kernel(band)
      half == HalfWidth(kernel)
  IN ConvolveValid(Pad(x, half, half), kernel)

ApplyFft(x, band) ==
  LET kernel == Kernel(band)
      half == HalfWidth(kernel)
      L == Len(x) + 2 * half
      H == FitTo(kernel, L)
      xp == Pad(x, 0, 2 * half)
      Y == Cyc(xp, H, L)
  IN IF half = 0 THEN Y ELSE PySlice(Y, half, -half)

\* _apply_overlap_save, the part before the loop
OSParams(l, K, F) ==
  LET half == (2 * K - 1) \div 2
      overlap == 2 * half
      step == F - overlap
      nblock == CeilDiv(l + overlap, step)            \* int(np.ceil((l + overlap) / step_size))
      total == (nblock - 1) * step + F
  IN [half |-> half, overlap |-> overlap, step |-> step, nblock |-> nblock, total |-> total,
      pad_start |-> overlap, pad_end |-> total - overlap - l, ylen |-> l + (total - overlap - l)]
OSPadded(x, P) == Pad(x, P.pad_start, P.pad_end)
OSKernelF(band, F) == FitTo(Kernel(band), F)
\* one iteration of func(iblock, y)
OSBlock(y, xpad, H, F, P, iblock) ==
  LET position == iblock * P.step
      x_block == DynSlice(xpad, position, F)
      y_block == Cyc(x_block, H, F)
  IN DynUpdate(y, DynSlice(y_block, 2 * P.half, P.step), position)
\* does any of the three lax index operations of that iteration clamp its start index ?
OSClamps(P, F, iblock) ==
  LET position == iblock * P.step
  IN \/ DynStart(position, F, P.total) # position
     \/ DynStart(2 * P.half, P.step, F) # 2 * P.half
     \/ DynStart(position, P.step, P.ylen) # position
\* y[half : half + l]
OSFinal(y, P, l) == PySlice(y, P.half, P.half + l)

\* the whole method as a function (used for cross-checking the stepped loop)
RECURSIVE OSLoop(_, _, _, _, _, _)
OSLoop(y, xpad, H, F, P, iblock) ==
  IF iblock >= P.nblock THEN y ELSE OSLoop(OSBlock(y, xpad, H, F, P, iblock), xpad, H, F, P, iblock + 1)
ApplyOverlapSave(x, band, F) ==
  LET P == OSParams(Len(x), Len(band), F)
  IN OSFinal(OSLoop(Zeros(P.ylen), OSPadded(x, P), OSKernelF(band, F), F, P, 0), P, Len(x))

\* what y must contain after the loop: the linear convolution of x_padded with the kernel
OSExpectY(xpad, kernel, p0) ==              \* p0 0-based position in y
  SumN([k \in 1..Len(kernel) |->
          LET q == p0 + Len(kernel) - k + 1   \* 1-based position in xpad
          IN IF q >= 1 /\ q <= Len(xpad) THEN kernel[k] * xpad[q] ELSE 0], Len(kernel))

\* constructor ------------------------------------------------------------
ImplMethods == <<"dense", "direct", "fft", "overlap_save">>        \* METHODS
IsOverlap(method) == method \in {"overlap_save", "overlap_add"}    \* method.startswith('overlap_')
DefaultFftSize(band_number) == Pow2(1 + CeilLog2(band_number))
\* K = band_values.shape[-1]: the number of bands comes from the LAST axis (batch axes do not count)
ImplCtor(method, fft, K) ==
  LET band_number == 2 * K - 1
  IN IF \A i \in 1..Len(ImplMethods) : ImplMethods[i] # method
       THEN [v |-> "Error", why |-> "method", F |-> None]
     ELSE IF fft # None /\ ~IsOverlap(method)
       THEN [v |-> "Error", why |-> "fft_size_unused", F |-> None]
     ELSE IF fft # None /\ fft < band_number
       THEN [v |-> "Error", why |-> "fft_size_small", F |-> None]
     ELSE [v |-> "ok", why |-> "",
           F |-> IF fft = None /\ IsOverlap(method) THEN DefaultFftSize(band_number) ELSE fft]

\* batching (jnp.vectorize, signature '(n),(k)->(n)') ---------------------
\* batch shapes are sequences of positive integers; rows are stored flat in C order
SizeOf(s) == ProdN(s, Len(s))
PadLeft(s, r) == TLCEval([i \in 1..r |-> IF i <= r - Len(s) THEN 1 ELSE s[i - (r - Len(s))]])
Compatible(s, t) ==
  LET r == Max2(Len(s), Len(t)) a == PadLeft(s, r) b == PadLeft(t, r)
  IN \A i \in 1..r : a[i] = b[i] \/ a[i] = 1 \/ b[i] = 1
Bcast(s, t) ==
  LET r == Max2(Len(s), Len(t)) a == PadLeft(s, r) b == PadLeft(t, r)
  IN TLCEval([i \in 1..r |-> Max2(a[i], b[i])])
\* multi-index (0-based) of flat position p (0-based) in shape s
Stride(s, i) == ProdN([k \in 1..(Len(s) - i) |-> s[i + k]], Len(s) - i)
Unravel(p, s) == TLCEval([i \in 1..Len(s) |-> (p \div Stride(s, i)) % s[i]])
\* flat position (0-based) in an array of batch shape s of the element that broadcasts to idx (rank r)
RavelB(idx, s) ==
  LET r == Len(idx)
  IN SumN([i \in 1..Len(s) |-> (IF s[i] = 1 THEN 0 ELSE idx[i + r - Len(s)]) * Stride(s, i)], Len(s))
OutBatch(xs, bs) == Bcast(xs, bs)
XRowOf(p, xs, bs) == RavelB(Unravel(p, OutBatch(xs, bs)), xs) + 1      \* 1-based row numbers
BRowOf(p, xs, bs) == RavelB(Unravel(p, OutBatch(xs, bs)), bs) + 1

ApplyRow(method, x, band, F) ==
  CASE method = "dense" -> ApplyDense(x, band)
    [] method = "direct" -> ApplyDirect(x, band)
    [] method = "fft" -> ApplyFft(x, band)
    [] method = "overlap_save" -> ApplyOverlapSave(x, band, F)

\* mv: rows of the output (flat, C order of the broadcast batch shape)
ApplyBatched(method, F, xs, bs, xrows, brows) ==
  TLCEval([q \in 1..SizeOf(OutBatch(xs, bs)) |->
             ApplyRow(method, xrows[XRowOf(q - 1, xs, bs)], brows[BRowOf(q - 1, xs, bs)], F)])
RefBatched(xs, bs, xrows, brows) ==
  TLCEval([q \in 1..SizeOf(xs) |-> RefApply(brows[RavelB(Unravel(q - 1, xs), bs) + 1], xrows[q])])

\* as_matrix ----------------------------------------------------------------
BlockDiagSq(ms, n) ==
  LET N == Len(ms) * n
  IN TLCEval([i \in 1..N |-> [j \in 1..N |->
       IF (i - 1) \div n = (j - 1) \div n THEN ms[((i - 1) \div n) + 1][((i - 1) % n) + 1][((j - 1) % n) + 1]
       ELSE 0]])
\* blocks = vectorize(dense)(zeros(in shape), band); ndim > 2 -> reshape(-1, n, n), block_diag
AsMatrixImpl(n, xs, bs, brows) ==
  LET ob == OutBatch(xs, bs)
      blocks == [q \in 1..SizeOf(ob) |-> Dense(n, brows[BRowOf(q - 1, xs, bs)])]
  IN IF Len(ob) = 0 THEN blocks[1] ELSE BlockDiagSq(blocks, n)
RefMatrix(n, xs, bs, brows) ==
  BlockDiagSq([q \in 1..SizeOf(xs) |-> RefT(n, brows[RavelB(Unravel(q - 1, xs), bs) + 1])], n)
Transpose(M) == TLCEval([i \in 1..Len(M) |-> [j \in 1..Len(M) |-> M[j][i]]])

\* dtype flow -----------------------------------------------------------------
\* modes: <<dtype of x and of the band values, 64-bit mode>>; "f64" only exists in 64-bit mode
DtModes == {<<"f32", FALSE>>, <<"f32", TRUE>>, <<"f64", TRUE>>}
Promote(a, b) == IF a = b THEN a ELSE "f64"
DefaultFloat(x64) == IF x64 THEN "f64" ELSE "f32"
ImplOutDtype(method, xd, bd, x64) ==
  CASE method = "dense" -> Promote(bd, xd)           \* zeros(n**2, dtype=band.dtype) @ x
    [] method = "direct" -> Promote(xd, bd)          \* convolve(pad(x), kernel)
    [] method = "fft" -> Promote(xd, bd)             \* ifft(fft(x) * fft(kernel)).real
    [] method = "overlap_save" ->
         LET ybuf == xd                              \* y = jnp.zeros(l + x_padding_end, dtype=x.dtype)
             yblock == Promote(xd, bd)
         IN IF ybuf # yblock THEN "TypeError"        \* lax.dynamic_update_slice requires equal dtypes
            ELSE ybuf
    [] OTHER -> "none"
RefOutDtype(xd) == xd
=============================================================================
