------------------------------ MODULE MC_Pointing ------------------------------
(***************************************************************************)
(* C16: detector layouts x pointing sequences.  The layout is chosen, then *)
(* the samples one by one; the rotated directions are then computed one    *)
(* sample per step (the loop hidden in the einsum 'ijk,jlm->ilmk').        *)
(***************************************************************************)
EXTENDS FxPointing, Json

CONSTANTS Layouts,    \* layout numbers in use
          Pointings,  \* indices into PointingTable
          MaxSamp

\* detector layouts: sequence (detectors) of sequences (directions) of indices into DirTable
LayoutTable == << << <<1>> >>, << <<2>> >>, << <<2>>, <<3>> >>, << <<2, 4>> >>, << <<3, 5>>, <<6, 1>> >>, << <<4>>, <<4>> >> >>
\* pointings: <<phi, theta, pa>> as indices into AngleTable
PointingTable == << <<1, 1, 1>>, <<2, 5, 1>>, <<5, 2, 6>>, <<3, 8, 2>>, <<7, 5, 5>>, <<6, 10, 9>>, <<4, 7, 8>>,
                    <<5, 5, 5>>, <<9, 6, 3>>, <<10, 8, 7>>, <<8, 3, 4>>, <<2, 9, 10>>,
                    <<1, 11, 1>>, <<2, 11, 3>>, <<5, 11, 1>>, <<4, 12, 2>>, <<3, 13, 1>> >>

VARIABLES phase, layout, samples, k, rotated
vars == <<phase, layout, samples, k, rotated>>

Phi(p) == AngleTable[PointingTable[p][1]]
Theta(p) == AngleTable[PointingTable[p][2]]
Pa(p) == AngleTable[PointingTable[p][3]]

Init == phase = "layout" /\ layout = 0 /\ samples = <<>> /\ k = 0 /\ rotated = <<>>
PickLayout(l) == /\ phase = "layout" /\ layout' = l /\ phase' = "samples" /\ UNCHANGED <<samples, k, rotated>>
PickSample(p) == /\ phase = "samples" /\ Len(samples) < MaxSamp /\ samples' = Append(samples, p)
                 /\ UNCHANGED <<phase, layout, k, rotated>>
StartRotate == /\ phase = "samples" /\ Len(samples) >= 1 /\ phase' = "rotate" /\ UNCHANGED <<layout, samples, k, rotated>>
\* one sample: every detector direction rotated by the sample's Euler rotation
RotateStep ==
  /\ phase = "rotate" /\ k < Len(samples)
  /\ LET p == samples[k + 1]
         dets == LayoutTable[layout]
     IN rotated' = Append(rotated,
                     [d \in 1..Len(dets) |-> [m \in 1..Len(dets[d]) |->
                        Rotated(Phi(p), Theta(p), Pa(p), DirTable[dets[d][m]])]])
  /\ k' = k + 1 /\ UNCHANGED <<phase, layout, samples>>
Finish == /\ phase = "rotate" /\ k = Len(samples) /\ phase' = "done" /\ UNCHANGED <<layout, samples, k, rotated>>

Next == (\E l \in Layouts : PickLayout(l)) \/ (\E p \in Pointings : PickSample(p)) \/ StartRotate \/ RotateStep \/ Finish

-----------------------------------------------------------------------------
\* the transcribed rotation matrix is the Z-Y-Z product, orthogonal with determinant one
RotationOK == \A p \in Pointings :
                LET r == Rot(Phi(p), Theta(p), Pa(p)) IN
                /\ r = RefRot(Phi(p), Theta(p), Pa(p))
                /\ IsOrthogonal(r)
                /\ Det3(r) = r.d * r.d * r.d
ASSUME RotationOK
\* rotated directions stay unit vectors; the loop produces one block per sample, one vector per (det, dir)
LoopInv == /\ Len(rotated) = k
           /\ \A t \in 1..Len(rotated) : \A d \in 1..Len(rotated[t]) : \A m \in 1..Len(rotated[t][d]) :
                 IsUnitVec(rotated[t][d][m])
Counts == phase = "done" =>
            SumSeq([t \in 1..Len(rotated) |-> SumSeq([d \in 1..Len(rotated[t]) |-> Len(rotated[t][d])])])
              = Len(samples) * SumSeq([d \in 1..Len(LayoutTable[layout]) |-> Len(LayoutTable[layout][d])])

Vec(m) == <<m.e[1][1], m.e[2][1], m.e[3][1], m.d>>
Emit == phase = "done" =>
  PrintT(<<"CASE", ToJson([
     layout |-> layout, samples |-> samples,
     dirs |-> [d \in 1..Len(LayoutTable[layout]) |-> [m \in 1..Len(LayoutTable[layout][d]) |-> DirTable[LayoutTable[layout][d][m]]]],
     angles |-> [t \in 1..Len(samples) |-> <<Phi(samples[t]), Theta(samples[t]), Pa(samples[t])>>],
     double_pa |-> [t \in 1..Len(samples) |-> Double(Pa(samples[t]))],
     rotated |-> [t \in 1..Len(rotated) |-> [d \in 1..Len(rotated[t]) |-> [m \in 1..Len(rotated[t][d]) |-> Vec(rotated[t][d][m])]]] ])>>)
=============================================================================
