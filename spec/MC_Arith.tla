------------------------------ MODULE MC_Arith ------------------------------
(***************************************************************************)
(* C02: operator arithmetic is matrix arithmetic, whatever the grouping.   *)
(* A session of at most two dunder calls on operands of every kind (plain, *)
(* composition, sum, identity, scalar operator, lazy inverse next to its   *)
(* own operand, structurally incompatible operands, scalars of several     *)
(* kinds).  `res` is the term the dunders build (FxAlgebra); `ghost` is    *)
(* plain matrix arithmetic on the operands' matrices ("Err" = must be      *)
(* refused).  The property relates the two in every reachable state.       *)
(***************************************************************************)
EXTENDS FxSigma, Json

CONSTANTS Operands,    \* operand names for the first call
          Thirds,      \* operand names for the second call
          Ops1, Ops2   \* operation names for the first / second call

VARIABLES step, expr, res, ghost
vars == <<step, expr, res, ghost>>

OperandTable ==
  [ A |-> A, B |-> B, C |-> C, G |-> G, P |-> P, Tz |-> Tz, D |-> D,
    AcB |-> Comp(<<A, B>>), GcA |-> Comp(<<G, A>>), ApB |-> AddT(<<A, B>>),
    I2v |-> Id(v2), I3v |-> Id(v3), H2 |-> Hom(2, 1, v2), H3 |-> Hom(3, 1, v3), Hh |-> Hom(-1, 2, v2),
    AI |-> InvOf(A), DI |-> DInvOf(D), R1 |-> R1, R1T |-> RotTOf(R1), Hq |-> Hom(-3, 1, QU2), Iqu |-> Id(QU2),
    \* an operator next to its own lazy (generic) transpose: A @ A.T is NOT the identity unless A is orthogonal
    Pr |-> Pr, PrT |-> TOf(Pr), Bd |-> Bd, BdT |-> TOf(Bd),
    \* a composition that still carries two unmerged scalar factors (what 2 * (A / 4) builds)
    HHA |-> Comp(<<Hom(2, 1, v2), Hom(1, 4, v2), A>>) ]
Opd(n) == OperandTable[n]

\* scalars: <<num, den, kind>>; kind "vec" is a 1-d array, which must be refused
Scalars == { <<2, 1, "int">>, <<-3, 2, "float">>, <<5, 1, "np">>, <<-1, 4, "jax0d">>, <<2, 1, "vec">> }

ErrM == [r |-> -1, c |-> -1, d |-> 1, e |-> <<>>]
IsErrM(m) == m.r = -1

\* what the dunders build / what matrix arithmetic says
Apply2(op, a, b) ==
  CASE op = "matmul" -> MatMulT(a, b) [] op = "add" -> AddOp(a, b) [] op = "sub" -> SubOp(a, b)
Ghost2(op, a, b, ma, mb) ==
  IF IsErrM(ma) \/ IsErrM(mb) THEN ErrM
  ELSE CASE op = "matmul" -> IF InS(a) # OutS(b) THEN ErrM ELSE MatMul(ma, mb)
         [] op = "add" -> IF ~StructsAgree(a, b) THEN ErrM ELSE MatAdd(ma, mb)
         [] op = "sub" -> IF ~StructsAgree(a, b) THEN ErrM ELSE MatAdd(ma, MatNeg(mb))
Apply1(op, a, k) ==
  CASE op = "neg" -> NegOp(a) [] op = "pos" -> a
    [] op \in {"lmul", "rmul"} -> IF k[3] = "vec" THEN ErrT ELSE ScaleOp(k[1], k[2], a)
    [] op = "div" -> IF k[3] = "vec" THEN ErrT ELSE DivOp(a, k[1], k[2])
Ghost1(op, ma, k) ==
  IF IsErrM(ma) THEN ErrM
  ELSE CASE op = "neg" -> MatNeg(ma) [] op = "pos" -> ma
         [] op \in {"lmul", "rmul"} -> IF k[3] = "vec" THEN ErrM ELSE MatScale(k[1], k[2], ma)
         [] op = "div" -> IF k[3] = "vec" THEN ErrM ELSE MatScale(k[2], k[1], ma)

Init == step = 0 /\ expr = <<>> /\ res = ErrT /\ ghost = ErrM

Bin1(op, x, y) == /\ step = 0 /\ op \in {"matmul", "add", "sub"}
                  /\ res' = Apply2(op, Opd(x), Opd(y))
                  /\ ghost' = Ghost2(op, Opd(x), Opd(y), Den(Opd(x)), Den(Opd(y)))
                  /\ expr' = <<op, x, y>> /\ step' = 1
Un1(op, x, k) == /\ step = 0 /\ op \in {"neg", "pos", "lmul", "rmul", "div"}
                 /\ (op \in {"neg", "pos"} => k = <<2, 1, "int">>)
                 /\ res' = Apply1(op, Opd(x), k) /\ ghost' = Ghost1(op, Den(Opd(x)), k)
                 /\ expr' = <<op, x, ToString(k[1]), ToString(k[2]), k[3]>> /\ step' = 1
\* second call: the first result on the left or on the right of a third operand
Bin2(op, z, side) ==
  /\ step = 1 /\ ~IsErr(res) /\ op \in {"matmul", "add", "sub"}
  /\ LET a == IF side = "L" THEN res ELSE Opd(z)
         b == IF side = "L" THEN Opd(z) ELSE res
         ma == IF side = "L" THEN ghost ELSE Den(Opd(z))
         mb == IF side = "L" THEN Den(Opd(z)) ELSE ghost
     IN /\ res' = Apply2(op, a, b) /\ ghost' = Ghost2(op, a, b, ma, mb)
  /\ expr' = expr \o <<op, z, side>> /\ step' = 2
Un2(op, k) == /\ step = 1 /\ ~IsErr(res) /\ op \in {"neg", "lmul", "div"}
              /\ (op = "neg" => k = <<2, 1, "int">>)
              /\ res' = Apply1(op, res, k) /\ ghost' = Ghost1(op, ghost, k)
              /\ expr' = expr \o <<op, ToString(k[1]), ToString(k[2]), k[3]>> /\ step' = 2

Next == \/ \E op \in Ops1, x \in Operands, y \in Operands : Bin1(op, x, y)
        \/ \E op \in Ops1, x \in Operands, k \in Scalars : Un1(op, x, k)
        \/ \E op \in Ops2, z \in Thirds, side \in {"L", "R"} : Bin2(op, z, side)
        \/ \E op \in Ops2, k \in {<<-3, 2, "float">>, <<2, 1, "int">>} : Un2(op, k)

-----------------------------------------------------------------------------
\* the dunders build an operator exactly when matrix arithmetic is defined, and it denotes the result
Meaning == step > 0 => /\ IsErr(res) <=> IsErrM(ghost)
                       /\ ~IsErr(res) => Den(res) = ghost
\* shortcuts (identity absorption, scalar merging, own-inverse collapse) never change the structures
Structures == (step > 0 /\ ~IsErr(res)) => ghost.r = SizeS(OutS(res)) /\ ghost.c = SizeS(InS(res))
\* grouping does not matter (checked on all triples of operands for @ and +)
Assoc ==
  \A x, y, z \in Thirds :
     LET a == Opd(x) b == Opd(y) c == Opd(z)
         l == MatMulT(MatMulT(a, b), c)  r == MatMulT(a, MatMulT(b, c))
         la == AddOp(AddOp(a, b), c)  ra == AddOp(a, AddOp(b, c))
     IN /\ (IsErr(l) <=> IsErr(r)) /\ (~IsErr(l) => Den(l) = Den(r))
        /\ (IsErr(la) <=> IsErr(ra)) /\ (~IsErr(la) => Den(la) = Den(ra))
ASSUME Assoc

Emit == step > 0 => PrintT(<<"CASE", ToJson([expr |-> expr, err |-> IsErrM(ghost),
                                              den |-> IF IsErrM(ghost) THEN ZeroMat(0, 0) ELSE ghost,
                                              operands |-> [n \in Operands \cup Thirds |-> Opd(n)],
                                              res |-> res])>>)
=============================================================================
