------------------------------- MODULE MC_Polar -------------------------------
(***************************************************************************)
(* C15: polarimetry operators realise their Mueller matrices.              *)
(* For each Stokes kind: every chain (length <= MaxLen) over QU rotations  *)
(* with four different angle arrays, their transposes, the half-wave plate *)
(* and the linear polariser (leftmost only: its output is a plain array).  *)
(* The scan of the reduction is stepped as in MC_Reduce; in addition the   *)
(* algebraic identities of the statement are checked at the matrix level   *)
(* for every pair of angle arrays, and the factory products are emitted.   *)
(* Angles are integer linear forms (q, n) over two generators; the harness *)
(* also instantiates them with arbitrary real arrays.                      *)
(***************************************************************************)
EXTENDS FxAlgebra, Json

CONSTANTS Kinds, MaxLen

VARIABLES phase, kind, chain, st, den0
vars == <<phase, kind, chain, st, den0>>

SK(k) == StokesS(k, <<2>>, "f32")
Angles == << <<1, 0>>, <<0, 1>>, <<3, 0, 0, -1>>, <<1, 1>> >>
R(k, i) == Term("rot", i, SK(k), Angles[i], <<>>)
RT(k, i) == RotTOf(R(k, i))
H(k) == Term("hwp", 10, SK(k), <<>>, <<>>)
Po(k) == Term("pol", 11, SK(k), <<>>, <<>>)

Codes == {"R1", "R2", "R3", "R4", "R1T", "R2T", "R3T", "R4T", "H", "P"}
At(k, c) == CASE c = "R1" -> R(k, 1) [] c = "R2" -> R(k, 2) [] c = "R3" -> R(k, 3) [] c = "R4" -> R(k, 4)
              [] c = "R1T" -> RT(k, 1) [] c = "R2T" -> RT(k, 2) [] c = "R3T" -> RT(k, 3) [] c = "R4T" -> RT(k, 4)
              [] c = "H" -> H(k) [] c = "P" -> Po(k)
Terms(k, c) == [i \in 1..Len(c) |-> At(k, c[i])]

Init == /\ phase = "build" /\ kind \in Kinds /\ chain = <<>> /\ st = ScanInit(<<>>) /\ den0 = IdentityMat(0)

Extend(c) == /\ phase = "build" /\ Len(chain) < MaxLen
             /\ (c = "P" => chain = <<>>)
             /\ chain' = Append(chain, c) /\ UNCHANGED <<phase, kind, st, den0>>

Start == /\ phase = "build" /\ Len(chain) >= 1 /\ phase' = "scan"
         /\ st' = ScanInit([i \in 1..Len(chain) |-> Reduce(At(kind, chain[i]))])
         /\ den0' = Den(Comp(Terms(kind, chain)))
         /\ UNCHANGED <<kind, chain>>

Step == /\ phase = "scan" /\ ~st.done /\ st' = ScanStep(st) /\ UNCHANGED <<phase, kind, chain, den0>>
Finish == /\ phase = "scan" /\ st.done /\ phase' = "done" /\ UNCHANGED <<kind, chain, st, den0>>

Next == (\E c \in Codes : Extend(c)) \/ Start \/ Step \/ Finish

-----------------------------------------------------------------------------
InSp == SK(kind)
CurDen == IF st.ops = <<>> THEN IdentityMat(SizeS(InSp)) ELSE Den(Comp(st.ops))
Sound == phase # "build" => CurDen = den0
ReachesNF == phase = "done" => NormalChain(st.ops)
\* after reduction at most one rotation survives (HWP @ HWP is not a documented pattern and stays)
Shape == phase = "done" => Len(SelectSeq(st.ops, LAMBDA o : o.k \in {"rot", "rotT"})) <= 1

\* the identities of the statement, on matrices, for every pair of angle arrays
Neg(p) == AngleLin(-1, p, 0, p)
Plus(p, q) == AngleLin(1, p, 1, q)
RotOf(k, p) == Term("rot", 0, SK(k), p, <<>>)
Identities ==
  \A k \in Kinds : \A i, j \in 1..Len(Angles) :
    LET a == Angles[i]  b == Angles[j] IN
    /\ MatMul(Den(RotOf(k, a)), Den(RotOf(k, b))) = Den(RotOf(k, Plus(a, b)))
    /\ MatT(Den(RotOf(k, a))) = Den(RotOf(k, Neg(a)))
    /\ MatMul(Den(RotOf(k, a)), Den(H(k))) = MatMul(Den(H(k)), Den(RotOf(k, Neg(a))))
    /\ MatMul(Den(Po(k)), Den(H(k))) = Den(Po(k))
    /\ IsOrthogonal(Den(RotOf(k, a)))
    /\ MatMul(Den(H(k)), Den(H(k))) = IdentityMat(SizeS(SK(k)))

Result == IF Len(st.ops) = 1 THEN st.ops[1] ELSE Comp(st.ops)
Emit == phase = "done" =>
          PrintT(<<"CASE", ToJson([names |-> <<kind>> \o chain, term |-> Comp(Terms(kind, chain)),
                                   den |-> den0, ins |-> InSp, result |-> Result])>>)
=============================================================================
