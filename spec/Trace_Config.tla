----------------------------- MODULE Trace_Config -----------------------------
(***************************************************************************)
(* Trace validation for C19.  Reads a batch of histories recorded from the *)
(* real furax.Config / InverseOperator (harness/c19.py) and checks that    *)
(* each is a behaviour of FxConfig whose observed configurations equal the *)
(* specification's at every step.  Verdicts are total: a mismatching event *)
(* is recorded in `bad` and the rest of the trace is still checked.        *)
(***************************************************************************)
EXTENDS FxConfig, Json, IOUtils, TLCExt

Traces == JsonDeserialize(IOEnv.TRACE_FILE)

VARIABLES tid, l, bad
tvars == <<vars, tid, l, bad>>

Events == Traces[tid].events
NCtx == Cardinality(Ctx)

\* observed configuration of context c after the event (solver = -1: not observable)
ObsVal(e, c) == e.vals[c + 1]
ValMismatch(e) == {c \in Ctx : ObsVal(e, c).solver # -1 /\ ObsVal(e, c) # val'[c]}
NotObserved(e) == {c \in Ctx : ObsVal(e, c).solver = -1 /\ status'[c] = "run"}

Flag(clause) == {[l |-> l, clause |-> clause]}

Step(e) ==
  LET c == e.c IN
  \/ /\ e.a = "New" /\ New(c, e.n)
  \/ /\ e.a = "Enter" /\ Enter(c)
  \/ /\ e.a = "Prebuild" /\ Prebuild(c, e.n)
  \/ /\ e.a = "EnterPre" /\ EnterPre(c)
  \/ /\ e.a = "Exit" /\ Exit(c, e.s)
  \/ /\ e.a = "CreateInv" /\ CreateInv(c)
  \/ /\ e.a = "ApplyInv" /\ ApplyInv(c, e.n)
  \/ /\ e.a = "Read" /\ Read(c)
  \/ /\ e.a = "Spawn" /\ Spawn(c, e.n, e.s)
  \/ /\ e.a = "Finish" /\ Finish(c)

\* what the event-specific observation must be, given the spec state after the step
EventClauses(e) ==
  (IF ValMismatch(e) # {} THEN Flag("val") ELSE {})
  \cup (IF NotObserved(e) # {} THEN Flag("unobserved") ELSE {})
  \cup (IF e.a = "CreateInv" /\ e.cap # invs'[Len(invs')].cap THEN Flag("captured") ELSE {})
  \cup (IF e.a = "ApplyInv" /\ e.cap # invs[e.n].cap THEN Flag("captured_at_apply") ELSE {})
  \cup (IF e.a = "ApplyInv" /\ e.fired # invs[e.n].cap.cb THEN Flag("callback_used") ELSE {})
  \cup (IF e.a = "ApplyInv" /\ e.fired # 0 /\ e.solver # invs[e.n].cap.solver
           THEN Flag("solver_used") ELSE {})
  \* reduce() of an expression containing the inverse, called under whatever is active now, keeps the capture
  \cup (IF e.a = "ApplyInv" /\ e.cap_red # invs[e.n].cap THEN Flag("captured_after_reduce") ELSE {})
  \cup (IF e.a = "ApplyInv" /\ e.fired_red # invs[e.n].cap.cb THEN Flag("callback_used_after_reduce") ELSE {})
  \* a view of the inverse (its transpose) taken now still holds the capture
  \cup (IF e.a = "ApplyInv" /\ e.cap_T # invs[e.n].cap THEN Flag("captured_in_transposed_view") ELSE {})
  \* a solve that cannot converge raises exactly when the CAPTURED configuration says solver_throw
  \cup (IF e.a = "ApplyInv" /\ e.raised # invs[e.n].cap.throw THEN Flag("throw_used") ELSE {})

TraceInit == /\ Init /\ tid \in 1..Len(Traces) /\ l = 1 /\ bad = {}

TraceNext ==
  /\ l <= Len(Events)
  /\ l' = l + 1 /\ tid' = tid
  /\ LET e == Events[l] IN
       IF ENABLED Step(e)
       THEN Step(e) /\ bad' = bad \cup EventClauses(e)
       ELSE UNCHANGED vars /\ bad' = bad \cup Flag("not_enabled")

TraceSpec == TraceInit /\ [][TraceNext]_tvars

\* the C19 state predicates, evaluated on every state of every validated trace
TraceInv == ActiveIsInnermost /\ EndsWithBase /\ CapturedAtCreation /\ TypeOK

Done == l > Len(Events)
Verdict == Done => PrintT(<<"VERDICT", ToJson([tid |-> tid, id |-> Traces[tid].id, n |-> Len(Events),
                                                 bad |-> bad])>>)
=============================================================================
