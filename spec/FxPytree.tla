------------------------------- MODULE FxPytree -------------------------------
(***************************************************************************)
(* C18: every operator and landscape is a JAX pytree; results do not       *)
(* depend on JIT compilation or on a flatten/unflatten round trip.         *)
(* Per class: the fields that are dynamic pytree leaves / sub-trees and    *)
(* the ones declared static, the type of each field's value, and the       *)
(* *control dependencies* of mv (the values that decide output shapes or   *)
(* Python branches).  A mode traces some fields (replaces them by abstract *)
(* values): mv can only run if no control dependency is traced.            *)
(* Landscapes: the keys tree_flatten puts in aux_data against the          *)
(* parameters the constructor accepts (tree_unflatten is the constructor called with the aux keywords).      *)
(***************************************************************************)
EXTENDS Integers, Sequences, FiniteSets, TLC

Modes == {"eager", "jit_closure", "filter_jit", "roundtrip"}

\* field -> type of its value: "array" (float/int array), "boolarray", "int" (python ints: pytree leaves
\* that are not arrays), "static" (equinox.field(static=True)), "subtree" (operators)
F(n, t) == [name |-> n, type |-> t]
ClassTable ==
  [ IdentityOperator |-> {F("_in_structure", "static")},
    HomothetyOperator |-> {F("value", "array"), F("_in_structure", "static")},
    DenseBlockDiagonalOperator |-> {F("blocks", "array"), F("_in_structure", "static"), F("subscripts", "static")},
    SymmetricBandToeplitzOperator |-> {F("band_values", "array"), F("_in_structure", "static"), F("method", "static"),
                                       F("fft_size", "int")},
    BroadcastDiagonalOperator |-> {F("_diagonal", "array"), F("axis_destination", "static"), F("_in_structure", "static")},
    DiagonalOperator |-> {F("_diagonal", "array"), F("axis_destination", "static"), F("_in_structure", "static")},
    DiagonalInverseOperator |-> {F("operator", "subtree"), F("_diagonal", "array"), F("axis_destination", "static"),
                                 F("_in_structure", "static")},
    IndexOperator |-> {F("indices", "array"), F("_in_structure", "static"), F("_out_structure", "static"),
                       F("unique_indices", "static")},
    IndexOperatorMask |-> {F("indices", "boolarray"), F("_in_structure", "static"), F("_out_structure", "static"),
                           F("unique_indices", "static")},
    PackOperator |-> {F("mask", "boolarray"), F("_in_structure", "static")},
    MoveAxisOperator |-> {F("source", "int"), F("destination", "int"), F("_in_structure", "static")},
    ReshapeOperator |-> {F("_in_structure", "static"), F("shape", "static")},
    RavelOperator |-> {F("_in_structure", "static"), F("first_axis", "static"), F("last_axis", "static")},
    QURotationOperator |-> {F("angles", "array"), F("_in_structure", "static")},
    HWPOperator |-> {F("_in_structure", "static")},
    LinearPolarizerOperator |-> {F("_in_structure", "static")},
    TransposeOperator |-> {F("operator", "subtree")},
    ReshapeTransposeOperator |-> {F("operator", "subtree")},
    QURotationTransposeOperator |-> {F("operator", "subtree")},
    InverseOperator |-> {F("operator", "subtree"), F("config", "static")},
    CompositionOperator |-> {F("operands", "subtree")},
    AdditionOperator |-> {F("operands", "subtree")},
    BlockRowOperator |-> {F("blocks", "subtree")},
    BlockDiagonalOperator |-> {F("blocks", "subtree")},
    BlockColumnOperator |-> {F("blocks", "subtree")} ]

\* the fields whose *values* decide shapes or Python-level branches inside mv
ControlDeps ==
  [ IdentityOperator |-> {}, HomothetyOperator |-> {},
    DenseBlockDiagonalOperator |-> {"subscripts"},
    SymmetricBandToeplitzOperator |-> {"method", "fft_size"},
    BroadcastDiagonalOperator |-> {"axis_destination"}, DiagonalOperator |-> {"axis_destination"},
    DiagonalInverseOperator |-> {"axis_destination"},
    IndexOperator |-> {}, IndexOperatorMask |-> {"indices"}, PackOperator |-> {"mask"},
    MoveAxisOperator |-> {"source", "destination"},
    ReshapeOperator |-> {"shape"}, RavelOperator |-> {"first_axis", "last_axis"},
    QURotationOperator |-> {}, HWPOperator |-> {}, LinearPolarizerOperator |-> {},
    TransposeOperator |-> {}, ReshapeTransposeOperator |-> {}, QURotationTransposeOperator |-> {},
    InverseOperator |-> {"config"}, CompositionOperator |-> {}, AdditionOperator |-> {},
    BlockRowOperator |-> {}, BlockDiagonalOperator |-> {}, BlockColumnOperator |-> {} ]

Classes == DOMAIN ClassTable
TypeOf(c, f) == (CHOOSE x \in ClassTable[c] : x.name = f).type

\* which field values are replaced by tracers in a mode (the operator is closed over / passed as an argument)
Traced(type, mode) ==
  CASE mode = "eager" -> FALSE
    [] mode = "jit_closure" -> FALSE                        \* closed-over values stay concrete
    [] mode = "filter_jit" -> type \in {"array", "boolarray"}   \* arrays traced, everything else static
    [] mode = "roundtrip" -> FALSE
CanRun(c, mode) == \A f \in ControlDeps[c] : ~Traced(TypeOf(c, f), mode)
\* the classes that select elements through a boolean-mask array (excluded from the filtering jit by C18)
MaskSelecting(c) == c \in {"IndexOperatorMask", "PackOperator"}

\* round trip: every field is either a leaf / sub-tree (restored from the leaves) or static (in the treedef)
RoundTripPreserves(c) == \A x \in ClassTable[c] : x.type \in {"array", "boolarray", "int", "static", "subtree"}

-----------------------------------------------------------------------------
(* landscapes *)
LandscapeTable ==
  [ HealpixLandscape |-> [aux |-> {"nside", "stokes", "dtype"}, ctor |-> {"nside", "stokes", "dtype"},
                          attrs |-> {"shape", "dtype", "stokes", "nside", "pixel_shape"}],
    FrequencyLandscape |-> [aux |-> {"nside", "frequencies", "stokes", "dtype"},
                            ctor |-> {"nside", "frequencies", "stokes", "dtype"},
                            attrs |-> {"shape", "dtype", "stokes", "nside", "pixel_shape", "frequencies"}] ]
Landscapes == DOMAIN LandscapeTable
\* tree_unflatten = the constructor called with the aux_data keywords: defined iff every aux key is a constructor parameter
UnflattenDefined(l) == LandscapeTable[l].aux \subseteq LandscapeTable[l].ctor
=============================================================================
