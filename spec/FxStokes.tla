------------------------------- MODULE FxStokes -------------------------------
(***************************************************************************)
(* C20 - Stokes containers (furax/landscapes.py: StokesPyTree and its four *)
(* subclasses) and the pytree helpers of furax/tree.py.                    *)
(*                                                                         *)
(* Exact domain.  A number is a rational <<num, den>> (den > 0, reduced)   *)
(* or, for the scalar products, a Gaussian integer <<re, im>>.  An array   *)
(* is a record [sh, dt, v, st, w]: shape, dtype name, row-major values,    *)
(* st = it is a jax.ShapeDtypeStruct (no values), w = weakly typed (a      *)
(* Python scalar).  A Stokes container is [kind, leaf] with leaf a         *)
(* function component name -> array; a generic pytree is [def, leaves].    *)
(*                                                                         *)
(* Part 1 is the reference semantics (what "component-wise" means),        *)
(* part 2 the literal transcription of the implementation (jax.tree.map    *)
(* over the dataclass fields, the case analysis of _operation /            *)
(* _roperation, Python's binary-operator protocol, the factories).         *)
(* MC_Stokes checks that they agree on the whole cross product.            *)
(***************************************************************************)
EXTENDS FxMatrix

-----------------------------------------------------------------------------
(* exact numbers *)
Rat(n, d) == LET g == Gcd(Abs(n), Abs(d))
                 s == IF d < 0 THEN -1 ELSE 1
             IN <<(s * n) \div g, (s * d) \div g>>
RInt(n) == <<n, 1>>
RAdd(a, b) == Rat(a[1] * b[2] + b[1] * a[2], a[2] * b[2])
RSub(a, b) == Rat(a[1] * b[2] - b[1] * a[2], a[2] * b[2])
RMul(a, b) == Rat(a[1] * b[1], a[2] * b[2])
RDiv(a, b) == Rat(a[1] * b[2], a[2] * b[1])                 \* b # 0 by construction
RECURSIVE IPow(_, _)
IPow(b, e) == IF e = 0 THEN 1 ELSE b * IPow(b, e - 1)
RPow(a, b) == Rat(IPow(a[1], b[1]), IPow(a[2], b[1]))       \* non-negative integer exponents only
RNeg(a) == <<-a[1], a[2]>>
RAbs(a) == <<Abs(a[1]), a[2]>>
Ops == {"add", "sub", "mul", "div", "pow"}
Commutative(op) == op \in {"add", "mul"}
BinOp(op, x, y) == CASE op = "add" -> RAdd(x, y) [] op = "sub" -> RSub(x, y) [] op = "mul" -> RMul(x, y)
                     [] op = "div" -> RDiv(x, y) [] op = "pow" -> RPow(x, y)
UnOp(op, x) == CASE op = "neg" -> RNeg(x) [] op = "abs" -> RAbs(x) [] op = "pos" -> x

GAdd(a, b) == <<a[1] + b[1], a[2] + b[2]>>
GMul(a, b) == <<a[1] * b[1] - a[2] * b[2], a[1] * b[2] + a[2] * b[1]>>
GConj(a) == <<a[1], -a[2]>>
RECURSIVE GSum(_)
GSum(s) == IF s = <<>> THEN <<0, 0>> ELSE GAdd(Head(s), GSum(Tail(s)))

-----------------------------------------------------------------------------
(* dtypes: JAX's promotion lattice restricted to i32 < f16 < f32 < f64 and the complex types *)
DTypes == {"i32", "f16", "f32", "f64", "c64", "c128"}
RealRank(d) == CASE d = "i32" -> 0 [] d = "f16" -> 1 [] d = "f32" -> 2 [] d = "f64" -> 3
                 [] d = "c64" -> 2 [] d = "c128" -> 3
IsCplx(d) == d \in {"c64", "c128"}
Join(a, b) == LET r == Max2(RealRank(a), RealRank(b))
              IN IF IsCplx(a) \/ IsCplx(b) THEN (IF r = 3 THEN "c128" ELSE "c64")
                 ELSE (CASE r = 0 -> "i32" [] r = 1 -> "f16" [] r = 2 -> "f32" [] r = 3 -> "f64")
RECURSIVE JoinSeq(_)
JoinSeq(s) == IF Len(s) = 1 THEN s[1] ELSE Join(Head(s), JoinSeq(Tail(s)))   \* jnp.result_type(*leaves)
Canon(d, x64) == IF x64 THEN d ELSE (CASE d = "f64" -> "f32" [] d = "c128" -> "c64" [] OTHER -> d)

-----------------------------------------------------------------------------
(* arrays *)
Array(sh, dt, v) == [sh |-> sh, dt |-> dt, v |-> v, st |-> FALSE, w |-> FALSE]
Struct(sh, dt) == [sh |-> sh, dt |-> dt, v |-> <<>>, st |-> TRUE, w |-> FALSE]
PyScalar(dt, x) == [sh |-> <<>>, dt |-> dt, v |-> <<x>>, st |-> FALSE, w |-> TRUE]
NoArr == Array(<<>>, "", <<>>)
Size(a) == ProdSeq(a.sh)
Const(sh, dt, x) == Array(sh, dt, [p \in 1..ProdSeq(sh) |-> x])                 \* jnp.full
\* a concrete array or a structure, as the real objects exist under the x64 flag
\* (arrays are canonicalised at creation, a ShapeDtypeStruct keeps the dtype it was given)
MkLeaf(st, sh, dt, x64, V(_)) == IF st THEN Struct(sh, dt)
                                 ELSE Array(sh, Canon(dt, x64), [p \in 1..ProdSeq(sh) |-> V(p)])

\* element-wise binary operation with scalar broadcasting and JAX's weak-type promotion
Elem(a, p) == IF a.sh = <<>> THEN a.v[1] ELSE a.v[p]
ResDt(x, y) == IF x.w /\ ~y.w THEN y.dt ELSE IF y.w /\ ~x.w THEN x.dt ELSE Join(x.dt, y.dt)
LeafOp(op, x, y) == LET sh == IF x.sh = <<>> THEN y.sh ELSE x.sh
                    IN Array(sh, ResDt(x, y), [p \in 1..ProdSeq(sh) |-> BinOp(op, Elem(x, p), Elem(y, p))])
LeafUn(op, x) == Array(x.sh, x.dt, [p \in 1..Size(x) |-> UnOp(op, x.v[p])])

\* indexing along the first axis: int (axis dropped), slice, integer array, boolean mask
NormIdx(i, n) == IF i < 0 THEN i + n ELSE i
Clamp(x, lo, hi) == Max2(lo, Min2(x, hi))
SliceRows(n, s0, e0, st) ==              \* slice(s0, e0, st).indices(n), expanded
  IF st > 0
  THEN LET s == Clamp(NormIdx(s0, n), 0, n)
           e == Clamp(NormIdx(e0, n), 0, n)
           cnt == IF e > s THEN (e - s + st - 1) \div st ELSE 0
       IN [j \in 1..cnt |-> s + (j - 1) * st]
  ELSE LET s == Clamp(NormIdx(s0, n), -1, n - 1)
           e == Clamp(NormIdx(e0, n), -1, n - 1)
           cnt == IF s > e THEN (s - e + (-st) - 1) \div (-st) ELSE 0
       IN [j \in 1..cnt |-> s + (j - 1) * st]
IdxRows(idx, n) == CASE idx.t = "int" -> <<NormIdx(idx.a[1], n)>>
                     [] idx.t = "iarr" -> [j \in 1..Len(idx.a) |-> NormIdx(idx.a[j], n)]
                     [] idx.t = "mask" -> SelectSeq([j \in 1..n |-> j - 1], LAMBDA r : idx.a[r + 1] = 1)
                     [] idx.t = "slice" -> SliceRows(n, idx.a[1], idx.a[2], idx.a[3])
RowOf(a, r) == LET m == ProdSeq(Tail(a.sh)) IN SubSeq(a.v, r * m + 1, (r + 1) * m)   \* r is 0-based
IndexArr(a, idx) ==
  LET rows == IdxRows(idx, a.sh[1])
  IN Array((IF idx.t = "int" THEN <<>> ELSE <<Len(rows)>>) \o Tail(a.sh), a.dt,
           ConcatAll([j \in 1..Len(rows) |-> RowOf(a, rows[j])]))

\* reshape (row-major, one -1 allowed); [ok, sh]
ResolveShape(to, size) ==
  LET neg == {i \in 1..Len(to) : to[i] = -1}
      known == ProdSeq([i \in 1..Len(to) |-> IF to[i] = -1 THEN 1 ELSE to[i]])
  IN IF neg = {} THEN [ok |-> known = size, sh |-> to]
     ELSE IF Cardinality(neg) = 1 /\ known > 0 /\ size % known = 0
          THEN [ok |-> TRUE, sh |-> [i \in 1..Len(to) |-> IF to[i] = -1 THEN size \div known ELSE to[i]]]
          ELSE [ok |-> FALSE, sh |-> to]
ReshapeArr(a, sh) == Array(sh, a.dt, a.v)

\* jnp.vdot on Gaussian integers: conjugates the FIRST argument, flattens both
VDot(a, b) == GSum([p \in 1..Size(a) |-> GMul(GConj(a.v[p]), b.v[p])])

-----------------------------------------------------------------------------
(* Stokes kinds and containers *)
Kinds == {"I", "QU", "IQU", "IQUV"}
Letters(k) == CASE k = "I" -> <<"I">> [] k = "QU" -> <<"Q", "U">> [] k = "IQU" -> <<"I", "Q", "U">>
                [] k = "IQUV" -> <<"I", "Q", "U", "V">>
Lower(l) == CASE l = "I" -> "i" [] l = "Q" -> "q" [] l = "U" -> "u" [] l = "V" -> "v"
Fields(k) == [i \in 1..Len(Letters(k)) |-> Lower(Letters(k)[i])]          \* dataclass fields, in order
NComp(k) == Len(Letters(k))
CompSet(k) == {Fields(k)[i] : i \in 1..NComp(k)}
FieldIdx(k, n) == CHOOSE i \in 1..NComp(k) : Fields(k)[i] = n
GI(n) == CASE n = "i" -> 0 [] n = "q" -> 1 [] n = "u" -> 2 [] n = "v" -> 3    \* global index of a component
OtherKind(k) == CASE k = "I" -> "QU" [] k = "QU" -> "IQU" [] k = "IQU" -> "IQUV" [] k = "IQUV" -> "IQU"
KindOfCount(n) == CASE n = 1 -> "I" [] n = 2 -> "QU" [] n = 3 -> "IQU" [] n = 4 -> "IQUV"

NoC == [kind |-> "", leaf |-> <<>>]
MkC(kind, F(_)) == [kind |-> kind, leaf |-> TLCEval([n \in CompSet(kind) |-> F(n)])]
\* dtype layouts of the test containers
DtCfg(cfg, n, x64) == Canon(CASE cfg = "f32" -> "f32" [] cfg = "f64" -> "f64" [] cfg = "c64" -> "c64"
                              [] cfg = "mixed" -> (IF GI(n) % 2 = 0 THEN "f32" ELSE "f64")
                              [] cfg = "rmixed" -> (IF GI(n) % 2 = 0 THEN "f64" ELSE "f32"), x64)

(* value tables: pairwise distinct over components and positions, left # right, small for ** *)
AVal(n, p) == 2 + 4 * GI(n) + (p - 1)                                        \* 2..17
SVal(n, p) == (IF (GI(n) + p) % 2 = 0 THEN 1 ELSE -1) * AVal(n, p)           \* mixed signs (unary)
BVal(op, n, p) == IF op = "pow" THEN (GI(n) + p) % 4 ELSE 19 + 3 * (4 * GI(n) + p - 1)
ArrVal(op, p) == IF op = "pow" THEN p % 4 ELSE 23 + 5 * p
ScalarVal(op, t) == CASE t = "pyfloat" -> (IF op = "pow" THEN <<2, 1>> ELSE <<5, 2>>)
                      [] t = "jax0d" -> <<2, 1>> [] t \in {"pyint", "npscalar"} -> <<3, 1>>
GAVal(cx, n, p) == <<AVal(n, p), IF cx THEN (IF p % 2 = 0 THEN 1 ELSE -1) * (GI(n) + p) ELSE 0>>
GBVal(cx, n, p) == <<BVal("mul", n, p), IF cx THEN GI(n) + 2 * p ELSE 0>>

-----------------------------------------------------------------------------
(* PART 1 - reference semantics *)

\* operand types of the statement: accepted iff a scalar, a JAX array or a container of the same kind
Accepted == {"same", "pyint", "pyfloat", "npscalar", "jax0d", "jaxarr"}
Refused == {"other", "list", "none"}
Err == [err |-> TRUE]
Ok(c) == [err |-> FALSE, c |-> c]

\* x (a container) OP y (operand) or y OP x: component n of the result is op(left_n, right_n), nothing else
OperandLeaf(x, n) == IF x.t = "same" THEN x.c.leaf[n] ELSE x.a
RefBinop(a, op, x, onleft) ==
  IF x.t \notin Accepted THEN Err
  ELSE Ok(MkC(a.kind, LAMBDA n : IF onleft THEN LeafOp(op, a.leaf[n], OperandLeaf(x, n))
                                 ELSE LeafOp(op, OperandLeaf(x, n), a.leaf[n])))
RefLeafwise(a, F(_)) == Ok(MkC(a.kind, LAMBDA n : F(a.leaf[n])))
RefReshape(a, to) == LET r == ResolveShape(to, Size(a.leaf[Fields(a.kind)[1]]))
                     IN IF r.ok THEN RefLeafwise(a, LAMBDA l : ReshapeArr(l, r.sh)) ELSE Err
\* Hermitian scalar product: sum over all leaves and elements of conj(x) * y, written with real parts
RefDot(xl, yl) ==
  LET re(j) == SumSeq([p \in 1..Size(xl[j]) |-> xl[j].v[p][1] * yl[j].v[p][1] + xl[j].v[p][2] * yl[j].v[p][2]])
      im(j) == SumSeq([p \in 1..Size(xl[j]) |-> xl[j].v[p][1] * yl[j].v[p][2] - xl[j].v[p][2] * yl[j].v[p][1]])
  IN <<SumSeq([j \in 1..Len(xl) |-> re(j)]), SumSeq([j \in 1..Len(xl) |-> im(j)])>>
DotDt(xl, yl) == JoinSeq(<<"i32">> \o [j \in 1..Len(xl) |-> xl[j].dt] \o [j \in 1..Len(yl) |-> yl[j].dt])
RefMatmul(a, x) == IF x.t # "same" THEN Err
                   ELSE LET xl == [i \in 1..NComp(a.kind) |-> a.leaf[Fields(a.kind)[i]]]
                            yl == [i \in 1..NComp(a.kind) |-> x.c.leaf[Fields(a.kind)[i]]]
                        IN Ok(Array(<<>>, DotDt(xl, yl), <<RefDot(xl, yl)>>))
RefClassFor(name) == IF name \in Kinds THEN [err |-> FALSE, kind |-> name, fields |-> Fields(name)] ELSE Err
\* factories: every component has the requested shape and (canonical) dtype and the fill value
RefFactory(kind, fn, sh, dt, x64, fill) ==
  Ok(MkC(kind, LAMBDA n : CASE fn = "structure_for" -> Struct(sh, dt)
                            [] fn \in {"zeros", "ones", "full"} -> Const(sh, Canon(dt, x64), RInt(fill))
                            [] fn \in {"normal", "uniform"} -> Array(sh, Canon(dt, x64), <<>>)))
\* from_stokes / from_iquv: kind from the components given, each component is the argument of that
\* name, all cast to the common promoted dtype (promote; StokesIPyTree.from_iquv has a single component
\* and hands it over untouched)
CastLeaf(l, dt) == [l EXCEPT !.dt = dt]
RefFromNamed(named, x64, promote) ==     \* named: function component name -> leaf
  LET ns == DOMAIN named
      k == CHOOSE kk \in Kinds : CompSet(kk) = ns
      dt == Canon(JoinSeq([i \in 1..NComp(k) |-> named[Fields(k)[i]].dt]), x64)
  IN IF \E kk \in Kinds : CompSet(kk) = ns
     THEN Ok(MkC(k, LAMBDA n : IF promote THEN CastLeaf(named[n], dt) ELSE named[n]))
     ELSE Err

\* generic pytrees
TreeDefs == {"leaf", "pair", "list2", "dict_list3"}
NLeaves(def) == CASE def = "leaf" -> 1 [] def \in {"pair", "list2"} -> 2 [] def = "dict_list3" -> 3
Tree(def, F(_)) == [def |-> def, leaves |-> [j \in 1..NLeaves(def) |-> F(j)]]
LeafShape(j) == CASE j = 1 -> <<2>> [] j = 2 -> <<1>> [] j = 3 -> <<2>>     \* leaves 1 and 3: same shape, any two dtypes
OkT(t) == [err |-> FALSE, t |-> t]
RefPromote(t, x64) == LET dt == Canon(JoinSeq([j \in 1..Len(t.leaves) |-> t.leaves[j].dt]), x64)
                      IN OkT(Tree(t.def, LAMBDA j : CastLeaf(t.leaves[j], dt)))
RefFullLike(t, x64, fill) == OkT(Tree(t.def, LAMBDA j : Const(t.leaves[j].sh, Canon(t.leaves[j].dt, x64), RInt(fill))))
RefRandomLike(t, x64) == OkT(Tree(t.def, LAMBDA j : Array(t.leaves[j].sh, Canon(t.leaves[j].dt, x64), <<>>)))
RefAsStructure(t, x64) == OkT(Tree(t.def, LAMBDA j : Struct(t.leaves[j].sh, Canon(t.leaves[j].dt, x64))))
RefTreeDot(x, y) == IF x.def # y.def THEN Err
                    ELSE Ok(Array(<<>>, DotDt(x.leaves, y.leaves), <<RefDot(x.leaves, y.leaves)>>))

-----------------------------------------------------------------------------
(* PART 2 - transcription of the implementation *)

\* jax.tree.map on the registered dataclass: flatten in field order, map, unflatten
Flatten(c) == [i \in 1..NComp(c.kind) |-> c.leaf[Fields(c.kind)[i]]]
Unflatten(kind, ls) == MkC(kind, LAMBDA n : ls[FieldIdx(kind, n)])
TreeMap1(F(_), c) == Unflatten(c.kind, [i \in 1..NComp(c.kind) |-> F(Flatten(c)[i])])
TreeMap2(F(_, _), c, d) == Unflatten(c.kind, [i \in 1..NComp(c.kind) |-> F(Flatten(c)[i], Flatten(d)[i])])

\* what a dunder returns: NotImplemented or a value
NotImpl == [ni |-> TRUE, c |-> NoC]
Ret(c) == [ni |-> FALSE, c |-> c]
IsContainer(x) == x.t \in {"same", "other", "self"}
IsInstance(x, kind) == IsContainer(x) /\ x.c.kind = kind                 \* isinstance(x, type(self))
IsScalar(x) == x.t \in {"pyint", "pyfloat", "npscalar", "jax0d"}         \* jnp.isscalar(x)
IsJaxArray(x) == x.t \in {"jax0d", "jaxarr"}                             \* isinstance(x, jax.Array)
Wrap(c) == [t |-> "self", c |-> c, a |-> NoArr]

\* StokesPyTree._operation(self, operation, right)
Operation(op, self, right) ==
  IF IsInstance(right, self.kind) THEN Ret(TreeMap2(LAMBDA l, r : LeafOp(op, l, r), self, right.c))
  ELSE IF IsScalar(right) \/ IsJaxArray(right) THEN Ret(TreeMap1(LAMBDA l : LeafOp(op, l, right.a), self))
  ELSE NotImpl
\* StokesPyTree._roperation(self, operation, left)
ROperation(op, self, left) ==
  IF IsInstance(left, self.kind) THEN Ret(TreeMap2(LAMBDA l, r : LeafOp(op, l, r), left.c, self))
  ELSE IF IsScalar(left) \/ IsJaxArray(left) THEN Ret(TreeMap1(LAMBDA l : LeafOp(op, left.a, l), self))
  ELSE NotImpl
\* tree.dot on the flattened leaves: tree.map(jnp.vdot, x, y), then sum(leaves, start=jnp.array(0))
DotLeaves(xl, yl) == Array(<<>>, DotDt(xl, yl), <<GSum([j \in 1..Len(xl) |-> VDot(xl[j], yl[j])])>>)
\* StokesPyTree.__matmul__
Matmul(self, other) == IF ~IsInstance(other, self.kind) THEN NotImpl
                       ELSE Ret(DotLeaves(Flatten(self), Flatten(other.c)))
\* __getitem__: one array per letter of cls.stokes, then the positional constructor
GetItem(self, idx) == Unflatten(self.kind, [i \in 1..NComp(self.kind) |->
                                  IndexArr(self.leaf[Lower(Letters(self.kind)[i])], idx)])
\* class_for
ClassFor(name) == IF name \notin {"I", "QU", "IQU", "IQUV"} THEN Err
                  ELSE [err |-> FALSE, kind |-> name, fields |-> Fields(name)]
\* structure_for: len(cls.stokes) * [ShapeDtypeStruct(shape, dtype)], positional constructor
StructureFor(kind, sh, dt) == Unflatten(kind, [i \in 1..NComp(kind) |-> Struct(sh, dt)])
\* tree.full_like / normal_like / uniform_like on flattened leaves (jnp.full canonicalises the dtype)
FullLeaf(l, x64, fill) == Const(l.sh, Canon(l.dt, x64), RInt(fill))
RandomLeaf(l, x64) == Array(l.sh, Canon(l.dt, x64), <<>>)
Factory(kind, fn, sh, dt, x64, fill) ==
  LET s == StructureFor(kind, sh, dt)
  IN Ok(CASE fn = "structure_for" -> s
          [] fn = "zeros" -> TreeMap1(LAMBDA l : FullLeaf(l, x64, 0), s)
          [] fn = "ones" -> TreeMap1(LAMBDA l : FullLeaf(l, x64, 1), s)
          [] fn = "full" -> TreeMap1(LAMBDA l : FullLeaf(l, x64, fill), s)
          [] fn \in {"normal", "uniform"} -> TreeMap1(LAMBDA l : RandomLeaf(l, x64), s))
\* tree.as_promoted_dtype on a sequence of leaves
Promoted(ls, x64) == LET dt == Canon(JoinSeq([j \in 1..Len(ls) |-> ls[j].dt]), x64)
                     IN [j \in 1..Len(ls) |-> CastLeaf(ls[j], dt)]
\* sorted() on the keyword names (code-point order: upper case before lower case)
Code(s) == CASE s = "I" -> 73 [] s = "Q" -> 81 [] s = "U" -> 85 [] s = "V" -> 86 [] s = "W" -> 87
             [] s = "i" -> 105 [] s = "q" -> 113 [] s = "u" -> 117
RECURSIVE SortNames(_)
SortNames(s) == IF s = <<>> THEN <<>>
                ELSE LET m == CHOOSE i \in 1..Len(s) : \A j \in 1..Len(s) : Code(s[i]) <= Code(s[j])
                     IN <<s[m]>> \o SortNames(SubSeq(s, 1, m - 1) \o SubSeq(s, m + 1, Len(s)))
\* from_stokes(*args, **keywords): pos / kw are sequences of leaves, kwnames the keyword names in call order
FromStokes(pos, kwnames, kw, x64) ==
  IF pos # <<>> /\ kwnames # <<>> THEN Err
  ELSE LET sorted == SortNames(kwnames)
           bad == kwnames # <<>> /\ sorted \notin {Letters(k) : k \in Kinds}
           args == IF kwnames = <<>> THEN pos
                   ELSE [i \in 1..Len(sorted) |-> kw[CHOOSE j \in 1..Len(kwnames) : kwnames[j] = sorted[i]]]
       IN IF bad THEN Err
          ELSE IF args = <<>> THEN Err            \* jnp.result_type() of nothing raises
          ELSE IF Len(args) > 4 THEN Err
          ELSE Ok(Unflatten(KindOfCount(Len(args)), Promoted(args, x64)))
\* from_iquv of each subclass
FromIquv(kind, i, q, u, v, x64) ==
  CASE kind = "I" -> Ok(Unflatten("I", <<i>>))
    [] kind = "QU" -> Ok(Unflatten("QU", Promoted(<<q, u>>, x64)))
    [] kind = "IQU" -> Ok(Unflatten("IQU", Promoted(<<i, q, u>>, x64)))
    [] kind = "IQUV" -> Ok(Unflatten("IQUV", Promoted(<<i, q, u, v>>, x64)))
\* helpers of tree.py on generic pytrees (jax.tree.map keeps the treedef of its first argument)
AsPromoted(t, x64) == OkT([def |-> t.def, leaves |-> Promoted(t.leaves, x64)])
FullLike(t, x64, fill) == OkT([def |-> t.def, leaves |-> [j \in 1..Len(t.leaves) |-> FullLeaf(t.leaves[j], x64, fill)]])
RandomLike(t, x64) == OkT([def |-> t.def, leaves |-> [j \in 1..Len(t.leaves) |-> RandomLeaf(t.leaves[j], x64)]])
AsStructure(t, x64) == OkT([def |-> t.def, leaves |-> [j \in 1..Len(t.leaves) |->
                                Struct(t.leaves[j].sh, Canon(t.leaves[j].dt, x64))]])
\* tree.map(f, x, y) raises when the treedefs differ (a leaf x receives the whole of y: vdot refuses it)
TreeDot(x, y) == IF x.def # y.def THEN Err ELSE Ok(DotLeaves(x.leaves, y.leaves))
\* is_leaf: the treedef has a single node
IsLeafObj(obj) == obj \in {"array", "struct", "pyfloat", "str"}
=============================================================================
