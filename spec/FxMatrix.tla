------------------------------- MODULE FxMatrix -------------------------------
(***************************************************************************)
(* Exact rational matrices.  A matrix is a record                          *)
(*    [r |-> rows, c |-> columns, e |-> <<row1, ..., rowr>>, d |-> den]    *)
(* with integer entries e[i][j] over the common positive denominator d.    *)
(* All operators normalise (gcd of every entry and d is 1), so `=` is      *)
(* mathematical equality.  Matrices with r = 0 or c = 0 are allowed.       *)
(* TLC evaluates function constructors lazily: every constructor is        *)
(* forced with TLCEval.                                                    *)
(***************************************************************************)
EXTENDS Integers, Sequences, FiniteSets, TLC

Abs(x) == IF x < 0 THEN -x ELSE x
Max2(a, b) == IF a >= b THEN a ELSE b
Min2(a, b) == IF a <= b THEN a ELSE b

RECURSIVE GcdN(_, _)
GcdN(a, b) == IF b = 0 THEN a ELSE GcdN(b, a % b)
Gcd(a, b) == GcdN(Abs(a), Abs(b))

RECURSIVE SumSeq(_)
SumSeq(s) == IF s = <<>> THEN 0 ELSE Head(s) + SumSeq(Tail(s))
RECURSIVE ProdSeq(_)
ProdSeq(s) == IF s = <<>> THEN 1 ELSE Head(s) * ProdSeq(Tail(s))
RECURSIVE GcdSeq(_)
GcdSeq(s) == IF s = <<>> THEN 0 ELSE Gcd(Head(s), GcdSeq(Tail(s)))
RECURSIVE ConcatAll(_)
ConcatAll(ss) == IF ss = <<>> THEN <<>> ELSE Head(ss) \o ConcatAll(Tail(ss))

Sum(n, F(_)) == SumSeq([k \in 1..n |-> F(k)])

\* raw constructor (no normalisation)
RawMat(r, c, d, F(_, _)) ==
  [r |-> r, c |-> c, d |-> d, e |-> TLCEval([i \in 1..r |-> [j \in 1..c |-> F(i, j)]])]

MatGcd(M) == GcdSeq(<<M.d>> \o [i \in 1..M.r |-> GcdSeq(M.e[i])])

Normalise(M) ==
  LET g0 == MatGcd(M)
      g == (IF g0 = 0 THEN 1 ELSE g0) * (IF M.d < 0 THEN -1 ELSE 1)
  IN IF M.r = 0 \/ M.c = 0 THEN [r |-> M.r, c |-> M.c, d |-> 1, e |-> TLCEval([i \in 1..M.r |-> <<>>])]
     ELSE [r |-> M.r, c |-> M.c, d |-> M.d \div g,
           e |-> TLCEval([i \in 1..M.r |-> [j \in 1..M.c |-> M.e[i][j] \div g]])]

Mat(r, c, d, F(_, _)) == Normalise(RawMat(r, c, d, F))

\* integer matrix from a sequence of rows
MatOfRows(rows) == Mat(Len(rows), IF rows = <<>> THEN 0 ELSE Len(rows[1]), 1, LAMBDA i, j : rows[i][j])
MatOfRowsOver(rows, d) == Mat(Len(rows), IF rows = <<>> THEN 0 ELSE Len(rows[1]), d, LAMBDA i, j : rows[i][j])

IdentityMat(n) == Mat(n, n, 1, LAMBDA i, j : IF i = j THEN 1 ELSE 0)
ZeroMat(r, c) == Mat(r, c, 1, LAMBDA i, j : 0)
DiagMat(v) == Mat(Len(v), Len(v), 1, LAMBDA i, j : IF i = j THEN v[i] ELSE 0)
\* diagonal with rational entries num[i]/den
DiagMatOver(v, d) == Mat(Len(v), Len(v), d, LAMBDA i, j : IF i = j THEN v[i] ELSE 0)

MatT(M) == [r |-> M.c, c |-> M.r, d |-> M.d,
            e |-> TLCEval([i \in 1..M.c |-> [j \in 1..M.r |-> M.e[j][i]]])]

MatMul(A, B) ==
  Mat(A.r, B.c, A.d * B.d, LAMBDA i, j : SumSeq([k \in 1..A.c |-> A.e[i][k] * B.e[k][j]]))

MatAdd(A, B) ==
  Mat(A.r, A.c, A.d * B.d, LAMBDA i, j : A.e[i][j] * B.d + B.e[i][j] * A.d)

\* (n/m) * A
MatScale(n, m, A) == Mat(A.r, A.c, A.d * m, LAMBDA i, j : n * A.e[i][j])
MatNeg(A) == MatScale(-1, 1, A)

\* [A B]
HStack2(A, B) ==
  Mat(A.r, A.c + B.c, A.d * B.d,
      LAMBDA i, j : IF j <= A.c THEN A.e[i][j] * B.d ELSE B.e[i][j - A.c] * A.d)
\* [A ; B]
VStack2(A, B) ==
  Mat(A.r + B.r, A.c, A.d * B.d,
      LAMBDA i, j : IF i <= A.r THEN A.e[i][j] * B.d ELSE B.e[i - A.r][j] * A.d)
BlockDiag2(A, B) ==
  Mat(A.r + B.r, A.c + B.c, A.d * B.d,
      LAMBDA i, j : IF i <= A.r /\ j <= A.c THEN A.e[i][j] * B.d
                    ELSE IF i > A.r /\ j > A.c THEN B.e[i - A.r][j - A.c] * A.d ELSE 0)

RECURSIVE HStack(_)
HStack(ms) == IF Len(ms) = 1 THEN ms[1] ELSE HStack2(ms[1], HStack(Tail(ms)))
RECURSIVE VStack(_)
VStack(ms) == IF Len(ms) = 1 THEN ms[1] ELSE VStack2(ms[1], VStack(Tail(ms)))
RECURSIVE BlockDiag(_)
BlockDiag(ms) == IF Len(ms) = 1 THEN ms[1] ELSE BlockDiag2(ms[1], BlockDiag(Tail(ms)))
RECURSIVE MatProd(_)
MatProd(ms) == IF Len(ms) = 1 THEN ms[1] ELSE MatMul(ms[1], MatProd(Tail(ms)))
RECURSIVE MatSum(_)
MatSum(ms) == IF Len(ms) = 1 THEN ms[1] ELSE MatAdd(ms[1], MatSum(Tail(ms)))

\* Kronecker product with the identity on the right:  A (x) I_m
\* (an operator acting on component index, identically for each of m elements)
KronI(A, m) ==
  Mat(A.r * m, A.c * m, A.d,
      LAMBDA i, j : IF (i - 1) % m = (j - 1) % m THEN A.e[((i - 1) \div m) + 1][((j - 1) \div m) + 1] ELSE 0)

-----------------------------------------------------------------------------
(* determinant / inverse by Laplace expansion (n <= 4 in practice), on the integer numerators *)

Minor(e, n, i, j) ==
  [a \in 1..(n - 1) |-> [b \in 1..(n - 1) |->
      e[IF a < i THEN a ELSE a + 1][IF b < j THEN b ELSE b + 1]]]

RECURSIVE DetE(_, _)
DetE(e, n) ==
  IF n = 0 THEN 1
  ELSE IF n = 1 THEN e[1][1]
  ELSE SumSeq([j \in 1..n |-> (IF j % 2 = 1 THEN 1 ELSE -1) * e[1][j] * DetE(Minor(e, n, 1, j), n - 1)])

\* determinant numerator: det(M) = MatDetNum(M) / M.d^n
MatDetNum(M) == DetE(M.e, M.r)
IsInvertible(M) == M.r = M.c /\ MatDetNum(M) # 0

\* inverse of (E/d) = d * adj(E) / det(E)
MatInv(M) ==
  LET n == M.r
      det == DetE(M.e, n)
  IN Mat(n, n, det,
         LAMBDA i, j : (IF (i + j) % 2 = 0 THEN 1 ELSE -1) * M.d * DetE(Minor(M.e, n, j, i), n - 1))

\* the same inverse, avoiding the factorial expansion when M is orthogonal (then M^-1 = M^T)
MatInvO(M) == IF M.r = M.c /\ MatMul(MatT(M), M) = IdentityMat(M.r) THEN MatT(M) ELSE MatInv(M)

-----------------------------------------------------------------------------
(* predicates *)
IsSquare(M) == M.r = M.c
IsSymmetric(M) == IsSquare(M) /\ MatT(M) = M
IsDiagonalM(M) == IsSquare(M) /\ \A i \in 1..M.r, j \in 1..M.c : i # j => M.e[i][j] = 0
IsLower(M) == IsSquare(M) /\ \A i \in 1..M.r, j \in 1..M.c : j > i => M.e[i][j] = 0
IsUpper(M) == IsSquare(M) /\ \A i \in 1..M.r, j \in 1..M.c : j < i => M.e[i][j] = 0
IsTridiagonal(M) == IsSquare(M) /\ \A i \in 1..M.r, j \in 1..M.c : Abs(i - j) > 1 => M.e[i][j] = 0
IsOrthogonal(M) == IsSquare(M) /\ MatMul(MatT(M), M) = IdentityMat(M.r)
IsIdentity(M) == M = IdentityMat(M.r) /\ IsSquare(M)

\* leading principal minors (Sylvester): positive definite iff all > 0 (symmetric M)
Leading(e, k) == [a \in 1..k |-> [b \in 1..k |-> e[a][b]]]
IsPosDef(M) == IsSymmetric(M) /\ \A k \in 1..M.r : DetE(Leading(M.e, k), k) > 0
\* positive semidefinite (symmetric): every principal minor >= 0
PrincipalSub(e, S) ==
  LET idx == CHOOSE f \in [1..Cardinality(S) -> S] : \A a, b \in 1..Cardinality(S) : a < b => f[a] < f[b]
  IN [a \in 1..Cardinality(S) |-> [b \in 1..Cardinality(S) |-> e[idx[a]][idx[b]]]]
IsPSD(M) == IsSymmetric(M) /\
            \A S \in (SUBSET (1..M.r)) \ {{}} : DetE(PrincipalSub(M.e, S), Cardinality(S)) >= 0
IsNSD(M) == IsPSD(MatNeg(M))
=============================================================================
