------------------------------ MODULE MC_Reduce ------------------------------
(***************************************************************************)
(* C01 / C07 at design level: every well-typed chain over the alphabet     *)
(* (built atom by atom), then the scan of AlgebraicReductionRule.apply     *)
(* stepped one loop iteration at a time.  Invariants: every intermediate   *)
(* operand list denotes the original product and keeps the end structures; *)
(* the scan terminates in the documented normal form.  Each chain is       *)
(* emitted as a case for the replay on the real library.                   *)
(***************************************************************************)
EXTENDS FxSigma, Json

CONSTANTS MaxLen,      \* maximal chain length
          Names,       \* atom names in use
          FirstNames   \* names allowed as the first (leftmost) operand: shards the generation

VARIABLES phase, chain, st, den0, steps, fired
vars == <<phase, chain, st, den0, steps, fired>>

At(n) == AtomTable[n]
Terms(c) == [i \in 1..Len(c) |-> At(c[i])]

Init == /\ phase = "build" /\ chain = <<>> /\ st = ScanInit(<<>>) /\ den0 = IdentityMat(0) /\ steps = 0 /\ fired = 0

Extend(n) == /\ phase = "build" /\ Len(chain) < MaxLen
             /\ IF chain = <<>> THEN n \in FirstNames
                ELSE InS(At(chain[Len(chain)])) = OutS(At(n))
             /\ chain' = Append(chain, n)
             /\ UNCHANGED <<phase, st, den0, steps, fired>>

\* CompositionOperator.reduce: operands reduced first, then the n-ary / binary rules
Start == /\ phase = "build" /\ Len(chain) >= 1
         /\ phase' = "scan"
         /\ st' = ScanInit([i \in 1..Len(chain) |-> Reduce(At(chain[i]))])
         /\ den0' = Den(Comp(Terms(chain)))
         /\ UNCHANGED <<chain, steps, fired>>

Step == /\ phase = "scan" /\ ~st.done
        /\ st' = ScanStep(st) /\ steps' = steps + 1
        /\ fired' = IF ScanStep(st).done \/ (ScanStep(st).ops = st.ops /\ ScanStep(st).idx = st.idx + 1) THEN fired ELSE fired + 1
        /\ UNCHANGED <<phase, chain, den0>>

Finish == /\ phase = "scan" /\ st.done /\ phase' = "done" /\ UNCHANGED <<chain, st, den0, steps, fired>>

Next == (\E n \in Names : Extend(n)) \/ Start \/ Step \/ Finish

-----------------------------------------------------------------------------
InSp == InS(At(chain[Len(chain)]))
OutSp == OutS(At(chain[1]))
CurDen == IF st.ops = <<>> THEN IdentityMat(SizeS(InSp)) ELSE Den(Comp(st.ops))

NoRaise == phase # "build" => ~HasErr(st.ops)
Sound == phase # "build" => CurDen = den0
TypesKept == (phase # "build" /\ st.ops # <<>>) =>
                /\ InS(st.ops[Len(st.ops)]) = InSp /\ OutS(st.ops[1]) = OutSp
                /\ \A i \in 1..(Len(st.ops) - 1) : InS(st.ops[i]) = OutS(st.ops[i + 1])
EmptyOnlyIfSquare == (phase # "build" /\ st.ops = <<>>) => InSp = OutSp
Terminates == steps <= 4 * MaxLen + 2
ReachesNF == phase = "done" => NormalChain(st.ops)

Result == IF Len(st.ops) = 1 THEN st.ops[1] ELSE Comp(st.ops)
Emit == phase = "done" =>
          PrintT(<<"CASE", ToJson([names |-> chain, term |-> Comp(Terms(chain)),
                                   den |-> den0, ins |-> InSp, outs |-> OutSp,
                                   steps |-> steps, fired |-> fired, result |-> Result])>>)
=============================================================================
