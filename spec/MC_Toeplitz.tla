----------------------------- MODULE MC_Toeplitz -----------------------------
(***************************************************************************)
(* C09 at design level.  A configuration (n, K, method, fft_size, batch    *)
(* shape of the input, batch shape of the band values) is chosen, the      *)
(* constructor is run (transcription next to the reference verdict), then  *)
(* the evaluation method is run on a family of probes at once:             *)
(*   - the bilinear basis band = e_k, x = e_j (complete for a map that is  *)
(*     bilinear in (band, x)); batch rows are rotated and scaled           *)
(*     differently so that any mixing of rows is visible;                  *)
(*   - two probes with distinct integers (negative and zero included).     *)
(* dense / direct / fft are one action; overlap_save is a loop with one    *)
(* action per block and the loop invariants below.  Every terminal state   *)
(* is emitted as a case carrying the exact expected outputs.               *)
(***************************************************************************)
EXTENDS FxToeplitz, Json

CONSTANTS NMax,        \* n in 1..NMax
          KMax,        \* K in 1..KMax (K > n included)
          FMax,        \* explicit fft_size up to FMax (plus the default size)
          ErrN,        \* values of n used for the configurations the constructor must reject
          Rank2        \* TRUE: also band batch (2,1) against input batch (2,3)

VARIABLES phase,    \* "new" -> ("done" | "ready") -> ("done" | "loop" -> "done")
          cfg,      \* the configuration
          ctor,     \* result of the transcribed constructor
          F,        \* FFT size used by overlap_save (None otherwise)
          ib,       \* overlap_save: iblock
          ys,       \* overlap_save: y of every probe and batch row
          outs,     \* result rows of every probe
          clamped,  \* overlap_save: some lax start index was clamped
          cover     \* overlap_save: how many times each position of y has been written
vars == <<phase, cfg, ctor, F, ib, ys, outs, clamped, cover>>

Batches == {<<<<>>, <<>>>>, <<<<2>>, <<>>>>, <<<<2>>, <<2>>>>, <<<<2>>, <<1>>>>}
             \cup (IF Rank2 THEN {<<<<2, 3>>, <<2, 1>>>>} ELSE {})       \* <<input batch, band batch>>
PureMethods == {"dense", "direct", "fft"}
IllegalMethods == {"overlap_add", "bogus"}

Cfg(n, K, m, f, b) == [n |-> n, K |-> K, method |-> m, fft |-> f, xs |-> b[1], bs |-> b[2]]

Configs ==
  \* accepted by the property
  {Cfg(n, K, m, None, b) : n \in 1..NMax, K \in 1..KMax, m \in PureMethods, b \in Batches}
  \cup UNION {{Cfg(n, K, "overlap_save", f, b) : f \in {None} \cup ((2 * K - 1)..FMax)} :
                n \in 1..NMax, K \in 1..KMax, b \in Batches}
  \* rejected by the property
  \cup {Cfg(n, K, m, f, b) : n \in ErrN, K \in 1..KMax, m \in IllegalMethods, f \in {None, FMax}, b \in Batches}
  \cup UNION {{Cfg(n, K, m, f, b) : f \in {2 * K - 1, FMax}} :
                n \in ErrN, K \in 1..KMax, m \in PureMethods, b \in Batches}
  \cup UNION {{Cfg(n, K, "overlap_save", f, b) : f \in 0..(2 * K - 2)} :
                n \in ErrN, K \in 1..KMax, b \in Batches}

-----------------------------------------------------------------------------
(* probes *)
Rot(k, q, m) == ((k - 1 + q) % m) + 1
BasisB(K, k, q) == ScaleSeq(q + 1, Unit(K, Rot(k, q, K)))            \* band row q (0-based)
BasisX(n, j, r) == ScaleSeq(2 * r + 1, Unit(n, Rot(j, r, n)))        \* input row r (0-based)
Tri(j) == (j * (j + 1)) \div 2
D1B(K, q) == TLCEval([i \in 1..K |-> (K + 2 - i) * (q + 2) + (i % 2)])
D1X(n, r) == TLCEval([j \in 1..n |-> (IF j % 2 = 0 THEN -Tri(j) ELSE Tri(j)) + r])
D2B(K, q) == TLCEval([i \in 1..K |-> i * i + 3 * q - 2 * (i % 3)])
D2X(n, r) == TLCEval([j \in 1..n |-> (n + 1 - j) * ((j % 3) + 1) - 2 + r])

Rows(shape, G(_)) == TLCEval([r \in 1..SizeOf(shape) |-> G(r - 1)])
NProbes(c) == c.K * c.n + 2
\* band rows / input rows of probe p: basis probes first (p = (k - 1) * n + j), then the two integer probes
ProbeB(c, p) ==
  IF p <= c.K * c.n THEN Rows(c.bs, LAMBDA q : BasisB(c.K, ((p - 1) \div c.n) + 1, q))
  ELSE IF p = c.K * c.n + 1 THEN Rows(c.bs, LAMBDA q : D1B(c.K, q))
  ELSE Rows(c.bs, LAMBDA q : D2B(c.K, q))
ProbeX(c, p) ==
  IF p <= c.K * c.n THEN Rows(c.xs, LAMBDA r : BasisX(c.n, ((p - 1) % c.n) + 1, r))
  ELSE IF p = c.K * c.n + 1 THEN Rows(c.xs, LAMBDA r : D1X(c.n, r))
  ELSE Rows(c.xs, LAMBDA r : D2X(c.n, r))
\* probes whose band values are pairwise different: e_1..e_K (j = 1) and the two integer bands
BandProbes(c) == {(k - 1) * c.n + 1 : k \in 1..c.K} \cup {c.K * c.n + 1, c.K * c.n + 2}

NOut(c) == SizeOf(OutBatch(c.xs, c.bs))
XSel(c, q) == XRowOf(q - 1, c.xs, c.bs)      \* which input row / band row feeds output row q
BSel(c, q) == BRowOf(q - 1, c.xs, c.bs)
Ref(c) == RefCtor(c.method, c.fft, c.K)
P == OSParams(cfg.n, cfg.K, F)

-----------------------------------------------------------------------------
Init == /\ phase = "new" /\ cfg \in Configs
        /\ ctor = [v |-> "none", why |-> "", F |-> None] /\ F = None /\ ib = 0
        /\ ys = <<>> /\ outs = <<>> /\ clamped = FALSE /\ cover = <<>>

\* __init__.  The algorithm is then run for every configuration the PROPERTY admits, with the FFT
\* size resolved by the constructor (CtorComplete: the constructor accepts all of them).
Construct ==
  /\ phase = "new"
  /\ ctor' = ImplCtor(cfg.method, cfg.fft, cfg.K)
  /\ F' = IF ctor'.v = "ok" THEN ctor'.F ELSE cfg.fft
  /\ phase' = IF Ref(cfg) = "ok" THEN "ready" ELSE "done"
  /\ UNCHANGED <<cfg, ib, ys, outs, clamped, cover>>

\* mv for dense / direct / fft
ApplyPure ==
  /\ phase = "ready" /\ cfg.method \in PureMethods
  /\ outs' = [p \in 1..NProbes(cfg) |->
                ApplyBatched(cfg.method, F, cfg.xs, cfg.bs, ProbeX(cfg, p), ProbeB(cfg, p))]
  /\ phase' = "done"
  /\ UNCHANGED <<cfg, ctor, F, ib, ys, clamped, cover>>

\* _apply_overlap_save up to the loop: y = jnp.zeros(l + x_padding_end)
OSStart ==
  /\ phase = "ready" /\ cfg.method = "overlap_save"
  /\ ys' = [p \in 1..NProbes(cfg) |-> [q \in 1..NOut(cfg) |-> Zeros(P.ylen)]]
  /\ cover' = Zeros(P.ylen)
  /\ ib' = 0 /\ phase' = "loop"
  /\ UNCHANGED <<cfg, ctor, F, outs, clamped>>

\* one iteration of lax.fori_loop(0, nblock, func, y)
OSStep ==
  /\ phase = "loop" /\ ib < P.nblock
  /\ ys' = [p \in 1..NProbes(cfg) |->
              LET px == ProbeX(cfg, p)
                  pb == ProbeB(cfg, p)
                  par == P
              IN [q \in 1..NOut(cfg) |->
                    OSBlock(ys[p][q], OSPadded(px[XSel(cfg, q)], par), OSKernelF(pb[BSel(cfg, q)], F), F, par, ib)]]
  /\ clamped' = (clamped \/ OSClamps(P, F, ib))
  /\ cover' = LET st == DynStart(ib * P.step, P.step, P.ylen)
              IN [i \in 1..P.ylen |-> cover[i] + (IF i > st /\ i <= st + P.step THEN 1 ELSE 0)]
  /\ ib' = ib + 1
  /\ UNCHANGED <<phase, cfg, ctor, F, outs>>

\* return y[half_band_width : half_band_width + l]
OSEnd ==
  /\ phase = "loop" /\ ib = P.nblock
  /\ outs' = [p \in 1..NProbes(cfg) |-> [q \in 1..NOut(cfg) |-> OSFinal(ys[p][q], P, cfg.n)]]
  /\ phase' = "done"
  /\ UNCHANGED <<cfg, ctor, F, ib, ys, clamped, cover>>

Next == Construct \/ ApplyPure \/ OSStart \/ OSStep \/ OSEnd
Spec == Init /\ [][Next]_vars

-----------------------------------------------------------------------------
(* invariants *)
RefOuts(c, p) == RefBatched(c.xs, c.bs, ProbeX(c, p), ProbeB(c, p))

\* the quantifier of the property: the band values broadcast to the input shape
InDomain == Compatible(cfg.xs, cfg.bs) /\ OutBatch(cfg.xs, cfg.bs) = cfg.xs

\* each method = T x on every probe, row by row
MethodsAgree ==
  (phase = "done" /\ Ref(cfg) = "ok") => \A p \in 1..NProbes(cfg) : outs[p] = RefOuts(cfg, p)

\* the stepped loop is the loop of the functional transcription
SteppedIsLoop ==
  (phase = "done" /\ Ref(cfg) = "ok" /\ cfg.method = "overlap_save") =>
     \A p \in {1, NProbes(cfg)} :
        outs[p] = ApplyBatched("overlap_save", F, cfg.xs, cfg.bs, ProbeX(cfg, p), ProbeB(cfg, p))

\* constructor: never accepts what the property rejects (CtorSound); accepts every admissible
\* configuration, i.e. every fft_size >= 2K-1 with K the LAST axis, also for batched band values
\* (CtorComplete); hence the verdict is exactly the reference verdict
CtorSound == (phase # "new" /\ ctor.v = "ok") => Ref(cfg) = "ok"
CtorComplete == (phase # "new" /\ Ref(cfg) = "ok") => ctor.v = "ok"
CtorExact == phase # "new" => ctor.v = Ref(cfg)
FftSizeAdmissible ==
  (phase \in {"ready", "loop"} /\ cfg.method = "overlap_save") =>
     /\ F >= 2 * cfg.K - 1 /\ P.step >= 1
     /\ (cfg.fft = None => F = Pow2(1 + CeilLog2(2 * cfg.K - 1))) /\ (cfg.fft # None => F = cfg.fft)

\* loop invariants of overlap_save
LoopLenY ==
  phase = "loop" =>
     /\ P.ylen = cfg.n + P.pad_end /\ P.ylen = P.nblock * P.step /\ P.pad_end >= 0
     /\ Len(OSPadded(Zeros(cfg.n), P)) = P.total
     /\ \A p \in 1..NProbes(cfg), q \in 1..NOut(cfg) : Len(ys[p][q]) = P.ylen
NoClamp == ~clamped
BlocksTile ==
  phase = "loop" => cover = [i \in 1..P.ylen |-> IF i <= ib * P.step THEN 1 ELSE 0]
\* after ib blocks, the first ib * step entries of y are the linear convolution, the rest is untouched
PrefixCorrect ==
  phase = "loop" =>
     \A p \in 1..NProbes(cfg) :
        LET px == ProbeX(cfg, p)
            pb == ProbeB(cfg, p)
            par == P
        IN \A q \in 1..NOut(cfg) :
             LET xpad == OSPadded(px[XSel(cfg, q)], par)
                 kernel == Kernel(pb[BSel(cfg, q)])
             IN ys[p][q] = [i \in 1..par.ylen |->
                              IF i <= ib * par.step THEN OSExpectY(xpad, kernel, i - 1) ELSE 0]
\* the final Python slice is not truncated
FinalSliceInRange == phase = "loop" => P.half + cfg.n <= P.ylen

\* as_matrix = block diagonal of the reference matrices, symmetric; the flat scatter drops exactly
\* the indices of the bands that do not fit (as_matrix does not depend on the method: checked once)
AsMatrixOK ==
  (phase = "done" /\ cfg.method = "dense") =>
     \A p \in BandProbes(cfg) :
        LET M == AsMatrixImpl(cfg.n, cfg.xs, cfg.bs, ProbeB(cfg, p))
        IN /\ M = RefMatrix(cfg.n, cfg.xs, cfg.bs, ProbeB(cfg, p))
           /\ M = Transpose(M)
RefSymmetric ==
  phase = "done" =>
     LET M == RefMatrix(cfg.n, cfg.xs, cfg.bs, ProbeB(cfg, NProbes(cfg))) IN M = Transpose(M)
ScatterDropsOnlyOutside ==
  (phase = "done" /\ cfg.method = "dense") =>
     \A jk \in DenseDropped(cfg.n, ProbeB(cfg, NProbes(cfg))[1]) : jk[1] < 0 \/ jk[1] >= cfg.n

\* dtype flow of the transcription: output dtype = input dtype for all four methods in all modes
\* (band values and input of the same dtype)
DtypeFlow ==
  \A md \in DtModes :
     cfg.method \in Methods => ImplOutDtype(cfg.method, md[1], md[1], md[2]) = RefOutDtype(md[1])

InQuantifier == InDomain

Emit ==
  phase = "done" =>
    PrintT(<<"CASE", ToJson(
      [n |-> cfg.n, K |-> cfg.K, method |-> cfg.method, fft |-> cfg.fft, xs |-> cfg.xs, bs |-> cfg.bs,
       ref |-> Ref(cfg), impl |-> ctor.v, why |-> ctor.why, F |-> F,
       nblock |-> IF Ref(cfg) = "ok" /\ cfg.method = "overlap_save" THEN P.nblock ELSE 0,
       probes |-> IF Ref(cfg) = "ok"
                  THEN [p \in 1..NProbes(cfg) |-> [b |-> ProbeB(cfg, p), x |-> ProbeX(cfg, p), y |-> RefOuts(cfg, p)]]
                  ELSE <<>>,
       mat |-> IF Ref(cfg) = "ok"
               THEN RefMatrix(cfg.n, cfg.xs, cfg.bs, ProbeB(cfg, NProbes(cfg) - 1)) ELSE <<>>,
       dt |-> [f32_off |-> ImplOutDtype(cfg.method, "f32", "f32", FALSE),
               f32_on |-> ImplOutDtype(cfg.method, "f32", "f32", TRUE),
               f64_on |-> ImplOutDtype(cfg.method, "f64", "f64", TRUE)]])>>)
=============================================================================
