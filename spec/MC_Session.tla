------------------------------ MODULE MC_Session ------------------------------
(***************************************************************************)
(* The top-level system: a session of API calls on a heap of operator      *)
(* objects.  State = the heap (what the code is designed to have built,    *)
(* as terms of FxTerms) next to the ghost meaning of every object (exact   *)
(* matrices obtained by plain matrix arithmetic, or "refused").            *)
(* Actions = the public operations: create an operand, a @ b, a + b,       *)
(* a - b, -a, k * a, a.T, a.I, a.reduce().  The invariant ties the two     *)
(* together in every reachable state, i.e. for every history of calls in   *)
(* the bound (C01, C02, C03, C06 on arbitrary interleavings of arithmetic, *)
(* transposition, inversion and reduction).  Every history is emitted and  *)
(* replayed on the real library (harness/c02.py, sessions).                *)
(***************************************************************************)
EXTENDS FxSigma, FxViews, Json

CONSTANTS Operands,   \* atom names that may be put on the heap
          MaxAtoms,   \* number of operands created first
          MaxOps      \* number of derived objects

VARIABLES heap, meaning, hist
vars == <<heap, meaning, hist>>

ErrM == [r |-> -1, c |-> -1, d |-> 1, e |-> <<>>]
IsErrM(m) == m.r = -1
Ev(op, i, j) == [op |-> op, i |-> i, j |-> j]

NAtoms == Len(SelectSeq(hist, LAMBDA e : e.op = "new"))
NOps == Len(hist) - NAtoms

Init == heap = <<>> /\ meaning = <<>> /\ hist = <<>>

New(n) == /\ NOps = 0 /\ NAtoms < MaxAtoms
          /\ heap' = Append(heap, AtomTable[n]) /\ meaning' = Append(meaning, Den(AtomTable[n]))
          /\ hist' = Append(hist, [op |-> "new", i |-> 0, j |-> 0, n |-> n])

Push(t, m, e) == /\ heap' = Append(heap, t) /\ meaning' = Append(meaning, m)
                 /\ hist' = Append(hist, [op |-> e.op, i |-> e.i, j |-> e.j, n |-> ""])

Usable(i) == i \in 1..Len(heap) /\ ~IsErr(heap[i])
CanOp == NAtoms >= 1 /\ NOps < MaxOps

Bin(op, i, j) ==
  /\ CanOp /\ Usable(i) /\ Usable(j) /\ op \in {"matmul", "add", "sub"}
  /\ LET a == heap[i] b == heap[j]
         t == CASE op = "matmul" -> MatMulT(a, b) [] op = "add" -> AddOp(a, b) [] op = "sub" -> SubOp(a, b)
         m == CASE op = "matmul" -> IF InS(a) # OutS(b) THEN ErrM ELSE MatMul(meaning[i], meaning[j])
                [] op = "add" -> IF ~StructsAgree(a, b) THEN ErrM ELSE MatAdd(meaning[i], meaning[j])
                [] op = "sub" -> IF ~StructsAgree(a, b) THEN ErrM ELSE MatAdd(meaning[i], MatNeg(meaning[j]))
     IN Push(t, m, Ev(op, i, j))

\* lazy inverses are only claimed for small symmetric positive-definite operators; their transposes are
\* not supported by the library
RECURSIVE AdmissibleT(_)
AdmissibleT(t) ==
  /\ \A k \in 1..Len(t.ch) : AdmissibleT(t.ch[k])
  /\ (t.k = "inv" => SmallSPD(Den(t.ch[1])))
  /\ (t.k = "T" => SolverFree(t.ch[1]))

Un(op, i) ==
  /\ CanOp /\ Usable(i) /\ op \in {"neg", "scale", "T", "I", "reduce"}
  /\ LET a == heap[i] IN
     CASE op = "neg" -> Push(NegOp(a), MatNeg(meaning[i]), Ev(op, i, 0))
       [] op = "scale" -> Push(ScaleOp(-3, 2, a), MatScale(-3, 2, meaning[i]), Ev(op, i, 0))
       [] op = "T" -> /\ SolverFree(a) /\ Push(Transpose(a), MatT(meaning[i]), Ev(op, i, 0))
       [] op = "reduce" -> Push(Reduce(a), meaning[i], Ev(op, i, 0))
       [] op = "I" ->
            IF InS(a) # OutS(a) /\ a.k # "mvax" THEN Push(ErrT, ErrM, Ev(op, i, 0))
            ELSE /\ NoZeroDiag(a) /\ AdmissibleT(Inverse(a))
                 /\ (SolverFree(Inverse(a)) \/ SmallSPD(meaning[i]))
                 /\ Push(Inverse(a), IF SolverFree(Inverse(a)) THEN Den(Inverse(a)) ELSE MatInv(meaning[i]),
                         Ev(op, i, 0))

Next == \/ \E n \in Operands : New(n)
        \/ \E op \in {"matmul", "add", "sub"}, i, j \in 1..(MaxAtoms + MaxOps) : Bin(op, i, j)
        \/ \E op \in {"neg", "scale", "T", "I", "reduce"}, i \in 1..(MaxAtoms + MaxOps) : Un(op, i)

-----------------------------------------------------------------------------
\* every object on the heap denotes its ghost meaning; refused exactly when the mathematics refuses
HeapMeaning == \A o \in 1..Len(heap) :
                 /\ IsErr(heap[o]) <=> IsErrM(meaning[o])
                 /\ ~IsErr(heap[o]) => Den(heap[o]) = meaning[o]
HeapSizes == \A o \in 1..Len(heap) :
               ~IsErr(heap[o]) => meaning[o].r = SizeS(OutS(heap[o])) /\ meaning[o].c = SizeS(InS(heap[o]))
\* as_matrix() of every object (class-specific overrides) is its meaning
HeapAsMatrix == \A o \in 1..Len(heap) : ~IsErr(heap[o]) => AsMatrix(heap[o]) = meaning[o]
\* a closed-form inverse really inverts (two-sided)
InversesInvert == \A o \in 1..Len(heap) :
                    (hist[o].op = "I" /\ ~IsErr(heap[o]) /\ SolverFree(heap[o])) =>
                       MatMul(meaning[o], meaning[hist[o].i]) = IdentityMat(meaning[o].r)
\* reduce() results are in normal form
ReducedNormal == \A o \in 1..Len(heap) :
                   (hist[o].op = "reduce" /\ ~IsErr(heap[o])) => NormalChain(ChainOf(heap[o]))

Emit == (NOps >= 1) =>
  PrintT(<<"CASE", ToJson([hist |-> hist, last |-> heap[Len(heap)],
                           err |-> IsErrM(meaning[Len(meaning)]),
                           den |-> IF IsErrM(meaning[Len(meaning)]) THEN ZeroMat(0, 0) ELSE meaning[Len(meaning)],
                           atoms |-> [k \in 1..NAtoms |-> heap[k]],
                           \* every object must still denote its meaning after the whole history (no aliasing / mutation)
                           dens |-> [k \in 1..Len(heap) |-> IF IsErrM(meaning[k]) THEN ZeroMat(0, 0) ELSE meaning[k]],
                           errs |-> [k \in 1..Len(heap) |-> IsErrM(meaning[k])] ])>>)
=============================================================================
