------------------------------ MODULE MC_Axes ------------------------------
(***************************************************************************)
(* C13 at design level.  A configuration (operator class, pytree of leaf   *)
(* shapes, constructor arguments) is picked by three actions; then the     *)
(* constructor of axes.py runs (its per-leaf validation loop is one action *)
(* per iteration), then out_structure()/mv/transpose().mv run leaf by leaf *)
(* (one action per leaf: tree.map).  Invariants compare the transcribed    *)
(* implementation (FxAxes part 2) with the NumPy reference (FxAxes part 1) *)
(* at every loop head and at the end; every terminal state is emitted.     *)
(*                                                                         *)
(* kinds                                                                   *)
(*   "move"     MoveAxisOperator(a, b)          a = source, b = destination*)
(*              form "int": bare integers are given to the constructor     *)
(*   "ravel"    RavelOperator(a[1], b[1])       form "default": no argument*)
(*   "reshape"  ReshapeOperator(a)                                         *)
(*   "movepair" L @ R with R = MoveAxis(a[1], a[2]) on the leaf and        *)
(*              L = MoveAxis(b[1], b[2]) on R's output (MoveAxisInverseRule)*)
(*   "cross"    B.T @ A with A = Ravel() on leaves[1], B = Ravel() on      *)
(*              leaves[2], two distinct objects with equal output          *)
(*              structure, and A @ C.T with C = Reshape(leaves[2]) on      *)
(*              leaves[1], two distinct objects with equal input structure *)
(*              (ReshapeInverseRule must not fire on either)               *)
(***************************************************************************)
EXTENDS FxAxes, Json

CONSTANTS MaxRank, MaxDim,   \* leaf shapes: rank 1..MaxRank, dimensions 1..MaxDim
          AxNeg, AxHi,       \* axis arguments range over -AxNeg..AxHi
          Kinds,             \* kinds explored by this run
          MatMax             \* dense-matrix form of the inverse law is evaluated for leaves up to this size

VARIABLES phase, kind, leaves, args, li, cerr, fwd, bwd,
          ref     \* the reference outcome per leaf, computed once when the configuration is complete
vars == <<phase, kind, leaves, args, li, cerr, fwd, bwd, ref>>

Ax == (-AxNeg)..AxHi
LeafShapes == UNION {[1..r -> 1..MaxDim] : r \in 1..MaxRank}
\* pytrees with two leaves (a list): different ranks, equal ranks with different shapes,
\* equal sizes (a common target shape exists), the examples of the class documentation
TwoLeaf == { <<<<2>>, <<2, 3>>>>, <<<<2, 3>>, <<3>>>>, <<<<3>>, <<1, 2, 3>>>>, <<<<2, 3, 2>>, <<2>>>>,
             <<<<2, 3>>, <<2, 3, 2>>>>, <<<<3, 2, 1>>, <<3, 2>>>>, <<<<2, 2>>, <<2, 2, 3>>>>,
             <<<<2, 2, 3>>, <<2, 3>>>>, <<<<2, 3>>, <<3, 2>>>>, <<<<3>>, <<3, 1>>>>, <<<<1, 2>>, <<2>>>>,
             <<<<2, 3, 1>>, <<2, 3>>>> }
PairShapes == {<<2, 3>>, <<3, 1, 2>>}

A(a, b, form) == [a |-> a, b |-> b, form |-> form]
AxisTuples == {<<x>> : x \in Ax} \cup {<<x, y>> : x \in Ax, y \in Ax}
MoveArgs == {A(s, d, "tuple") : s \in AxisTuples, d \in AxisTuples}
              \cup {A(<<x>>, <<y>>, "int") : x \in Ax, y \in Ax}
RavelArgs == {A(<<f>>, <<l>>, "") : f \in Ax, l \in Ax} \cup {A(<<0>>, <<-1>>, "default")}
Divisors(n) == {d \in 1..n : n % d = 0}
\* every divisor of the size, the unknown dimension, a negative size, zero, a non-divisor
TargetVals(n) == Divisors(n) \cup {-2, -1, 0, 5}
Targets(n) == UNION {[1..k -> TargetVals(n)] : k \in 0..3}
ReshapeArgs(ls) == {A(t, <<>>, "") : t \in Targets(ProdSeq(ls[1]))}
PairArgs(sh) == LET R == (-Len(sh))..(Len(sh) - 1)
                IN {A(<<s, d>>, <<s2, d2>>, "") : s \in R, d \in R, s2 \in R, d2 \in R}

CrossStructs == {ls \in {<<x, y>> : x \in LeafShapes, y \in LeafShapes} : ProdSeq(ls[1]) = ProdSeq(ls[2])}
StructsFor(k) ==
  CASE k \in {"move", "ravel", "reshape"} -> {<<sh>> : sh \in LeafShapes} \cup TwoLeaf
    [] k = "movepair" -> {<<sh>> : sh \in PairShapes}
    [] k = "cross" -> CrossStructs
ArgsFor(k, ls) ==
  CASE k = "move" -> MoveArgs
    [] k = "ravel" -> RavelArgs
    [] k = "reshape" -> ReshapeArgs(ls)
    [] k = "movepair" -> PairArgs(ls[1])
    [] k = "cross" -> {A(<<>>, <<>>, "")}

Single == kind \in {"move", "ravel", "reshape"}
First == args.a[1]
Last == args.b[1]

-----------------------------------------------------------------------------
Init == /\ phase = "kind" /\ kind = "" /\ leaves = <<>> /\ args = A(<<>>, <<>>, "")
        /\ li = 0 /\ cerr = FALSE /\ fwd = <<>> /\ bwd = <<>> /\ ref = <<>>

PickKind(k) == /\ phase = "kind" /\ kind' = k /\ phase' = "leaves"
               /\ UNCHANGED <<leaves, args, li, cerr, fwd, bwd, ref>>
PickLeaves(ls) == /\ leaves' = ls /\ phase' = "args"
                  /\ UNCHANGED <<kind, args, li, cerr, fwd, bwd, ref>>
RefLeafOf(k, sh, a) == CASE k = "move" -> RefMoveLeaf(sh, a.a, a.b)
                         [] k = "ravel" -> RefRavelLeaf(sh, a.a[1], a.b[1])
                         [] k = "reshape" -> RefReshapeLeaf(sh, a.a)
PickArgs(a) == /\ args' = a /\ phase' = "ctor" /\ li' = 0
               /\ ref' = IF Single THEN [i \in 1..Len(leaves) |-> RefLeafOf(kind, leaves[i], a)] ELSE <<>>
               /\ UNCHANGED <<kind, leaves, cerr, fwd, bwd>>

(* __init__ up to the per-leaf loop *)
CtorEnter ==
  /\ phase = "ctor" /\ li = 0
  /\ IF kind = "ravel" THEN
        IF ImplRavelCtorSameSign(First, Last) THEN cerr' = TRUE /\ phase' = "done" /\ li' = 0
        ELSE IF ImplRavelMixed(First, Last) THEN li' = 1 /\ UNCHANGED <<cerr, phase>>
        ELSE phase' = "apply" /\ li' = 1 /\ UNCHANGED cerr
     ELSE IF kind = "reshape" THEN li' = 1 /\ UNCHANGED <<cerr, phase>>
     ELSE phase' = "apply" /\ li' = 1 /\ UNCHANGED cerr       \* MoveAxisOperator validates nothing
  /\ UNCHANGED <<kind, leaves, args, fwd, bwd, ref>>

(* for leaf in jax.tree.leaves(in_structure): ... raise *)
CtorLeafRaises(sh) == IF kind = "ravel" THEN ImplRavelCtorLeafRaises(sh, First, Last)
                      ELSE ImplCheckShapeLeafRaises(args.a, sh)
CtorLeaf ==
  /\ phase = "ctor" /\ li >= 1
  /\ IF li > Len(leaves) THEN phase' = "apply" /\ li' = 1 /\ UNCHANGED cerr
     ELSE IF CtorLeafRaises(leaves[li]) THEN cerr' = TRUE /\ phase' = "done" /\ li' = li
     ELSE li' = li + 1 /\ UNCHANGED <<cerr, phase>>
  /\ UNCHANGED <<kind, leaves, args, fwd, bwd, ref>>

(* out_structure() = eval_shape(mv): tree.map over the leaves; the transposed operator on the output leaf *)
ImplMvLeaf(sh) == CASE kind = "move" -> ImplMoveMvLeaf(sh, args.a, args.b)
                    [] kind = "ravel" -> ImplRavelMvLeaf(sh, First, Last)
                    [] kind = "reshape" -> ImplReshapeMvLeaf(sh, args.a)
ImplTLeaf(outsh, insh) == IF kind = "move" THEN ImplMoveTLeaf(outsh, args.a, args.b)
                          ELSE ImplReshapeTLeaf(outsh, insh)
ApplyLeaf ==
  /\ phase = "apply" /\ Single /\ li <= Len(leaves)
  /\ LET r == ImplMvLeaf(leaves[li])
     IN /\ fwd' = Append(fwd, r)
        /\ IF r.err THEN phase' = "done" /\ UNCHANGED <<li, bwd>>
           ELSE bwd' = Append(bwd, ImplTLeaf(r.sh, leaves[li])) /\ li' = li + 1 /\ UNCHANGED phase
  /\ UNCHANGED <<kind, leaves, args, cerr, ref>>
ApplyEnd ==
  /\ phase = "apply" /\ Single /\ li > Len(leaves)
  /\ phase' = "done" /\ UNCHANGED <<kind, leaves, args, li, cerr, fwd, bwd, ref>>
ApplyPair ==
  /\ phase = "apply" /\ ~Single
  /\ IF kind = "movepair"
     THEN LET r == JnpMoveaxis(leaves[1], <<args.a[1]>>, <<args.a[2]>>)
          IN fwd' = <<r>> /\ bwd' = <<JnpMoveaxis(r.sh, <<args.b[1]>>, <<args.b[2]>>)>>
     ELSE LET r == ImplRavelMvLeaf(leaves[1], 0, -1)
          IN fwd' = <<r>> /\ bwd' = <<ImplReshapeTLeaf(r.sh, leaves[2])>>
  /\ phase' = "done" /\ UNCHANGED <<kind, leaves, args, li, cerr, ref>>

Next == \/ \E k \in Kinds : PickKind(k)
        \/ (phase = "leaves" /\ \E ls \in StructsFor(kind) : PickLeaves(ls))
        \/ (phase = "args" /\ \E a \in ArgsFor(kind, leaves) : PickArgs(a))
        \/ CtorEnter \/ CtorLeaf \/ ApplyLeaf \/ ApplyEnd \/ ApplyPair
Spec == Init /\ [][Next]_vars

-----------------------------------------------------------------------------
Done == phase = "done"
N(i) == ProdSeq(leaves[i])
Ref == ref
RefErr == \E i \in 1..Len(ref) : ref[i].err
ImplErr == cerr \/ \E i \in 1..Len(fwd) : fwd[i].err

(* The two classes of illegal arguments the implementation is known to let *)
(* through (DESIGN.md O11 and the repeated destination of jnp.moveaxis):   *)
(* stated on the arguments alone.                                          *)
RepeatedDestination(sh) ==
  LET nd == Len(sh)
  IN /\ kind = "move" /\ Len(args.a) = Len(args.b)
     /\ \A i \in 1..Len(args.a) : NpAxisOK(args.a[i], nd) /\ NpAxisOK(args.b[i], nd)
     /\ Distinct(NpNormAll(args.a, nd)) /\ ~Distinct(NpNormAll(args.b, nd))
AxisOutOfRange(sh) == kind = "ravel" /\ (~NpAxisOK(First, Len(sh)) \/ ~NpAxisOK(Last, Len(sh)))
Leaky(sh) == RepeatedDestination(sh) \/ AxisOutOfRange(sh)
Diverges == RefErr /\ ~ImplErr
DivClass == IF ~Diverges THEN ""
            ELSE IF kind = "move" THEN "repeated_destination"
            ELSE IF kind = "ravel" THEN "out_of_range" ELSE "unexpected"

TypeOK == /\ phase \in {"kind", "leaves", "args", "ctor", "apply", "done"}
          /\ kind \in Kinds \cup {""}
          /\ li \in 0..3 /\ cerr \in BOOLEAN
          /\ Len(fwd) <= Len(leaves) /\ Len(bwd) <= Len(fwd)

(* loop invariant of the validation loop: the leaves already passed can take the arguments, unless the *)
(* arguments are of a leaky class for that leaf *)
CtorLoopInv == (phase = "ctor" /\ li >= 1) =>
  \A i \in 1..Min2(li - 1, Len(leaves)) : ref[i].err => Leaky(leaves[i])

(* loop invariant of tree.map: every processed leaf is relabelled as the reference says, and the transposed *)
(* operator brings it back *)
ApplyLoopInv == (phase = "apply" /\ Single) =>
  /\ Len(fwd) = li - 1 /\ Len(bwd) = li - 1
  /\ \A i \in 1..(li - 1) :
        /\ ~fwd[i].err
        /\ IF ref[i].err THEN Leaky(leaves[i]) ELSE fwd[i] = ref[i]

(* transcription = reference: rejected only if some leaf cannot take the arguments; accepted illegal       *)
(* arguments are exactly of the leaky classes; otherwise same shapes and same element maps                  *)
Agreement == (Done /\ Single) =>
  /\ ImplErr => RefErr
  /\ Diverges => \A i \in 1..Len(leaves) : ref[i].err => Leaky(leaves[i])
  /\ ~RefErr => /\ Len(fwd) = Len(leaves)
                /\ \A i \in 1..Len(leaves) : fwd[i] = ref[i]

(* Error exactly when some leaf cannot take the arguments (outside the leaky classes) *)
ErrorExactly == (Done /\ Single /\ \A i \in 1..Len(leaves) : ~Leaky(leaves[i])) => (ImplErr <=> RefErr)

(* ravel / reshape reject at construction, never later *)
AtConstruction == (Done /\ kind \in {"ravel", "reshape"} /\ ImplErr) => cerr
(* move-axis validates at first use only *)
MoveIsLazy == (Done /\ kind = "move") => ~cerr

(* every accepted operator is a relabelling: a bijection of the flat indices of each leaf *)
Relabelling == (Done /\ Single /\ ~ImplErr) =>
  \A i \in 1..Len(leaves) : IsPermOf(fwd[i].p, N(i)) /\ ProdSeq(fwd[i].sh) = N(i)

(* the transpose is the inverse: Den(T) . Den = I and Den . Den(T) = I, leaf by leaf *)
TransposeInverts == (Done /\ Single /\ ~ImplErr /\ (kind = "move" => ~RefErr)) =>
  \A i \in 1..Len(leaves) :
     /\ ~bwd[i].err /\ bwd[i].sh = leaves[i]
     /\ PermAfter(bwd[i].p, fwd[i].p) = IdPerm(N(i))
     /\ PermAfter(fwd[i].p, bwd[i].p) = IdPerm(N(i))
MatrixForm == (Done /\ Single /\ ~ImplErr /\ ~RefErr) =>
  \A i \in 1..Len(leaves) : N(i) <= MatMax =>
     /\ MatMul(PermMat(bwd[i].p), PermMat(fwd[i].p)) = IdentityMat(N(i))
     /\ PermMat(bwd[i].p) = MatT(PermMat(fwd[i].p))

(* reduce(): identity iff EVERY leaf keeps its shape, and then the operator is the identity map *)
OutShapes == [i \in 1..Len(fwd) |-> fwd[i].sh]
ReduceId == kind \in {"ravel", "reshape"} /\ ~ImplErr /\ ImplReduceIsIdentity(leaves, OutShapes)
ReduceCond == (Done /\ kind \in {"ravel", "reshape"} /\ ~ImplErr) =>
  /\ ReduceId <=> \A i \in 1..Len(leaves) : fwd[i].sh = leaves[i]
  /\ ReduceId => \A i \in 1..Len(leaves) : fwd[i].p = IdPerm(N(i))

(* inverse-pair rules: whenever the transcribed rule fires on a well-typed pair, the product is the identity *)
Fires == CASE kind = "movepair" -> ImplMoveRuleFires(<<args.b[1]>>, <<args.b[2]>>, <<args.a[1]>>, <<args.a[2]>>)
           [] kind = "cross" -> ImplReshapeRuleFires(2, 1)
           [] kind = "move" -> ImplMoveRuleFires(args.b, args.a, args.a, args.b)
           [] OTHER -> ImplReshapeRuleFires(1, 1)
Composite == PermAfter(bwd[1].p, fwd[1].p)
RuleSound == (Done /\ ~Single) =>
  /\ ~fwd[1].err /\ ~bwd[1].err
  /\ Fires => bwd[1].sh = leaves[1] /\ Composite = IdPerm(N(1))
\* second product of the "cross" kind: A @ C.T maps leaves[2] back to leaves[1], then flattens
Cross2 == LET back == ImplReshapeTLeaf(leaves[2], leaves[1])
          IN IF back.err \/ ImplCheckShapeLeafRaises(leaves[2], leaves[1]) THEN LeafErr
             ELSE LET r == ImplRavelMvLeaf(back.sh, 0, -1)
                  IN IF r.err THEN LeafErr ELSE LeafOk(r.sh, PermAfter(r.p, back.p))
CrossSound == (Done /\ kind = "cross") =>
  /\ ~Cross2.err /\ Cross2.sh = fwd[1].sh /\ Cross2.p = IdPerm(N(1))
  /\ bwd[1].sh = leaves[2] /\ Composite = IdPerm(N(1))
SelfPairFires == (Done /\ Single /\ ~ImplErr) => Fires

-----------------------------------------------------------------------------
Emit == Done =>
  PrintT(<<"CASE", ToJson(
    [kind |-> kind, leaves |-> leaves, a |-> args.a, b |-> args.b, form |-> args.form,
     err |-> IF Single THEN RefErr ELSE FALSE,
     implerr |-> ImplErr, cerr |-> cerr, div |-> IF Single THEN DivClass ELSE "",
     shapes |-> IF Single THEN (IF RefErr THEN <<>> ELSE [i \in 1..Len(leaves) |-> Ref[i].sh])
                ELSE <<bwd[1].sh>>,
     perms |-> IF Single THEN (IF RefErr THEN <<>> ELSE [i \in 1..Len(leaves) |-> Ref[i].p])
               ELSE <<Composite>>,
     ishapes |-> IF Single /\ Diverges THEN [i \in 1..Len(fwd) |-> fwd[i].sh] ELSE <<>>,
     iperms |-> IF Single /\ Diverges THEN [i \in 1..Len(fwd) |-> fwd[i].p] ELSE <<>>,
     mid |-> IF Single THEN <<>> ELSE fwd[1].sh,
     shapes2 |-> IF kind = "cross" THEN <<Cross2.sh>> ELSE <<>>,
     perms2 |-> IF kind = "cross" THEN <<Cross2.p>> ELSE <<>>,
     rid |-> ReduceId, fires |-> IF Single /\ ImplErr THEN FALSE ELSE Fires])>>)
=============================================================================
