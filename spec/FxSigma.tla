------------------------------- MODULE FxSigma -------------------------------
(***************************************************************************)
(* The alphabet of concrete operator objects used by the algebra models    *)
(* (C01-C08, C10, C15).  Every atom is a term with a fixed exact meaning   *)
(* and an object identity; wrappers (lazy inverses, transposes) share the  *)
(* identity of the object they wrap, as `X.I.operator is X` in the code.   *)
(* Parameter values are pairwise distinct small integers so that every     *)
(* matrix entry identifies where it came from; QU angles include odd       *)
(* multiples of pi/4 and the Pythagorean angle, so signs matter.           *)
(***************************************************************************)
EXTENDS FxAlgebra

v2 == LeafF(<<2>>)
v3 == LeafF(<<3>>)
v4 == LeafF(<<4>>)
v6 == LeafF(<<6>>)
m23 == LeafF(<<2, 3>>)
m32 == LeafF(<<3, 2>>)
QU2 == StokesS("QU", <<2>>, "f32")
IQU2 == StokesS("IQU", <<2>>, "f32")
IQUV2 == StokesS("IQUV", <<2>>, "f32")
I2 == StokesS("I", <<2>>, "f32")
L22 == ListS(<<v2, v2>>)

Dense(id, s, r, c, e) == Term("dense", id, s, <<r, c>> \o e, <<>>)

\* ---- v2 -> v2
A == Dense(1, v2, 2, 2, <<2, 1, 1, 3>>)            \* SPD
B == Dense(2, v2, 2, 2, <<3, -1, -1, 2>>)          \* SPD
C == Dense(3, v2, 2, 2, <<1, 2, 3, 4>>)            \* not symmetric
D == Term("diag", 4, v2, <<2, -3>>, <<>>)
D0 == Term("diag", 5, v2, <<2, 0>>, <<>>)
\* ---- v3 -> v3
Tz == Term("toep", 6, v3, <<3, 1>>, <<>>)          \* SPD tridiagonal
Tn == Term("toep", 53, v3, <<1, 2>>, <<>>)           \* symmetric, indefinite (eigenvalues 1 + 2 sqrt 2, 1, 1 - 2 sqrt 2)
D3 == Term("diag", 7, v3, <<2, 5, -1>>, <<>>)
\* ---- v2 <-> v3
G == Dense(8, v2, 3, 2, <<1, 2, 3, 4, 5, 6>>)      \* v2 -> v3
Pr == Term("index", 9, v2, <<0, 0, -1, 0>>, <<>>)  \* v2 -> v3, repeats and a negative alias
P == Term("index", 10, v3, <<1, 2, 0>>, <<>>)      \* v3 -> v2, unique
Pk == Term("pack", 11, v3, <<1, 0, 1>>, <<>>)      \* v3 -> v2
Pw == Term("index", 12, v2, <<0, -2, -1, 0, 1>>, <<>>)  \* v2 -> v4: more distinct raw values than n
\* ---- 2-d leaves
Mv == Term("mvax", 13, m23, <<0, 1>>, <<>>)        \* m23 -> m32
Mvi == Term("mvax", 14, m32, <<1, 0>>, <<>>)       \* m32 -> m23, built independently
Rs == Term("reshape", 15, m23, <<6>>, <<>>)        \* m23 -> v6
Rv == Term("ravel", 16, m23, <<0, -1>>, <<>>)      \* m23 -> v6
Rn == Term("reshape", 17, m23, <<2, -1>>, <<>>)    \* m23 -> m23: a no-op reshape
Bd == Term("bdiagb", 18, v3, <<2, 3, 1, 2, 3, 4, 5, 6>>, <<>>)   \* v3 -> m23
\* ---- Stokes
Rot(id, s, p) == Term("rot", id, s, p, <<>>)
R1 == Rot(19, QU2, <<1, 0>>)                       \* 2a = pi/2
R2 == Rot(20, QU2, <<0, 1>>)                       \* 2a = phi
R3 == Rot(21, QU2, <<3, 0, 0, -1>>)                \* one angle per element: 3pi/2 and -phi
Hw == Term("hwp", 22, QU2, <<>>, <<>>)
Pl == Term("pol", 23, QU2, <<>>, <<>>)             \* QU2 -> v2
R1i == Rot(24, IQU2, <<1, 1>>)
Hwi == Term("hwp", 25, IQU2, <<>>, <<>>)
Pli == Term("pol", 26, IQU2, <<>>, <<>>)
R1v == Rot(27, IQUV2, <<1, 0, 0, 1>>)
Hwv == Term("hwp", 28, IQUV2, <<>>, <<>>)
Plv == Term("pol", 29, IQUV2, <<>>, <<>>)
A2 == Dense(30, v2, 2, 2, <<2, 1, 1, 3>>)          \* same matrix as A, another object
m222 == LeafF(<<2, 2, 2>>)
Mc == Term("mvax", 31, m222, <<0, 1, 2, 1, 2, 0>>, <<>>)   \* cyclic shift of three axes of equal length (not an involution)
Mn == Term("mvax", 32, m222, <<-3, -1, -1, -2>>, <<>>)     \* two axes, negative positions
Dq == Term("diagq", 33, v2, <<1073741824, 1, -1>>, <<>>)   \* values 2^-30 and -2^-30 (9.3e-10): tiny non-zero entries
Dw == Term("diagq", 52, v2, <<4096, 1, 16777216>>, <<>>)   \* values 2^-12 and 2^12: a ratio of 1.7e7 (> 1 / float32 eps), both invertible
Dh == Term("diagq", 34, v3, <<2, 1, 2000000, 3>>, <<>>)         \* values 1/2, 10^6, 3/2

\* ---- pytree-structured spaces: L22 = [v2, v2] (also the structure of block containers over two v2 blocks)
OpL(i) == Leaf(<<i>>, "op")
List2 == ListS(<<OpL(1), OpL(2)>>)
Dl == Term("diag", 35, L22, <<5, -2>>, <<>>)                    \* one values array applied to both leaves
Prl == Term("index", 36, L22, <<0, 1, -2, 1>>, <<>>)            \* [v2, v2] -> [v3, v3], repeats and a negative alias
BDl == Term("bdiag", 37, List2, <<>>, <<A, D>>)                 \* L22 -> L22
BDi == Term("bdiag", 38, List2, <<>>, <<InvOf(A), DInvOf(D)>>)  \* its block-wise inverse, built independently
BRl == Term("brow", 39, List2, <<>>, <<A, B>>)                  \* L22 -> v2
BCl == Term("bcol", 40, List2, <<>>, <<B, D>>)                  \* v2 -> L22

\* the same two block operators over a tuple container: same leaves as BRl / BCl, another tree structure
Tuple2 == TupleS(<<OpL(1), OpL(2)>>)
BRt == Term("brow", 50, Tuple2, <<>>, <<A, B>>)                 \* (v2, v2) -> v3   (a tuple, where BRl takes a list)
BCt == Term("bcol", 51, Tuple2, <<>>, <<B, D>>)                 \* v2 -> (v3, v2)   (a tuple, where BCl returns a list)

\* ---- move-axis pairs that are NOT inverses although their argument tuples look alike
m234 == LeafF(<<2, 3, 4>>)
Lmix == ListS(<<m23, m222>>)                                    \* leaves of different rank
Mp == Term("mvax", 41, Lmix, <<0, -1>>, <<>>)                   \* axis 0 -> last: position 1 on the first leaf, 2 on the second
Mq == Term("mvax", 42, ListS(<<m32, m222>>), <<1, 0>>, <<>>)    \* undoes Mp on the first leaf only
Ma == Term("mvax", 43, m234, <<0, 1, 1, 2>>, <<>>)              \* (0,1) -> (1,2): (2,3,4) -> (4,2,3)
Mb == Term("mvax", 44, LeafF(<<4, 2, 3>>), <<2, 1, 0, 1>>, <<>>)   \* (2,1) -> (0,1): same axis sets as the inverse of Ma, pairing swapped

\* the TOAST observation matrix operator (square, sparse, not symmetric)
Ob == Term("obs", 45, v3, <<3, 3, 2, 0, 1, 0, 3, 0, -1, 4, 5>>, <<>>)

\* indexings that keep the shape without being the identity: a permutation and a repeated negative index
Pp == Term("index", 48, v2, <<1, 1, 0>>, <<>>)                    \* v2 -> v2, unique, not the identity
Pn == Term("index", 49, v2, <<0, -1, -1>>, <<>>)                  \* v2 -> v2, the last element twice

Inv(t) == InvOf(t)

\* named atoms: name -> term.  The names are only labels for humans and evidence.
AtomTable ==
  [ A |-> A, B |-> B, C |-> C, D |-> D, Tz |-> Tz, D3 |-> D3, G |-> G, Pr |-> Pr, P |-> P, Pk |-> Pk,
    Pw |-> Pw, Mv |-> Mv, Mvi |-> Mvi, Rs |-> Rs, Rv |-> Rv, Rn |-> Rn, Bd |-> Bd,
    R1 |-> R1, R2 |-> R2, R3 |-> R3, Hw |-> Hw, Pl |-> Pl, R1i |-> R1i, Hwi |-> Hwi, Pli |-> Pli,
    R1v |-> R1v, Hwv |-> Hwv, Plv |-> Plv, A2 |-> A2,
    AI |-> Inv(A), BI |-> Inv(B), DI |-> DInvOf(D), TzI |-> Inv(Tz),
    GT |-> Transpose(G), CT |-> Transpose(C), PrT |-> TOf(Pr), PT |-> TOf(P), PkT |-> TOf(Pk), PwT |-> TOf(Pw),
    MvT |-> Transpose(Mv), RsT |-> RTOf(Rs), RvT |-> RTOf(Rv), BdT |-> TOf(Bd),
    R1T |-> RotTOf(R1), R2T |-> RotTOf(R2), R3T |-> RotTOf(R3), R1iT |-> RotTOf(R1i), R1vT |-> RotTOf(R1v),
    PlT |-> TOf(Pl),
    I2v |-> Id(v2), I3v |-> Id(v3), Iqu |-> Id(QU2), Im |-> Id(m23),
    H2 |-> Hom(2, 1, v2), Hh |-> Hom(-1, 2, v2), H3 |-> Hom(3, 1, v3), Hq |-> Hom(-3, 1, QU2), Hm |-> Hom(1, 2, m23),
    H6 |-> Hom(2, 1, v6), D0 |-> D0, D0I |-> DInvOf(D0), Dl |-> Dl, DlI |-> DInvOf(Dl), Prl |-> Prl, PrlT |-> TOf(Prl), BDl |-> BDl, BDi |-> BDi, BRl |-> BRl, BCl |-> BCl,
    Il |-> Id(L22), Hl |-> Hom(-2, 1, L22), Ob |-> Ob, ObT |-> TOf(Ob), Mp |-> Mp, Mq |-> Mq, MpT |-> Transpose(Mp), Ma |-> Ma, Mb |-> Mb, MaT |-> Transpose(Ma), Mc |-> Mc, McT |-> Transpose(Mc), Mn |-> Mn, Dq |-> Dq, DqI |-> DInvOf(Dq), Dh |-> Dh, D3I |-> DInvOf(D3), AB |-> AddT(<<A, B>>),
    Pp |-> Pp, PpT |-> TOf(Pp), Pn |-> Pn, BRt |-> BRt, BCt |-> BCt, Dw |-> Dw, DwI |-> DInvOf(Dw), Tn |-> Tn ]

AllAtomNames == DOMAIN AtomTable
=============================================================================
