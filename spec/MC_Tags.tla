------------------------------- MODULE MC_Tags -------------------------------
(***************************************************************************)
(* C08 for user-defined operators: the decorators exported by furax        *)
(* (diagonal, symmetric, lower_triangular, upper_triangular,               *)
(* positive_semidefinite, negative_semidefinite, orthogonal, square) and   *)
(* what the library may truthfully answer to a tag query on the objects    *)
(* derived from a decorated operator: op, op.T, op.T.T, op.I, op.I.I,      *)
(* op.T.I.  A decorated class is modelled by a matrix having the declared  *)
(* property; a derived object by the matrix it denotes.  `Holds` says      *)
(* which tags are TRUE of that matrix: a tag function may only answer      *)
(* True where Holds is TRUE (it may always answer False).  In particular   *)
(* the transpose of a lower-triangular matrix is upper, not lower.         *)
(***************************************************************************)
EXTENDS FxMatrix, Json

Decorators == {"diagonal", "symmetric", "lower_triangular", "upper_triangular", "positive_semidefinite",
               "negative_semidefinite", "orthogonal", "square"}
Forms == {"op", "T", "TT", "I", "II", "TI"}

\* a witness matrix per decorator (the class the harness defines carries exactly this matrix)
Witness(d) ==
  CASE d = "diagonal" -> MatOfRows(<< <<2, 0>>, <<0, -3>> >>)
    [] d = "symmetric" -> MatOfRows(<< <<1, 2>>, <<2, -1>> >>)
    [] d = "lower_triangular" -> MatOfRows(<< <<1, 0>>, <<2, 3>> >>)
    [] d = "upper_triangular" -> MatOfRows(<< <<1, 2>>, <<0, 3>> >>)
    [] d = "positive_semidefinite" -> MatOfRows(<< <<2, 1>>, <<1, 3>> >>)
    [] d = "negative_semidefinite" -> MatOfRows(<< <<-2, 1>>, <<1, -3>> >>)
    [] d = "orthogonal" -> MatOfRows(<< <<0, -1>>, <<1, 0>> >>)
    [] d = "square" -> MatOfRows(<< <<1, 2>>, <<3, 4>> >>)

\* what the decorator declares (core.py: diagonal => symmetric => square, triangular/semidefinite => square)
Declares(d) ==
  [ diag |-> d = "diagonal", sym |-> d \in {"diagonal", "symmetric"},
    lower |-> d = "lower_triangular", upper |-> d = "upper_triangular",
    psd |-> d = "positive_semidefinite", nsd |-> d = "negative_semidefinite" ]

MatrixOf(d, f) ==
  LET M == Witness(d) IN
  CASE f = "op" -> M [] f = "T" -> MatT(M) [] f = "TT" -> M
    [] f = "I" -> MatInv(M) [] f = "II" -> M [] f = "TI" -> MatInv(MatT(M))

Holds(M) == [ diag |-> IsDiagonalM(M), sym |-> IsSymmetric(M), lower |-> IsLower(M), upper |-> IsUpper(M),
              tridiag |-> IsTridiagonal(M), psd |-> IsPSD(M), nsd |-> IsNSD(M) ]

VARIABLES phase, dec, form
vars == <<phase, dec, form>>
Init == phase = "dec" /\ dec = "" /\ form = ""
PickDec(d) == phase = "dec" /\ dec' = d /\ phase' = "form" /\ UNCHANGED form
PickForm(f) == phase = "form" /\ form' = f /\ phase' = "done" /\ UNCHANGED dec
Next == (\E d \in Decorators : PickDec(d)) \/ (\E f \in Forms : PickForm(f))

\* the witnesses have what their decorators declare
WitnessesOK == \A d \in Decorators :
                 LET h == Holds(Witness(d)) g == Declares(d) IN
                 /\ (g.diag => h.diag) /\ (g.sym => h.sym) /\ (g.lower => h.lower) /\ (g.upper => h.upper)
                 /\ (g.psd => h.psd) /\ (g.nsd => h.nsd)
                 /\ (d = "orthogonal" => IsOrthogonal(Witness(d)))
\* the orientation of a triangular matrix swaps under transposition; symmetry and definiteness survive it
TransposeLemma == /\ IsUpper(MatT(Witness("lower_triangular"))) /\ ~IsLower(MatT(Witness("lower_triangular")))
                  /\ IsLower(MatT(Witness("upper_triangular"))) /\ ~IsUpper(MatT(Witness("upper_triangular")))
                  /\ IsPSD(MatT(Witness("positive_semidefinite"))) /\ IsPSD(MatInv(Witness("positive_semidefinite")))
ASSUME WitnessesOK /\ TransposeLemma

Emit == phase = "done" =>
  PrintT(<<"CASE", ToJson([dec |-> dec, form |-> form, den |-> MatrixOf(dec, form), holds |-> Holds(MatrixOf(dec, form)),
                           witness |-> Witness(dec)])>>)
=============================================================================
