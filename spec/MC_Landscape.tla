----------------------------- MODULE MC_Landscape -----------------------------
(***************************************************************************)
(* C17 at design level.  Three state machines over FxLandscape, selected   *)
(* by the constant Part (one TLC run each, see harness/c17.py):            *)
(*                                                                         *)
(*  "pix"  a map shape is built dimension by dimension; then pixel2index   *)
(*         runs as in the code: the statements before the loop (Begin) and *)
(*         one action per loop iteration (Step), each choosing the next    *)
(*         coordinate on the quarter-pixel grid from -1 pixel to n pixels. *)
(*         Loop invariant in every state; result against the reference     *)
(*         (nearest centre, ties either way, outside in any dimension ->   *)
(*         -1); the reference is bijective / first-fastest / row-major for *)
(*         every shape.  Big shapes (no coordinates): index dtype rule.    *)
(*  "cov"  hits are appended one at a time, the coverage folded along;     *)
(*         fold = histogram = unique/scatter-add transcription, sum = #.   *)
(*  "hpx"  nside, pixel, representation and offsets chosen in turn; the    *)
(*         ring-scheme ang2pix transcription must return the pixel the     *)
(*         point was built in from the boundary definition.                *)
(*                                                                         *)
(* Every terminal state is printed as a CASE for the replay on furax.      *)
(***************************************************************************)
EXTENDS FxLandscape, Json

CONSTANTS Part,
          MaxDims, MaxSize, NBig,             \* pix (NBig: how many of BigShapeTable)
          CovNsides, MaxHits,                 \* cov
          Nsides, Offs, OffDen                \* hpx: offsets o/OffDen - 1/2, o \in Offs

VARIABLES phase,
          ps, q, st, acc,     \* pix: pixel_shape, coordinates so far, loop state, acceptable answers
          cn, hits, cov,      \* cov: nside, hit sequence, folded coverage
          hn, hp, hpt, hoff, hres   \* hpx: nside, pixel, point, [rep, a, b, w], results
vars == <<phase, ps, q, st, acc, cn, hits, cov, hn, hp, hpt, hoff, hres>>

\* shapes around the int32 limit (N - 1 <= 2^31 - 1 ?): no coordinates are enumerated for them
BigShapeTable == << <<50000, 50000>>, <<65536, 32768>>, <<65536, 32769>>, <<2147483647>>,
                    <<46341, 46341>>, <<46340, 46340>>, <<3, 715827883>>, <<2, 2, 536870912>>,
                    <<2, 2, 536870913>>, <<1, 1, 1>>, <<1290, 1290, 1291>>,
                    \* maps with more than 2^24 pixels (flat indices that a float32 cannot represent) but int32 indices
                    <<4100, 4100>>, <<300, 300, 300>>, <<33554435>> >>
BigShapes == {BigShapeTable[i] : i \in 1..NBig}

NoPt == EqPt(QI(0), QI(0))
NoOff == [rep |-> "", a |-> 0, b |-> 0, w |-> 0]
NoRes == [pix |-> -1, pixand |-> -1, margin |-> QI(0), geo |-> FALSE]

Init == /\ phase = (CASE Part = "pix" -> "shape" [] Part = "cov" -> "cnside" [] Part = "hpx" -> "nside")
        /\ ps = <<>> /\ q = <<>> /\ st = PixNone /\ acc = {}
        /\ cn = 0 /\ hits = <<>> /\ cov = <<>>
        /\ hn = 0 /\ hp = 0 /\ hpt = NoPt /\ hoff = NoOff /\ hres = NoRes

-----------------------------------------------------------------------------
(* pix *)
AddDim(n) == /\ phase = "shape" /\ Len(ps) < MaxDims
             /\ ps' = Append(ps, n)
             /\ UNCHANGED <<phase, q, st, acc, cn, hits, cov, hn, hp, hpt, hoff, hres>>

Grid(n) == (-4)..(4 * n)       \* quarter units: from -1 pixel to n pixels

Begin(q1) == /\ phase = "shape" /\ Len(ps) >= 1 /\ q1 \in Grid(ps[1])
             /\ phase' = "loop" /\ q' = <<q1>> /\ st' = PixBegin(ps, q1)
             /\ UNCHANGED <<ps, acc, cn, hits, cov, hn, hp, hpt, hoff, hres>>

Step(qk) == /\ phase = "loop" /\ st.k < Len(ps) /\ qk \in Grid(ps[st.k + 1])
            /\ q' = Append(q, qk) /\ st' = PixStep(ps, st, qk)
            /\ UNCHANGED <<phase, ps, acc, cn, hits, cov, hn, hp, hpt, hoff, hres>>

Finish == /\ phase = "loop" /\ st.k = Len(ps)
          /\ phase' = "done" /\ acc' = Accept(ps, q)
          /\ UNCHANGED <<ps, q, st, cn, hits, cov, hn, hp, hpt, hoff, hres>>

Big(s) == /\ phase = "shape" /\ ps = <<>>
          /\ phase' = "bigdone" /\ ps' = s
          /\ UNCHANGED <<q, st, acc, cn, hits, cov, hn, hp, hpt, hoff, hres>>

PixNext == \/ \E n \in 1..MaxSize : AddDim(n)
           \/ \E x \in Grid(MaxSize) : Begin(x) \/ Step(x)
           \/ Finish
           \/ \E s \in BigShapes : Big(s)

ShapeProps == (phase = "shape" /\ ps # <<>>) =>
                 /\ Bijective(ps) /\ FirstFastest(ps) /\ RowMajorOfShape(ps)
                 /\ IndexDtype(ps) = "int32"
LoopInv == phase \in {"loop", "done"} => PixLoopInv(ps, q, st)
\* the result is the flat index of a nearest centre if that centre is in the map, else -1
PixCorrect == phase = "done" => PixResult(st) \in acc
\* without a tie there is exactly one acceptable answer
PixDetermined == (phase = "done" /\ \A d \in 1..Len(q) : ~IsTie4(q[d])) => acc = {PixResult(st)}
\* dtype: wide enough for the largest index, and int32 whenever that is enough (Fits32 is checked
\* against Prod on every small shape in ShapeProps and against exact integers by the harness)
DtypeRule == phase = "bigdone" =>
                /\ IndexDtype(ps) = "int32" <=> Fits32(ps)
                /\ IndexDtype(ps) \in {"int32", "int64"}

-----------------------------------------------------------------------------
(* cov *)
CovAlphabet(n) == {0, 1, 4 * n, NPix(n) \div 2, NPix(n) - 1}

CovChoose(n) == /\ phase = "cnside"
                /\ phase' = "hits" /\ cn' = n /\ cov' = CovInit(NPix(n))
                /\ UNCHANGED <<ps, q, st, acc, hits, hn, hp, hpt, hoff, hres>>
Hit(p) == /\ phase = "hits" /\ Len(hits) < MaxHits /\ p \in CovAlphabet(cn)
          /\ hits' = Append(hits, p) /\ cov' = CovStep(cov, p)
          /\ UNCHANGED <<phase, ps, q, st, acc, cn, hn, hp, hpt, hoff, hres>>
CovFinish == /\ phase = "hits" /\ phase' = "covdone"
             /\ UNCHANGED <<ps, q, st, acc, cn, hits, cov, hn, hp, hpt, hoff, hres>>

CovNext == \/ \E n \in CovNsides : CovChoose(n)
           \/ \E p \in CovAlphabet(cn) : Hit(p)
           \/ CovFinish

CovIsHistogram == phase \in {"hits", "covdone"} => cov = Histogram(NPix(cn), hits)
CovSums == phase \in {"hits", "covdone"} => SumFun(cov, NPix(cn)) = Len(hits)
CovImplAgrees == phase = "covdone" => CoverageImpl(NPix(cn), hits) = cov

-----------------------------------------------------------------------------
(* hpx *)
ChooseNside(n) == /\ phase = "nside" /\ phase' = "pixel" /\ hn' = n
                  /\ UNCHANGED <<ps, q, st, acc, cn, hits, cov, hp, hpt, hoff, hres>>
ChoosePix(p) == /\ phase = "pixel" /\ p \in 0..(NPix(hn) - 1)
                /\ phase' = "offset" /\ hp' = p
                /\ UNCHANGED <<ps, q, st, acc, cn, hits, cov, hn, hpt, hoff, hres>>

OffQ(o) == QSub(Q(o, OffDen), <<1, 2>>)
\* w: the longitude is given as tt + 4w (w # 0 for centres only)
ChooseOffset(rep, oa, ob, w) ==
   /\ phase = "offset" /\ HasRep(hn, hp, rep)
   /\ w # 0 => (2 * oa = OffDen /\ 2 * ob = OffDen)
   /\ LET pt == PixelPoint(hn, hp, rep, OffQ(oa), OffQ(ob))
          g == [pt EXCEPT !.tt = QAdd(@, QI(4 * w))]          \* the point as given to ang2pix
      IN /\ PointValid(pt)
         /\ hpt' = g
         \* evaluated once: pixel by the definition, by the jax_healpy form, exact margin
         /\ hres' = [HpxEval(hn, g) EXCEPT !.geo = @ /\ SqrtExact(g)]
   /\ phase' = "hdone" /\ hoff' = [rep |-> rep, a |-> oa, b |-> ob, w |-> w]
   /\ UNCHANGED <<ps, q, st, acc, cn, hits, cov, hn, hp>>

HpxNext == \/ \E n \in Nsides : ChooseNside(n)
           \/ \E p \in 0..(NPix(hn) - 1) : ChoosePix(p)
           \/ \E rep \in {"eq", "cap"}, oa \in Offs, ob \in Offs, w \in {-1, 0, 1} : ChooseOffset(rep, oa, ob, w)

\* the ring enumeration and the centres: ang2pix(centre(p)) = p, centres at half-integer (u, v)
CentreRoundTrip == phase = "offset" =>
                      /\ Ang2Pix(hn, Centre(hn, hp)) = hp
                      /\ SqrtExact(Centre(hn, hp))
                      /\ \A rep \in {"eq", "cap"} : HasRep(hn, hp, rep) => CentreHalfInt(hn, hp, rep)
\* every point built inside pixel p from the boundary definition is mapped to p
StaysInPixel == phase = "hdone" => hres.pix = hp
PointWellFormed == phase = "hdone" => hres.geo /\ QLt(QI(0), hres.margin)
\* the bit-mask form used by jax_healpy is the definition when nside is a power of two
AndFormPow2 == (phase = "hdone" /\ IsPow2(hn)) => hres.pixand = hres.pix

-----------------------------------------------------------------------------
Next == CASE Part = "pix" -> PixNext [] Part = "cov" -> CovNext [] Part = "hpx" -> HpxNext
Spec == Init /\ [][Next]_vars

SeqOfCov == [i \in 1..NPix(cn) |-> cov[i - 1]]

Emit ==
   /\ phase = "done" =>
         PrintT(<<"CASE", ToJson([kind |-> "pix", ps |-> ps, q |-> q, res |-> PixResult(st),
                                  acc |-> SortedSeq(acc),
                                  tie |-> \E d \in 1..Len(q) : IsTie4(q[d])])>>)
   /\ phase = "bigdone" =>
         PrintT(<<"CASE", ToJson([kind |-> "big", ps |-> ps, dtype |-> IndexDtype(ps)])>>)
   /\ phase = "covdone" =>
         PrintT(<<"CASE", ToJson([kind |-> "cov", nside |-> cn, hits |-> hits, cov |-> SeqOfCov,
                                  total |-> Len(hits)])>>)
   /\ phase = "hdone" =>
         PrintT(<<"CASE", ToJson([kind |-> "hpx", nside |-> hn, pix |-> hp, pixand |-> hres.pixand,
                                  rep |-> hoff.rep, a |-> hoff.a, b |-> hoff.b, w |-> hoff.w,
                                  cap |-> hpt.cap, north |-> QLt(QI(0), hpt.z),
                                  z |-> hpt.z, s |-> hpt.s, tt |-> hpt.tt,
                                  margin |-> hres.margin])>>)
=============================================================================
