----------------------------- MODULE FxConfigGen -----------------------------
(***************************************************************************)
(* Behaviour generator for C19: FxConfig plus a history variable holding   *)
(* the labelled actions taken so far.  Used with `tlc -simulate`: every    *)
(* behaviour of length GenLen is printed as one JSON line and replayed on  *)
(* real threads / copied contexts by harness/c19.py.                       *)
(***************************************************************************)
EXTENDS FxConfig, Json
CONSTANT GenLen
VARIABLE hist

Ev(a, c, n, s) == [a |-> a, c |-> c, n |-> n, s |-> s]

GenInit == Init /\ hist = <<>>

GenNext == /\ Len(hist) < GenLen
           /\ \E c \in Ctx :
               \/ \E k \in 1..NKw : New(c, k) /\ hist' = Append(hist, Ev("New", c, k, ""))
               \/ Enter(c) /\ hist' = Append(hist, Ev("Enter", c, 0, ""))
               \/ \E k \in 1..NKw : Prebuild(c, k) /\ hist' = Append(hist, Ev("Prebuild", c, k, ""))
               \/ EnterPre(c) /\ hist' = Append(hist, Ev("EnterPre", c, 0, ""))
               \/ \E how \in {"normal", "exception"} :
                     Exit(c, how) /\ hist' = Append(hist, Ev("Exit", c, 0, how))
               \/ CreateInv(c) /\ hist' = Append(hist, Ev("CreateInv", c, 0, ""))
               \/ \E i \in 1..MaxInv : ApplyInv(c, i) /\ hist' = Append(hist, Ev("ApplyInv", c, i, ""))
               \/ Read(c) /\ hist' = Append(hist, Ev("Read", c, 0, ""))
               \/ \E p \in Ctx, kind \in {"thread", "copy"} :
                     Spawn(p, c, kind) /\ hist' = Append(hist, Ev("Spawn", p, c, kind))
               \/ Finish(c) /\ hist' = Append(hist, Ev("Finish", c, 0, ""))

Emit == Len(hist) = GenLen => PrintT(<<"CASE", ToJson([events |-> hist])>>)
=============================================================================
