------------------------------ MODULE MC_Terms ------------------------------
(***************************************************************************)
(* The universe of operator expressions for the "every operator" family of *)
(* properties: C03 (transpose = adjoint), C04 (as_matrix faithful),        *)
(* C05 (declared structures), C06 (inverses), C08 (tags), C10 (blocks).    *)
(* A subject is built from a template filled with atoms of FxSigma, then   *)
(* optionally transposed or inverted (the derived object is the subject).  *)
(* For every subject the model derives what the code is designed to build  *)
(* for .T, .T.T, .I, as_matrix() and the tags, and checks each against the *)
(* matrix-level definition.  Every subject is emitted as a replay case.    *)
(***************************************************************************)
EXTENDS FxSigma, FxViews, Json

CONSTANTS Names,      \* atoms usable alone (and scaled)
          PairNames,  \* atoms usable in products of two
          Solo,       \* atoms used alone only (extreme parameter values whose products leave the 32-bit range)
          Pool,       \* atoms usable in sums and in containers of one or two blocks
          Pool3,      \* atoms usable in the three-slot templates (nested container, x @ y @ z)
          PoolBig,    \* atoms usable in the containers of six and seven blocks
          First,      \* atoms allowed in the first slot (the universe is sharded over it; all atoms = no restriction)
          Templates

VARIABLES phase, tpl, ck, bk, mode, slots, subj,
          den       \* Den(subj), computed once when the subject is built (every invariant refers to it)
vars == <<phase, tpl, ck, bk, mode, slots, subj, den>>

At(n) == AtomTable[n]
OpLeaf(i) == Leaf(<<i>>, "op")
Cont(kind, n) == [k |-> kind, sh |-> <<>>, dt |-> "", ch |-> [i \in 1..n |-> OpLeaf(i)],
                  keys |-> IF kind = "dict" THEN SubSeq(<<"a", "b", "c", "d", "e", "f", "g">>, 1, n) ELSE <<>>]
Blk(kind, cont, ops) == Term(kind, 0, cont, <<>>, ops)

NSlots(t) == CASE t = 1 -> 1 [] t \in {2, 3, 4, 6, 10, 11} -> 2 [] t = 5 -> 1 [] t = 7 -> 1 [] t \in {8, 9} -> 3
SlotDomain(t) == IF t = 1 THEN Names \cup Solo ELSE IF t = 2 THEN PairNames ELSE IF t = 5 THEN Names ELSE IF t \in {10, 11} THEN PoolBig ELSE IF t \in {8, 9} THEN Pool3 ELSE Pool

Assemble(t, c, b, x) ==
  CASE t = 1 -> x[1]
    [] t = 2 -> Comp(<<x[1], x[2]>>)
    [] t = 3 -> AddOp(x[1], x[2])
    [] t = 4 -> SubOp(x[1], x[2])
    [] t = 5 -> ScaleOp(-3, 2, x[1])
    [] t = 6 -> Blk(b, Cont(c, 2), <<x[1], x[2]>>)
    [] t = 7 -> Blk(b, Cont(c, 1), <<x[1]>>)
    [] t = 8 -> Blk(b, ListS(<<ListS(<<OpLeaf(1), OpLeaf(2)>>), OpLeaf(3)>>), <<x[1], x[2], x[3]>>)
    [] t = 9 -> Comp(<<x[1], x[2], x[3]>>)
    \* containers of larger arity (six and seven blocks, the two operands alternating)
    [] t = 10 -> Blk(b, Cont(c, 6), <<x[1], x[2], x[1], x[2], x[1], x[2]>>)
    [] t = 11 -> Blk(b, Cont(c, 7), <<x[1], x[2], x[1], x[2], x[1], x[2], x[1]>>)

RECURSIVE WellTyped(_)
WellTyped(t) ==
  /\ ~IsErr(t)
  /\ \A i \in 1..Len(t.ch) : WellTyped(t.ch[i])
  /\ CASE t.k = "comp" -> \A i \in 1..(Len(t.ch) - 1) : InS(t.ch[i]) = OutS(t.ch[i + 1])
       [] t.k = "add" -> \A i \in 2..Len(t.ch) : StructsAgree(t.ch[1], t.ch[i])
       [] t.k = "brow" -> \A i \in 2..Len(t.ch) : OutS(t.ch[i]) = OutS(t.ch[1])
       [] t.k = "bcol" -> \A i \in 2..Len(t.ch) : InS(t.ch[i]) = InS(t.ch[1])
       [] OTHER -> TRUE

Init == /\ phase = "pick" /\ tpl \in Templates
        /\ ck \in {"list", "tuple", "dict"} /\ bk \in BlockKinds
        /\ mode \in {"plain", "T", "I"}
        /\ (tpl \notin {6, 7, 8, 10, 11} => ck = "list" /\ bk = "bdiag")
        /\ (tpl = 8 => ck = "list")
        /\ slots = <<>> /\ subj = ErrT /\ den = ZeroMat(0, 0)

Pick(n) == /\ phase = "pick" /\ Len(slots) < NSlots(tpl) /\ n \in SlotDomain(tpl)
           /\ (Len(slots) = 0 => n \in First)
           /\ slots' = Append(slots, n) /\ UNCHANGED <<phase, tpl, ck, bk, mode, subj, den>>

\* an iterative inverse is only claimed for symmetric positive-definite operators; its transpose is
\* not supported by the library (excluded by C03's statement)
RECURSIVE Admissible(_)
Admissible(t) ==
  /\ \A i \in 1..Len(t.ch) : Admissible(t.ch[i])
  /\ (t.k = "inv" => SmallSPD(Den(t.ch[1])))
  /\ (t.k = "T" => SolverFree(t.ch[1]))

Build == /\ phase = "pick" /\ Len(slots) = NSlots(tpl)
         /\ LET t0 == Assemble(tpl, ck, bk, [i \in 1..Len(slots) |-> At(slots[i])])
                t == CASE mode = "plain" -> t0
                       [] mode = "T" -> IF WellTyped(t0) /\ SolverFree(t0) THEN Transpose(t0) ELSE ErrT
                       [] mode = "I" -> IF WellTyped(t0) /\ InS(t0) = OutS(t0) /\ Admissible(t0) /\ NoZeroDiag(t0)
                                           /\ (SolverFree(Inverse(t0)) \/ SmallSPD(Den(t0)))
                                        THEN Inverse(t0) ELSE ErrT
            IN /\ WellTyped(t) /\ Admissible(t)
               /\ subj' = t /\ phase' = "done" /\ den' = TLCEval(Den(t))
         /\ UNCHANGED <<tpl, ck, bk, mode, slots>>

\* a block row / column whose blocks disagree on the shared structure must be refused at construction
BuildRefused ==
  /\ phase = "pick" /\ Len(slots) = NSlots(tpl) /\ tpl = 6 /\ mode = "plain" /\ bk \in {"brow", "bcol"}
  /\ LET x == [i \in 1..Len(slots) |-> At(slots[i])] IN
       /\ (bk = "brow" => OutS(x[1]) # OutS(x[2]))
       /\ (bk = "bcol" => InS(x[1]) # InS(x[2]))
       /\ subj' = Assemble(tpl, ck, bk, x) /\ phase' = "refused"
  /\ UNCHANGED <<tpl, ck, bk, mode, slots, den>>

Next == (\E n \in Names \cup PairNames \cup Pool \cup Pool3 \cup PoolBig \cup Solo : Pick(n)) \/ Build \/ BuildRefused

-----------------------------------------------------------------------------
Done == phase = "done"
M == den
DenCached == Done => den = Den(subj)

\* C03
TransposeIsAdjoint ==
  (Done /\ SolverFree(subj)) =>
     LET tt == Transpose(subj) IN
     /\ Den(tt) = MatT(M)
     /\ InS(tt) = OutS(subj) /\ OutS(tt) = InS(subj)
     /\ Den(Transpose(tt)) = M
     /\ InS(Transpose(tt)) = InS(subj) /\ OutS(Transpose(tt)) = OutS(subj)
     /\ (subj.k \in SymmetricKinds => tt = subj /\ IsSymmetric(M))
\* C04
AsMatrixFaithful == Done => AsMatrix(subj) = M
ShapesConsistent == Done => M.r = SizeS(OutS(subj)) /\ M.c = SizeS(InS(subj))
\* C08
TagsHold == Done => TagsTruthful(subj)
\* C06
InverseInverts ==
  (Done /\ InS(subj) = OutS(subj)) =>
     LET inv == Inverse(subj) IN
     /\ ~IsErr(inv)
     /\ (SolverFree(inv) /\ NoZeroDiag(subj)) =>
          /\ MatMul(Den(inv), M) = IdentityMat(M.r) /\ MatMul(M, Den(inv)) = IdentityMat(M.r)
          /\ Den(Inverse(inv)) = M
          /\ AsMatrix(inv) = Den(inv)
     /\ (subj.k = "diag" => IsPinv(M, Den(inv)) /\ AsMatrix(inv) = Den(inv))
     /\ (subj.k \in OrthogonalKinds => Den(inv) = MatT(M))
     /\ (~SolverFree(inv) /\ SmallSPD(M)) => MatMul(AsMatrix(inv), M) = IdentityMat(M.r)
NonSquareRefused == (Done /\ InS(subj) # OutS(subj) /\ subj.k # "mvax") => IsErr(Inverse(subj))
\* C10
BlocksAreBlockMatrices ==
  (Done /\ subj.k \in BlockKinds) =>
     LET ms == [i \in 1..Len(subj.ch) |-> Den(subj.ch[i])] IN
     /\ M = (CASE subj.k = "brow" -> HStack(ms) [] subj.k = "bcol" -> VStack(ms) [] subj.k = "bdiag" -> BlockDiag(ms))
     /\ Transpose(subj).k = (CASE subj.k = "brow" -> "bcol" [] subj.k = "bcol" -> "brow" [] subj.k = "bdiag" -> "bdiag")

EmitRefused == phase = "refused" =>
  PrintT(<<"CASE", ToJson([names |-> <<ToString(tpl), ck, bk, "refused">> \o slots, term |-> subj, refused |-> TRUE,
                           \* a near miss: the shared structures have the same leaves in the same order, only the tree differs
                           near |-> IF bk = "brow" THEN Leaves(OutS(subj.ch[1])) = Leaves(OutS(subj.ch[2]))
                                    ELSE Leaves(InS(subj.ch[1])) = Leaves(InS(subj.ch[2]))])>>)

InvOrErr == IF InS(subj) = OutS(subj) \/ subj.k = "mvax" THEN Inverse(subj) ELSE ErrT
Emit == Done =>
  PrintT(<<"CASE", ToJson([
     names |-> <<ToString(tpl), ck, bk, mode>> \o slots,
     term |-> subj, den |-> M, ins |-> InS(subj), outs |-> OutS(subj),
     solverfree |-> SolverFree(subj),
     tterm |-> IF SolverFree(subj) THEN Transpose(subj) ELSE ErrT,
     t_is_self |-> subj.k \in SymmetricKinds,
     tags |-> Tags(subj),
     orth |-> subj.k \in OrthogonalKinds,
     square |-> InS(subj) = OutS(subj),
     invertible |-> InS(subj) = OutS(subj) /\ ((SolverFree(InvOrErr) /\ NoZeroDiag(subj)) \/ SmallSPD(M)),
     spd |-> InS(subj) = OutS(subj) /\ SmallSPD(M),
     iterm |-> InvOrErr,
     inv_closed |-> ~IsErr(InvOrErr) /\ SolverFree(InvOrErr),
     invden |-> IF ~IsErr(InvOrErr) /\ SolverFree(InvOrErr) THEN Den(InvOrErr)
                ELSE IF InS(subj) = OutS(subj) /\ SmallSPD(M) THEN MatInv(M) ELSE ZeroMat(0, 0) ])>>)
=============================================================================
