------------------------------- MODULE FxDense -------------------------------
(***************************************************************************)
(* furax._base.dense.DenseBlockDiagonalOperator (property C14).            *)
(*                                                                         *)
(* Part 1  Python `str` operations on strings modelled as sequences of     *)
(*         one-character strings (an ellipsis is three "." characters).    *)
(* Part 2  LITERAL TRANSCRIPTION of __init__, _parse_subscripts and        *)
(*         _get_transposed_subscripts; the latter as a small program       *)
(*         (AlgInit / AlgStep, one statement group per step) so that TLC   *)
(*         checks assertions between the statements.                       *)
(* Part 3  REFERENCE einsum semantics (jnp.einsum, explicit mode) on exact *)
(*         integers, written independently of part 2: operands are         *)
(*         tokenised, an ellipsis stands for the broadcast dimensions      *)
(*         (named from the right), every label gets its size from the      *)
(*         operand shapes, labels absent from the output are summed,       *)
(*         repeated labels inside one operand take the diagonal.  EinMat   *)
(*         is the dense matrix of  x |-> einsum(sub, blocks, x)  between   *)
(*         the row-major flattened leaf and the flattened output, with     *)
(*         blocks = off + 1, off + 2, ... (distinct integers).             *)
(* Part 4  The operator on pytrees (mv: one shared block array or one      *)
(*         block array per leaf) and its transpose.                        *)
(***************************************************************************)
EXTENDS FxShapes

Letters == {"i", "j", "k", "h"}               \* the letters the bounded family is enumerated over
AllLetters == Letters \cup {"J"}                \* plus an upper-case letter used by injected strings (case matters to einsum)
Ellipsis == "..."                    \* the ellipsis TOKEN
DOT == "."
Dots == <<DOT, DOT, DOT>>
Hidden == <<"e1", "e2", "e3", "e4">> \* labels of the broadcast dimensions, numbered FROM THE RIGHT

-----------------------------------------------------------------------------
(* Part 1: str *)

\* the characters of a token sequence
Chars(toks) == ConcatAll([p \in 1..Len(toks) |-> IF toks[p] = Ellipsis THEN Dots ELSE <<toks[p]>>])

StartsWith(s, pat) == Len(s) >= Len(pat) /\ SubSeq(s, 1, Len(pat)) = pat

\* s.replace(pat, '')   (left to right, non overlapping; pat non-empty)
RECURSIVE StrRemove(_, _)
StrRemove(s, pat) ==
  IF s = <<>> THEN <<>>
  ELSE IF StartsWith(s, pat) THEN StrRemove(SubSeq(s, Len(pat) + 1, Len(s)), pat)
  ELSE <<Head(s)>> \o StrRemove(Tail(s), pat)

\* s.split(sep)
RECURSIVE StrSplitAcc(_, _, _)
StrSplitAcc(s, sep, cur) ==
  IF s = <<>> THEN <<cur>>
  ELSE IF StartsWith(s, sep) THEN <<cur>> \o StrSplitAcc(SubSeq(s, Len(sep) + 1, Len(s)), sep, <<>>)
  ELSE StrSplitAcc(Tail(s), sep, Append(cur, Head(s)))
StrSplit(s, sep) == StrSplitAcc(s, sep, <<>>)

\* set(s)
StrSet(s) == {s[p] : p \in 1..Len(s)}
\* s.index(c): 0-based position of the FIRST occurrence (c occurs in s wherever this is used)
StrIndex(s, c) == CHOOSE n \in 0..(Len(s) - 1) : s[n + 1] = c /\ \A m \in 0..(n - 1) : s[m + 1] # c
\* lst[n] = c on list(s), 0-based
ListSet(lst, n, c) == [lst EXCEPT ![n + 1] = c]
Count(s, c) == Cardinality({p \in 1..Len(s) : s[p] = c})
\* s.translate(str.maketrans(from, to)): every character found in `from` is replaced by the character at
\* the same position of `to` (the last position wins, as in the dict built by maketrans)
StrTranslate(s, from, to) ==
  [p \in 1..Len(s) |->
     IF \E q \in 1..Len(from) : from[q] = s[p]
     THEN to[CHOOSE q \in 1..Len(from) : from[q] = s[p] /\ \A r \in (q + 1)..Len(from) : from[r] # s[p]]
     ELSE s[p]]

-----------------------------------------------------------------------------
(* Part 2: transcription *)

Fail(why) == [ok |-> FALSE, why |-> why, l |-> <<>>, r |-> <<>>, o |-> <<>>]

\* _parse_subscripts
ParseSubscripts(sub) ==
  LET split1 == StrSplit(sub, <<",">>)
  IN IF Len(split1) # 2 THEN Fail("comma")
     ELSE LET split2 == StrSplit(split1[2], <<"-", ">">>)
          IN IF Len(split2) # 2 THEN Fail("arrow")
             ELSE [ok |-> TRUE, why |-> "", l |-> split1[1], r |-> split2[1], o |-> split2[2]]

\* __init__(blocks, in_structure, subscripts): ranks = number of dimensions of every block leaf.
\* Returns the stored subscripts or the error.
Ctor(sub0, ranks) ==
  LET sub == StrRemove(sub0, <<" ">>)
  IN IF \E p \in 1..Len(ranks) : ranks[p] < 2 THEN [ok |-> FALSE, why |-> "ndim", sub |-> <<>>]
     ELSE IF ~ParseSubscripts(sub).ok THEN [ok |-> FALSE, why |-> ParseSubscripts(sub).why, sub |-> <<>>]
     ELSE [ok |-> TRUE, why |-> "", sub |-> sub]

(* _get_transposed_subscripts as a program.  State record:
     pc   "parse" | "sum" | "transpose" | "swap" | "check" | "end"
     in   the argument;  l, r, o  = lefts, rights, results;  s, t = sum_axis, transpose_axis
     ok / why   at pc = "end": returned normally (the result is  l , r -> o)  or raised ValueError *)
AlgInit(sub) == [pc |-> "parse", in |-> sub, ok |-> TRUE, why |-> "", l |-> <<>>, r |-> <<>>, o |-> <<>>,
                 s |-> "", t |-> ""]
Raise(a, why) == [a EXCEPT !.pc = "end", !.ok = FALSE, !.why = why]

AlgStep(a) ==
  CASE a.pc = "parse" ->
         LET p == ParseSubscripts(a.in)
         IN IF ~p.ok THEN Raise(a, p.why)
            ELSE [a EXCEPT !.pc = "sum", !.l = p.l, !.r = p.r, !.o = p.o]
    [] a.pc = "sum" ->
         LET lefts_as_set == StrSet(StrRemove(a.l, Dots))
             rights_as_set == StrSet(StrRemove(a.r, Dots))
             results_as_set == StrSet(StrRemove(a.o, Dots))
             \* Python precedence:  lefts & rights - results  is  lefts & (rights - results)
             sum_axis_as_set == lefts_as_set \cap (rights_as_set \ results_as_set)
         IN IF Cardinality(sum_axis_as_set) # 1 THEN Raise(a, "sum")
            ELSE [a EXCEPT !.pc = "transpose", !.s = CHOOSE c \in sum_axis_as_set : TRUE]
    [] a.pc = "transpose" ->
         LET lefts_as_set == StrSet(StrRemove(a.l, Dots))
             rights_as_set == StrSet(StrRemove(a.r, Dots))
             results_as_set == StrSet(StrRemove(a.o, Dots))
             transpose_axis_as_set == lefts_as_set \cap (results_as_set \ rights_as_set)
         IN IF Cardinality(transpose_axis_as_set) = 0 THEN Raise(a, "notranspose")
            ELSE IF Cardinality(transpose_axis_as_set) > 1 THEN Raise(a, "several")
            ELSE [a EXCEPT !.pc = "swap", !.t = CHOOSE c \in transpose_axis_as_set : TRUE]
    [] a.pc = "swap" ->
         \* lefts = lefts.translate(str.maketrans(sum_axis + transpose_axis, transpose_axis + sum_axis)):
         \* EVERY occurrence of the two letters is swapped (a letter may be repeated: diagonal of the blocks)
         [a EXCEPT !.pc = "check", !.l = StrTranslate(a.l, <<a.s, a.t>>, <<a.t, a.s>>)]
    [] a.pc = "check" ->
         LET transpose_axis_number == StrIndex(a.o, a.t)
             expected_results == ListSet(a.o, transpose_axis_number, a.s)
         IN IF expected_results # a.r THEN Raise(a, "reorder")
            ELSE [a EXCEPT !.pc = "end"]
    [] OTHER -> a

RECURSIVE AlgRun(_)
AlgRun(a) == IF a.pc = "end" THEN a ELSE AlgRun(AlgStep(a))
\* the function as a whole
GetTransposedSubscripts(sub) == AlgRun(AlgInit(sub))
Arrow == <<"-", ">">>
Join3(l, r, o) == l \o <<",">> \o r \o Arrow \o o
ResultString(a) == Join3(a.l, a.r, a.o)

-----------------------------------------------------------------------------
(* Part 3: reference einsum *)

RECURSIVE Tokens(_)
Tokens(s) == IF s = <<>> THEN <<>>
             ELSE IF StartsWith(s, Dots) THEN <<Ellipsis>> \o Tokens(SubSeq(s, 4, Len(s)))
             ELSE <<Head(s)>> \o Tokens(Tail(s))

HasEll(toks) == \E p \in 1..Len(toks) : toks[p] = Ellipsis
NLetters(toks) == Cardinality({p \in 1..Len(toks) : toks[p] # Ellipsis})
WellFormedOperand(toks) == /\ \A p \in 1..Len(toks) : toks[p] \in AllLetters \cup {Ellipsis}
                           /\ Count(toks, Ellipsis) <= 1
\* number of dimensions the ellipsis stands for in an operand of the given rank
EllRank(toks, rank) == IF HasEll(toks) THEN rank - NLetters(toks) ELSE 0
RankOK(toks, rank) == IF HasEll(toks) THEN rank - NLetters(toks) \in 0..Len(Hidden)
                      ELSE rank = NLetters(toks)
\* one label per dimension; the ellipsis dimensions are named from the right (broadcasting aligns right)
Labels(toks, er) ==
  ConcatAll([p \in 1..Len(toks) |->
               IF toks[p] = Ellipsis THEN [q \in 1..er |-> Hidden[er - q + 1]] ELSE <<toks[p]>>])

FirstPos(s, c) == CHOOSE p \in 1..Len(s) : s[p] = c /\ \A q \in 1..(p - 1) : s[q] # c
RECURSIVE Dedup(_, _)
Dedup(s, seen) == IF s = <<>> THEN <<>>
                  ELSE IF Head(s) \in seen THEN Dedup(Tail(s), seen)
                  ELSE <<Head(s)>> \o Dedup(Tail(s), seen \cup {Head(s)})

NoEin == [valid |-> FALSE, bl |-> <<>>, xl |-> <<>>, ol |-> <<>>, osh |-> <<>>]

(* Analysis of  einsum(L , R -> O, blocks of shape bsh, leaf of shape xsh):
   valid, the labels of the three operands and the output shape. *)
Ein(L, R, O, bsh, xsh) ==
  LET bt == Tokens(L)  xt == Tokens(R)  ot == Tokens(O)
  IN IF ~(/\ WellFormedOperand(bt) /\ WellFormedOperand(xt) /\ WellFormedOperand(ot)
          /\ RankOK(bt, Len(bsh)) /\ RankOK(xt, Len(xsh)))
     THEN NoEin
     ELSE
       LET eb == EllRank(bt, Len(bsh))
           ex == EllRank(xt, Len(xsh))
           eo == IF HasEll(ot) THEN Max2(eb, ex) ELSE 0
           bl == Labels(bt, eb)
           xl == Labels(xt, ex)
           ol == Labels(ot, eo)
           occ == {<<bl[p], bsh[p]>> : p \in 1..Len(bl)} \cup {<<xl[p], xsh[p]>> : p \in 1..Len(xl)}
           consistent == \A u, v \in occ : u[1] = v[1] => u[2] = v[2]
           outOK == /\ \A p \in 1..Len(ol) : \E u \in occ : u[1] = ol[p]
                    /\ \A p, q \in 1..Len(ol) : ol[p] = ol[q] => p = q
       IN IF ~(consistent /\ outOK) THEN NoEin
          ELSE [valid |-> TRUE, bl |-> bl, xl |-> xl, ol |-> ol,
                osh |-> [p \in 1..Len(ol) |-> (CHOOSE u \in occ : u[1] = ol[p])[2]]]

\* sum over the free labels (in the blocks only) of blocks[labels -> env];  bstr = strides of the blocks
RECURSIVE SumFree(_, _, _, _, _, _)
SumFree(free, env, bl, bsh, bstr, off) ==
  IF free = <<>> THEN off + 1 + SumSeq([p \in 1..Len(bl) |-> env[bl[p]] * bstr[p]])
  ELSE LET f == Head(free)
           n == bsh[FirstPos(bl, f)]
       IN SumSeq([v \in 1..n |-> SumFree(Tail(free), env @@ (f :> (v - 1)), bl, bsh, bstr, off)])

\* e = analysis record (valid); matrix [output element, leaf element], both row-major
EinMat(e, bsh, off, xsh) ==
  LET bound == StrSet(e.ol) \cup StrSet(e.xl)
      free == Dedup(e.bl, bound)
      ostr == Strides(e.osh)
      xstr == Strides(xsh)
      bstr == Strides(bsh)
      \* where a bound label takes its value: <<1, position in the output>> or <<2, position in the leaf>>
      src == [lab \in bound |-> IF lab \in StrSet(e.ol) THEN <<1, FirstPos(e.ol, lab)>>
                                 ELSE <<2, FirstPos(e.xl, lab)>>]
      \* diagonal of the leaf for repeated labels; labels shared by leaf and output are not summed
      xx == {pq \in (1..Len(e.xl)) \X (1..Len(e.xl)) : pq[1] < pq[2] /\ e.xl[pq[1]] = e.xl[pq[2]]}
      ox == {pq \in (1..Len(e.ol)) \X (1..Len(e.xl)) : e.ol[pq[1]] = e.xl[pq[2]]}
      Entry(r, c) ==
        LET om == [k \in 1..Len(e.osh) |-> ((r - 1) \div ostr[k]) % e.osh[k]]
            xm == [k \in 1..Len(xsh) |-> ((c - 1) \div xstr[k]) % xsh[k]]
            cons == /\ \A pq \in xx : xm[pq[1]] = xm[pq[2]]
                    /\ \A pq \in ox : om[pq[1]] = xm[pq[2]]
            env == [lab \in bound |-> IF src[lab][1] = 1 THEN om[src[lab][2]] ELSE xm[src[lab][2]]]
        IN IF cons THEN SumFree(free, env, e.bl, bsh, bstr, off) ELSE 0
  IN RawMat(ProdSeq(e.osh), ProdSeq(xsh), 1, Entry)

-----------------------------------------------------------------------------
(* Part 4: the operator.  blocks = [leaf |-> BOOLEAN, it |-> <<[sh, off], ...>>] (one array, or a pytree
   of arrays in leaf order);  x = [leaf |-> BOOLEAN, it |-> <<shape, ...>>] (in_structure). *)

OpLeafBlock(blocks, xs, i) == IF blocks.leaf THEN blocks.it[1] ELSE blocks.it[i]
OpEin(L, R, O, blocks, xs, i) == Ein(L, R, O, OpLeafBlock(blocks, xs, i).sh, xs.it[i])
\* einsum accepts every leaf
OpValid(L, R, O, blocks, xs) ==
  /\ (xs.leaf => blocks.leaf)               \* einsum(sub, <pytree>, leaf) is a type error
  /\ (~blocks.leaf => Len(blocks.it) = Len(xs.it))
  /\ \A i \in 1..Len(xs.it) : OpEin(L, R, O, blocks, xs, i).valid
\* out_structure(): same container as the input
OpOut(L, R, O, blocks, xs) ==
  [leaf |-> xs.leaf, it |-> [i \in 1..Len(xs.it) |-> OpEin(L, R, O, blocks, xs, i).osh]]
(* mv:  if is_leaf(x): einsum(sub, blocks, x)
        elif is_leaf(blocks): [einsum(sub, blocks, leaf) for leaf in leaves]
        else: tree.map(einsum(sub), blocks, x)
   as a matrix between the flattened pytrees: block diagonal over the leaves *)
OpMat(L, R, O, blocks, xs) ==
  LET n == Len(xs.it)
      ms == TLCEval([i \in 1..n |->
               EinMat(OpEin(L, R, O, blocks, xs, i), OpLeafBlock(blocks, xs, i).sh,
                      OpLeafBlock(blocks, xs, i).off, xs.it[i])])
      roff == TLCEval([i \in 1..(n + 1) |-> SumSeq([k \in 1..(i - 1) |-> ms[k].r])])
      coff == TLCEval([i \in 1..(n + 1) |-> SumSeq([k \in 1..(i - 1) |-> ms[k].c])])
      RowLeaf(r) == CHOOSE i \in 1..n : roff[i] < r /\ r <= roff[i + 1]
      ColLeaf(c) == CHOOSE i \in 1..n : coff[i] < c /\ c <= coff[i + 1]
  IN IF n = 1 THEN ms[1]
     ELSE RawMat(roff[n + 1], coff[n + 1], 1,
                 LAMBDA r, c : IF RowLeaf(r) = ColLeaf(c)
                               THEN ms[RowLeaf(r)].e[r - roff[RowLeaf(r)]][c - coff[ColLeaf(c)]] ELSE 0)

(* Verdict on a claimed transpose  tl , tr -> to  built by transpose(): same blocks, in_structure =
   out_structure of the original (ys); m0 = matrix of the original:
     "ok"       valid, structures swapped, matrix = exact transpose
     "invalid"  einsum rejects it on these shapes (error at first use)
     "wrong"    accepted by einsum but not the adjoint *)
AdjointVerdict(m0, ys, tl, tr, to, blocks, xs) ==
  IF ~OpValid(tl, tr, to, blocks, ys) THEN "invalid"
  ELSE IF OpOut(tl, tr, to, blocks, ys) # xs THEN "wrong"
  ELSE IF OpMat(tl, tr, to, blocks, ys) = MatT(m0) THEN "ok" ELSE "wrong"

-----------------------------------------------------------------------------
(* The set of strings the algorithm accepts, characterised independently on tokens: there are letters
   s # t, both in the blocks, t exactly once in the output, s not in the output, and the leaf subscripts
   are the output subscripts with t replaced by s. *)
Accepts(b, x, o) ==
  \E s, t \in AllLetters :
     /\ s # t /\ Count(b, s) >= 1 /\ Count(b, t) >= 1
     /\ Count(o, t) = 1 /\ Count(o, s) = 0
     /\ x = [p \in 1..Len(o) |-> IF o[p] = t THEN s ELSE o[p]]
(* The class of observation O10: the summed or the transposed letter occurs more than once in the blocks
   subscripts.  Before furax a5387e9 only the first occurrence was swapped (list assignments at the two
   str.index positions) and the returned string was never the adjoint; the class is kept as a named
   predicate so that the cases stay identifiable (RepeatedLetterIsAdjoint in MC_Dense, violation keys of
   the replay). *)
RepeatedLetter(a) == a.ok /\ (Count(a.l, a.s) > 1 \/ Count(a.l, a.t) > 1)
=============================================================================
