------------------------------ MODULE FxPointing ------------------------------
(***************************************************************************)
(* furax.projections: the explicit pointing model of C16 in exact          *)
(* arithmetic.  Angles are (cos, sin) pairs over a common denominator      *)
(* <<c, s, d>> (quarter turns and Pythagorean angles), detector directions *)
(* integer vectors with integer norm <<x, y, z, n>>, so every rotated      *)
(* direction is an exact rational unit vector.                             *)
(*   Rot      transcription of get_rotation_matrix (Z1-Y2-Z3 Euler angles, *)
(*            alpha = phi, beta = theta, gamma = pa)                       *)
(*   RefRot   Rz(phi) . Ry(theta) . Rz(pa)                                 *)
(* The pixel containing a direction is not computed here: it is an         *)
(* uninterpreted function of the exact direction, supplied by healpy in    *)
(* the harness (C17 binds furax's lookup to the HEALPix definition).       *)
(***************************************************************************)
EXTENDS FxMatrix

Ang(c, s, d) == <<c, s, d>>
AngleTable == << Ang(1, 0, 1), Ang(0, 1, 1), Ang(-1, 0, 1), Ang(0, -1, 1),
                 Ang(3, 4, 5), Ang(4, -3, 5), Ang(-3, 4, 5), Ang(5, 12, 13), Ang(-5, -12, 13), Ang(8, 15, 17),
                 \* colatitudes inside the polar caps (172.4 and 7.6 degrees) and just outside the southern one (171.2)
                 Ang(-112, 15, 113), Ang(112, 15, 113), Ang(-84, 13, 85) >>
DirTable == << <<0, 0, 1, 1>>, <<1, 2, 2, 3>>, <<2, 3, 6, 7>>, <<2, -1, 2, 3>>, <<-2, 6, 3, 7>>, <<4, 4, 7, 9>> >>

UnitAngle(a) == a[1] * a[1] + a[2] * a[2] = a[3] * a[3]
UnitDir(v) == v[1] * v[1] + v[2] * v[2] + v[3] * v[3] = v[4] * v[4]
ASSUME \A i \in 1..Len(AngleTable) : UnitAngle(AngleTable[i])
ASSUME \A i \in 1..Len(DirTable) : UnitDir(DirTable[i])

\* get_rotation_matrix, entry by entry; alpha = phi, beta = theta, gamma = pa
Rot(phi, theta, pa) ==
  LET c1 == phi[1] s1 == phi[2] c2 == theta[1] s2 == theta[2] c3 == pa[1] s3 == pa[2]
      d1 == phi[3] d2 == theta[3] d3 == pa[3]
  IN MatOfRowsOver(
       << << -s1 * s3 * d2 + c1 * c2 * c3, -s1 * c3 * d2 - c1 * c2 * s3, c1 * s2 * d3 >>,
          << c1 * s3 * d2 + s1 * c2 * c3, c1 * c3 * d2 - s1 * c2 * s3, s1 * s2 * d3 >>,
          << -s2 * c3 * d1, s2 * s3 * d1, c2 * d1 * d3 >> >>, d1 * d2 * d3)

Rz(a) == MatOfRowsOver(<< <<a[1], -a[2], 0>>, <<a[2], a[1], 0>>, <<0, 0, a[3]>> >>, a[3])
Ry(a) == MatOfRowsOver(<< <<a[1], 0, a[2]>>, <<0, a[3], 0>>, <<-a[2], 0, a[1]>> >>, a[3])
RefRot(phi, theta, pa) == MatMul(Rz(phi), MatMul(Ry(theta), Rz(pa)))

DirVec(v) == MatOfRowsOver(<< <<v[1]>>, <<v[2]>>, <<v[3]>> >>, v[4])
Rotated(phi, theta, pa, v) == MatMul(Rot(phi, theta, pa), DirVec(v))
IsUnitVec(m) == m.e[1][1] * m.e[1][1] + m.e[2][1] * m.e[2][1] + m.e[3][1] * m.e[3][1] = m.d * m.d

\* (cos 2a, sin 2a, den) of the position angle: the QU rotation of the projection
Double(a) == <<a[1] * a[1] - a[2] * a[2], 2 * a[1] * a[2], a[3] * a[3]>>

Det3(m) == DetE(m.e, 3)
=============================================================================
