------------------------------ MODULE MC_Diagonal ------------------------------
(***************************************************************************)
(* C11 at design level.  The machine picks an input structure (one or two  *)
(* leaves), the shape of the values, the axis specification and the class  *)
(* (BroadcastDiagonalOperator / DiagonalOperator), then runs the           *)
(* transcribed constructor: __init__ normalises the axis specification and *)
(* evaluates mv abstractly, i.e. jax.tree.map visits the leaves one after  *)
(* the other (one action per leaf; an exception ends the construction).    *)
(* Invariants compare every step with the reference semantics of           *)
(* FxDiagonal.  Each terminal state is emitted as a case carrying the      *)
(* reference prediction: Error, or per leaf (output shape, element map).   *)
(***************************************************************************)
EXTENDS FxDiagonal, Json

\* TLC configuration files have no tuples: a shape is written in decimal, one digit per axis
\* ((2,3,1) = 231), an input structure of two leaves as 1000 * first + second.
CONSTANTS TreeCodes,      \* input structures (one or two leaves, pytree order)
          ValueCodes,     \* shapes of the values of rank 1 and 2
          Value3Codes,    \* shapes of the values of rank 3 (a family, not all 27)
          V3TreeCodes,    \* subset of TreeCodes on which the values of rank 3 are tried
          DegTreeCodes,   \* subset of TreeCodes also tried with scalar (rank 0) and pytree-valued values
          NegAxes, AxisHi \* raw axis values: -NegAxes..AxisHi

RECURSIVE DigitsOf(_)
DigitsOf(n) == IF n = 0 THEN <<>> ELSE Append(DigitsOf(n \div 10), n % 10)
TreeOf(c) == IF c < 1000 THEN <<DigitsOf(c)>> ELSE <<DigitsOf(c \div 1000), DigitsOf(c % 1000)>>
Trees == {TreeOf(c) : c \in TreeCodes}
DegTrees == {TreeOf(c) : c \in DegTreeCodes}
ValueShapes == {DigitsOf(c) : c \in ValueCodes}
Value3Shapes == {DigitsOf(c) : c \in Value3Codes}
V3Trees == {TreeOf(c) : c \in V3TreeCodes}

Axis == (-NegAxes)..AxisHi
Dims == {1, 2, 3}

\* the bounded domain of the property: rank 0..3 leaves, rank 1..3 values (a family of rank 3), extents in 1..3
ShapesOfRank(r) == [1..r -> Dims]
LeafShapes == ShapesOfRank(0) \cup ShapesOfRank(1) \cup ShapesOfRank(2) \cup ShapesOfRank(3)    \* rank 0: a scalar leaf
ASSUME /\ \A t \in Trees : Len(t) \in {1, 2} /\ \A i \in 1..Len(t) : t[i] \in LeafShapes
       /\ \A t \in Trees : Len(t) = 2 => Len(t[1]) # Len(t[2])
       /\ ValueShapes \subseteq ShapesOfRank(1) \cup ShapesOfRank(2)
       /\ Value3Shapes \subseteq ShapesOfRank(3)
       /\ V3Trees \subseteq Trees
       /\ DegTrees \subseteq Trees

VARIABLES phase,   \* "tree" -> "values" -> "axes" -> "init" -> "map" -> "done"
          tree, vsh, vtree, spec, strict,    \* the configuration
          ad,      \* self.axis_destination after __init__
          acc,     \* outcomes of the leaves already visited by tree.map
          err,     \* "" or the reason of the exception that ended the construction
          refl     \* ghost: what the reference says about every leaf of the configuration
vars == <<phase, tree, vsh, vtree, spec, strict, ad, acc, err, refl>>

Init == /\ phase = "tree" /\ tree = <<>> /\ vsh = <<>> /\ vtree = FALSE /\ spec = ScalarSpec(0)
        /\ strict = FALSE /\ ad = <<>> /\ acc = <<>> /\ err = "" /\ refl = <<>>

PickTree(t) == /\ phase = "tree" /\ tree' = t /\ phase' = "values"
               /\ UNCHANGED <<vsh, vtree, spec, strict, ad, acc, err, refl>>

PickValues(v, vt) == /\ phase = "values"
                     /\ (v = <<>> \/ vt) => tree \in DegTrees
                     /\ vt => Len(v) = 1
                     /\ Len(v) = 3 => tree \in V3Trees
                     /\ vsh' = v /\ vtree' = vt /\ phase' = "axes"
                     /\ UNCHANGED <<tree, spec, strict, ad, acc, err, refl>>

\* an int, or any tuple with as many entries as the values have axes (equal entries included;
\* for values of rank 3: every ordered triple of distinct integers - sorted, swapped, cyclic);
\* the configuration is complete: the ghost records the reference semantics for it
PickAxes(sp, s) == /\ phase = "axes"
                   /\ spec' = sp /\ strict' = s /\ phase' = "init"
                   /\ refl' = RefLeaves(tree, vsh, vtree, sp, s)
                   /\ UNCHANGED <<tree, vsh, vtree, ad, acc, err>>

Specs == {ScalarSpec(a) : a \in Axis} \cup
         {TupleSpec(t) : t \in {u \in [1..Len(vsh) -> Axis] : Len(vsh) = 3 => ~HasDup(u)}}

\* BroadcastDiagonalOperator.__init__ before `AbstractLinearOperator.out_structure(self)`
Construct == /\ phase = "init"
             /\ LET c == ImplInit(vtree, vsh, spec) IN
                /\ ad' = c.ad /\ err' = c.why
                /\ phase' = IF c.err THEN "done" ELSE "map"
             /\ UNCHANGED <<tree, vsh, vtree, spec, strict, acc, refl>>

\* one leaf of jax.tree.map(func, x) under eval_shape
LeafStep == /\ phase = "map" /\ Len(acc) < Len(tree)
            /\ LET res == ImplLeaf(vsh, ad, tree[Len(acc) + 1], strict) IN
               IF res.err THEN /\ err' = res.why /\ phase' = "done" /\ acc' = acc
               ELSE /\ acc' = Append(acc, res) /\ err' = err
                    /\ phase' = IF Len(acc) + 1 = Len(tree) THEN "done" ELSE "map"
            /\ UNCHANGED <<tree, vsh, vtree, spec, strict, ad, refl>>

Next == \/ \E t \in Trees : PickTree(t)
        \/ \E v \in ValueShapes \cup Value3Shapes \cup {<<>>}, vt \in BOOLEAN : PickValues(v, vt)
        \/ \E sp \in Specs, s \in BOOLEAN : PickAxes(sp, s)
        \/ Construct
        \/ LeafStep

-----------------------------------------------------------------------------
Ref == RefCombine(vsh, vtree, refl)
Impl == Outcome(err # "", err, IF err # "" THEN <<>> ELSE acc)

\* the axis tuple stored by __init__ is the one the reference means
InitAgrees == (phase \in {"map", "done"} /\ ~vtree /\ vsh # <<>>) => ad = RefAxes(spec, Len(vsh))

\* loop invariant of tree.map: the leaves visited so far were accepted by the reference too,
\* with the same output shape and the same element map
PrefixAgrees == phase \in {"map", "done"} => \A i \in 1..Len(acc) : acc[i] = refl[i]

\* transcription = reference: same Error / no-Error outcome (and reason), same shapes and maps
Agree == phase = "done" => Impl = Ref

\* the strict variant rejects exactly the specifications the broadcasting variant rejects plus
\* those that would change the shape of some leaf; what it accepts is a diagonal matrix:
\* output entry o of a leaf is (values entry vmap[o]) * (input entry o)
StrictRejectsExactly ==
  (phase = "done" /\ strict) =>
     LET rb == RefOutcome(tree, vsh, vtree, spec, FALSE) IN
     /\ Ref.err <=> (rb.err \/ \E i \in 1..Len(tree) : rb.leaves[i].osh # tree[i])
     /\ ~Ref.err => Ref.leaves = rb.leaves
StrictIsDiagonal ==
  (phase = "done" /\ strict /\ ~Ref.err) =>
     \A i \in 1..Len(tree) : /\ refl[i].osh = tree[i]
                             /\ refl[i].xmap = [f \in 1..ProdSeq(tree[i]) |-> f - 1]

\* DiagonalOperator.as_matrix() = jnp.diag(d): with StrictIsDiagonal, the dense matrix of the
\* reference is diag(values[vmap]) over the concatenated leaves
RefDiag == ConcatAll([i \in 1..Len(tree) |-> refl[i].vmap])
DenseAgrees == (phase = "done" /\ strict /\ ~Ref.err) => ImplDiag(vsh, ad, tree) = RefDiag

\* DiagonalInverseOperator: entries of its as_matrix() for the probe values with zeros; they
\* form the Moore-Penrose pseudo-inverse of the reference matrix (finite, zero where zero)
InvDiag == LET d == ImplDiag(vsh, ad, tree)
               z == ValZ(vsh)
           IN [o \in 1..Len(d) |-> ImplInvValue(z[d[o] + 1])]
MoorePenrose ==
  (phase = "done" /\ strict /\ ~Ref.err) =>
     LET rd == RefDiag
         inv == InvDiag
         z == ValZ(vsh)
     IN /\ Len(inv) = Len(rd)
        /\ \A o \in 1..Len(rd) : IsPinv(z[rd[o] + 1], inv[o])

TypeOK == /\ phase \in {"tree", "values", "axes", "init", "map", "done"}
          /\ Len(acc) <= Len(tree)
          /\ (phase = "done" /\ err = "") => Len(acc) = Len(tree)
          /\ Len(refl) \in {0, Len(tree)}

Emit == phase = "done" =>
          PrintT(<<"CASE", ToJson([
             leaves |-> tree, vsh |-> vsh, vtree |-> vtree, strict |-> strict,
             scalar |-> spec.scalar, a |-> spec.a, t |-> spec.t,
             err |-> Ref.err, why |-> Ref.why,
             out |-> IF Ref.err THEN <<>> ELSE
                     [i \in 1..Len(refl) |-> [osh |-> refl[i].osh, vmap |-> refl[i].vmap, xmap |-> refl[i].xmap]],
             vals |-> IF vtree THEN <<>> ELSE ValP(vsh),
             valz |-> IF strict /\ ~Ref.err THEN ValZ(vsh) ELSE <<>>,
             inv |-> IF strict /\ ~Ref.err THEN InvDiag ELSE <<>>])>>)
=============================================================================
