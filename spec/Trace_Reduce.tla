----------------------------- MODULE Trace_Reduce -----------------------------
(***************************************************************************)
(* Trace validation for C01 / C07 (and the reductions inside C10, C15).    *)
(* Each trace is one call of reduce() on the real library, recorded by     *)
(* harness/redcheck.py: the input term, every rule firing (rule, left,     *)
(* right, produced operands - all projected back to terms of FxTerms) and  *)
(* the projected result.  One step per firing, one final step for the      *)
(* result; verdicts are total (every failing clause is recorded).          *)
(*   firing_unsound   produced operands do not denote left @ right   (C01) *)
(*   firing_structure produced operands change the end structures    (C01) *)
(*   den / structure  result does not denote / type like the input   (C01) *)
(*   not_normal_form  result chain violates NormalChain              (C07) *)
(*   less_reduced     more factors left than the documented scan     (C07) *)
(*   drift_*          the code left the transcribed algorithm but no       *)
(*                    property is violated (reported, exit 0)              *)
(***************************************************************************)
EXTENDS FxAlgebra, Json, IOUtils, TLCExt

Traces == JsonDeserialize(IOEnv.TRACE_FILE)

VARIABLES tid, l, bad
tvars == <<tid, l, bad>>

Tr == Traces[tid]
NF == Len(Tr.firings)
Flag(c) == {[l |-> l, clause |-> c]}

DenSeq(ops, ins) == IF ops = <<>> THEN IdentityMat(SizeS(ins)) ELSE MatProd([i \in 1..Len(ops) |-> Den(ops[i])])

FiringClauses(f) ==
  LET known == \E i \in DOMAIN RuleNames : RuleNames[i] = f.rule IN
  (IF DenSeq(f.new, InS(f.r)) # MatMul(Den(f.l), Den(f.r)) THEN Flag("firing_unsound") ELSE {})
  \cup (IF f.new # <<>> /\ (InS(f.new[Len(f.new)]) # InS(f.r) \/ OutS(f.new[1]) # OutS(f.l))
           THEN Flag("firing_structure") ELSE {})
  \cup (IF f.new = <<>> /\ InS(f.r) # OutS(f.l) THEN Flag("firing_structure") ELSE {})
  \cup (IF known /\ ~Applicable(f.rule, f.l, f.r) THEN Flag("drift_not_applicable") ELSE {})
  \cup (IF ~known THEN Flag("drift_unknown_rule") ELSE {})

\* number of factors left in the chain (identities apart): the documented scan leaves NFactors(Reduce(term)); a
\* result with more factors has left a documented pattern only partly rewritten (e.g. R @ R.T merged into a zero
\* rotation instead of cancelling) even when no adjacent pair is reducible any more
NFactors(t) == Len(SelectSeq(ChainOf(t), LAMBDA x : x.k # "id"))

FinalClauses ==
  (IF Den(Tr.result) # Tr.den THEN Flag("den") ELSE {})
  \cup (IF InS(Tr.result) # InS(Tr.term) \/ OutS(Tr.result) # OutS(Tr.term) THEN Flag("structure") ELSE {})
  \cup (IF Den(Tr.term) # Tr.den THEN Flag("input_projection") ELSE {})
  \cup (IF ~NormalChain(ChainOf(Tr.result)) THEN Flag("not_normal_form") ELSE {})
  \cup (IF StripIds(Tr.result) # StripIds(Reduce(Tr.term)) THEN Flag("drift_result") ELSE {})
  \cup (IF NFactors(Tr.result) > NFactors(Reduce(Tr.term)) THEN Flag("less_reduced") ELSE {})

TraceInit == tid \in 1..Len(Traces) /\ l = 1 /\ bad = {}
TraceNext ==
  /\ l <= NF + 1 /\ l' = l + 1 /\ tid' = tid
  /\ bad' = bad \cup (IF l <= NF THEN FiringClauses(Tr.firings[l]) ELSE FinalClauses)

Done == l = NF + 2
Verdict == Done => PrintT(<<"VERDICT", ToJson([id |-> Tr.id, n |-> NF, bad |-> bad])>>)
=============================================================================
