------------------------------- MODULE FxAxes -------------------------------
(***************************************************************************)
(* C13 - axis operators (furax/_base/axes.py) are exact relabellings.      *)
(*                                                                         *)
(* An axis operator acts leaf by leaf.  On one leaf of shape sh (n =       *)
(* product of sh elements, row-major order) its meaning is an OUTPUT SHAPE *)
(* and an ELEMENT MAP p, a sequence of n flat 0-based input indices:       *)
(*            y.ravel()[g] = x.ravel()[p[g + 1]]     g = 0..n-1            *)
(* The dense matrix of the leaf operator is PermMat(p).  A per-leaf result *)
(* is a record [err, sh, p]; err = TRUE (any Python exception) carries     *)
(* sh = p = <<>>.                                                          *)
(*                                                                         *)
(* Part 1 is the REFERENCE: numpy.moveaxis, flattening of the axes between *)
(* two positions and numpy.reshape, stated from NumPy's documentation.     *)
(* Part 2 is the literal TRANSCRIPTION of axes.py (and of the JAX          *)
(* primitives it delegates its validation to).  MC_Axes lets TLC compare   *)
(* the two over the whole bounded domain.                                  *)
(***************************************************************************)
EXTENDS FxShapes

SeqRange(s) == {s[i] : i \in DOMAIN s}
IdPerm(n) == [i \in 1..n |-> i - 1]
IsPermOf(p, n) == Len(p) = n /\ SeqRange(p) = 0..(n - 1)
\* y = P x (y[g] = x[p[g]]), then z = Q y:  z[g] = y[q[g]] = x[p[q[g]]]
PermAfter(q, p) == [i \in 1..Len(q) |-> p[q[i] + 1]]
PermMat(p) == Mat(Len(p), Len(p), 1, LAMBDA i, j : IF p[i] = j - 1 THEN 1 ELSE 0)

LeafErr == [err |-> TRUE, sh |-> <<>>, p |-> <<>>]
LeafOk(sh, p) == [err |-> FALSE, sh |-> sh, p |-> p]

\* multi-index / flat index with the strides computed once
UnravelS(sh, st, f) == [k \in 1..Len(sh) |-> (f \div st[k]) % sh[k]]
RavelS(st, mi) == SumSeq([k \in 1..Len(st) |-> mi[k] * st[k]])

-----------------------------------------------------------------------------
(***************************************************************************)
(* Part 1.  REFERENCE (NumPy).                                             *)
(***************************************************************************)

\* numpy.core.multiarray.normalize_axis_index
NpAxisOK(a, nd) == -nd <= a /\ a < nd
NpNorm(a, nd) == IF a < 0 THEN a + nd ELSE a
NpNormAll(t, nd) == [i \in 1..Len(t) |-> NpNorm(t[i], nd)]
Distinct(t) == \A i, j \in 1..Len(t) : i # j => t[i] # t[j]

(* numpy.moveaxis(a, source, destination): "Move axes of an array to new   *)
(* positions.  Other axes remain in their original order."  source and     *)
(* destination must have the same number of elements, every axis must be   *)
(* valid for the array, and neither may contain a repeated axis.           *)
RefMoveLegal(nd, src, dst) ==
  /\ Len(src) = Len(dst)
  /\ \A i \in 1..Len(src) : NpAxisOK(src[i], nd)
  /\ \A i \in 1..Len(dst) : NpAxisOK(dst[i], nd)
  /\ Distinct(NpNormAll(src, nd))
  /\ Distinct(NpNormAll(dst, nd))

AxisOrders(nd) == {p \in [1..nd -> 0..(nd - 1)] : \A i, j \in 1..nd : i # j => p[i] # p[j]}

\* ord[k] = the input axis found at output position k (0-based values): the unique order that
\* puts every source at its destination and keeps the other axes in their original order
RefMoveOrder(nd, src, dst) ==
  LET s == NpNormAll(src, nd)
      d == NpNormAll(dst, nd)
      free == {k \in 1..nd : (k - 1) \notin SeqRange(d)}
  IN CHOOSE ord \in AxisOrders(nd) :
       /\ \A i \in 1..Len(s) : ord[d[i] + 1] = s[i]
       /\ \A k1, k2 \in free : k1 < k2 => ord[k1] < ord[k2]

\* numpy.transpose returns a VIEW whose shape and strides are the permuted shape and strides
RefTransposeShape(sh, ord) == [k \in 1..Len(sh) |-> sh[ord[k] + 1]]
RefTransposeMap(sh, ord) ==
  LET osh == RefTransposeShape(sh, ord)
      ost == Strides(osh)
      st == Strides(sh)
      vst == [k \in 1..Len(sh) |-> st[ord[k] + 1]]
  IN [g \in 1..ProdSeq(sh) |-> RavelS(vst, UnravelS(osh, ost, g - 1))]

RefMoveLeaf(sh, src, dst) ==
  IF ~RefMoveLegal(Len(sh), src, dst) THEN LeafErr
  ELSE LET ord == RefMoveOrder(Len(sh), src, dst)
       IN LeafOk(RefTransposeShape(sh, ord), RefTransposeMap(sh, ord))

(* Flattening of the axes first..last (inclusive, any sign): both must be  *)
(* axes of the leaf and first must not lie after last.  Output element     *)
(* (pre, m, post) is input element (pre, unravel(m over the merged axes),  *)
(* post).                                                                  *)
RefRavelLegal(nd, first, last) ==
  NpAxisOK(first, nd) /\ NpAxisOK(last, nd) /\ NpNorm(first, nd) <= NpNorm(last, nd)

RefRavelLeaf(sh, first, last) ==
  IF ~RefRavelLegal(Len(sh), first, last) THEN LeafErr
  ELSE LET nd == Len(sh)
           f == NpNorm(first, nd) + 1      \* 1-based, inclusive
           l == NpNorm(last, nd) + 1
           mid == SubSeq(sh, f, l)
           mst == Strides(mid)
           osh == SubSeq(sh, 1, f - 1) \o <<ProdSeq(mid)>> \o SubSeq(sh, l + 1, nd)
           ost == Strides(osh)
           st == Strides(sh)
           map == [g \in 1..ProdSeq(sh) |->
                     LET mo == UnravelS(osh, ost, g - 1)
                         mi == SubSeq(mo, 1, f - 1) \o UnravelS(mid, mst, mo[f]) \o SubSeq(mo, f + 1, Len(osh))
                     IN RavelS(st, mi)]
       IN LeafOk(osh, map)

(* numpy.reshape(a, newshape), C order: "One shape dimension can be -1. In *)
(* this case, the value is inferred from the length of the array and       *)
(* remaining dimensions."  The new shape must be compatible with the       *)
(* original one; output element mo is the input element with the same      *)
(* row-major rank.                                                         *)
RefKnown(tgt) == ProdSeq(SelectSeq(tgt, LAMBDA v : v # -1))
RefReshapeLegal(sh, tgt) ==
  LET n == ProdSeq(sh)
      unk == {i \in 1..Len(tgt) : tgt[i] = -1}
  IN /\ \A i \in 1..Len(tgt) : tgt[i] >= -1
     /\ Cardinality(unk) <= 1
     /\ IF unk = {} THEN RefKnown(tgt) = n ELSE RefKnown(tgt) > 0 /\ n % RefKnown(tgt) = 0
RefReshapeShape(sh, tgt) ==
  [i \in 1..Len(tgt) |-> IF tgt[i] = -1 THEN ProdSeq(sh) \div RefKnown(tgt) ELSE tgt[i]]
RefReshapeMap(sh, osh) ==
  LET st == Strides(sh)
      ost == Strides(osh)
  IN [g \in 1..ProdSeq(sh) |-> RavelS(st, UnravelS(sh, st, RavelS(ost, UnravelS(osh, ost, g - 1))))]
RefReshapeLeaf(sh, tgt) ==
  IF ~RefReshapeLegal(sh, tgt) THEN LeafErr
  ELSE LeafOk(RefReshapeShape(sh, tgt), RefReshapeMap(sh, RefReshapeShape(sh, tgt)))

-----------------------------------------------------------------------------
(***************************************************************************)
(* Part 2.  TRANSCRIPTION.                                                 *)
(***************************************************************************)

(* Python slices of a tuple: bounds are clipped, negative bounds count     *)
(* from the end.                                                           *)
PyBound(i, n) == IF i < 0 THEN Max2(i + n, 0) ELSE Min2(i, n)
PyTo(s, b) == SubSeq(s, 1, PyBound(b, Len(s)))                 \* s[:b]
PyFrom(s, a) == SubSeq(s, PyBound(a, Len(s)) + 1, Len(s))      \* s[a:]
PyInsert(l, i, x) == LET j == PyBound(i, Len(l)) IN SubSeq(l, 1, j) \o <<x>> \o SubSeq(l, j + 1, Len(l))

(* ---- JAX primitives the operators delegate to ------------------------- *)

\* jnp.reshape / Array.reshape: row-major order is kept, one -1 is inferred
JnpReshape(sh, ns) ==
  LET n == ProdSeq(sh)
      minus == {i \in 1..Len(ns) : ns[i] = -1}
      known == ProdSeq(SelectSeq(ns, LAMBDA v : v # -1))
  IN IF \E i \in 1..Len(ns) : ns[i] < -1 THEN LeafErr
     ELSE IF Cardinality(minus) > 1 THEN LeafErr
     ELSE IF minus = {} THEN (IF known = n THEN LeafOk(ns, IdPerm(n)) ELSE LeafErr)
     ELSE IF known = 0 THEN LeafErr
     ELSE IF n % known # 0 THEN LeafErr
     ELSE LeafOk([i \in 1..Len(ns) |-> IF ns[i] = -1 THEN n \div known ELSE ns[i]], IdPerm(n))

\* lax.transpose(operand, permutation): permutation must be a permutation of range(ndim);
\* result[mo] = operand[mi] with mi[permutation[k]] = mo[k]
LaxTranspose(sh, perm) ==
  IF ~IsPermOf(perm, Len(sh)) THEN LeafErr
  ELSE LET nd == Len(sh)
           osh == [k \in 1..nd |-> sh[perm[k] + 1]]
           ost == Strides(osh)
           st == Strides(sh)
           pos == [a \in 1..nd |-> CHOOSE k \in 1..nd : perm[k] = a - 1]
           map == [g \in 1..ProdSeq(sh) |->
                     LET mo == UnravelS(osh, ost, g - 1)
                     IN RavelS(st, [a \in 1..nd |-> mo[pos[a]]])]
       IN LeafOk(osh, map)

\* sorted(zip(destination, source)): lexicographic order on pairs
PairLess(a, b) == a[1] < b[1] \/ (a[1] = b[1] /\ a[2] < b[2])
RemoveAt(s, m) == SubSeq(s, 1, m - 1) \o SubSeq(s, m + 1, Len(s))
RECURSIVE SortPairs(_)
SortPairs(ps) ==
  IF ps = <<>> THEN <<>>
  ELSE LET m == CHOOSE i \in 1..Len(ps) : \A j \in 1..Len(ps) : ~PairLess(ps[j], ps[i])
       IN <<ps[m]>> \o SortPairs(RemoveAt(ps, m))
\* for dest, src in ...: perm.insert(dest, src)       (the loop of jax._src.numpy.lax_numpy._moveaxis)
RECURSIVE InsertAll(_, _)
InsertAll(perm, pairs) ==
  IF pairs = <<>> THEN perm
  ELSE InsertAll(PyInsert(perm, pairs[1][1], pairs[1][2]), Tail(pairs))

(* jnp.moveaxis(a, source, destination) (jax 0.11): _canonicalize_axis on  *)
(* every axis (raises when out of bounds), length comparison, then         *)
(*   perm = [i for i in range(ndim) if i not in source]                    *)
(*   for dest, src in sorted(zip(destination, source)): perm.insert(dest,  *)
(*   src);  return lax.transpose(a, perm)                                  *)
(* Repeated axes are not checked for; a repeated source makes perm too     *)
(* long (lax.transpose raises), a repeated destination does not.           *)
JnpMoveaxisPerm(nd, source, destination) ==
  LET src == NpNormAll(source, nd)
      dst == NpNormAll(destination, nd)
      perm0 == SelectSeq(IdPerm(nd), LAMBDA i : i \notin SeqRange(src))
  IN InsertAll(perm0, SortPairs([i \in 1..Len(src) |-> <<dst[i], src[i]>>]))
JnpMoveaxis(sh, source, destination) ==
  LET nd == Len(sh)
  IN IF \E i \in 1..Len(source) : ~(-nd <= source[i] /\ source[i] < nd) THEN LeafErr
     ELSE IF \E i \in 1..Len(destination) : ~(-nd <= destination[i] /\ destination[i] < nd) THEN LeafErr
     ELSE IF Len(source) # Len(destination) THEN LeafErr
     ELSE LaxTranspose(sh, JnpMoveaxisPerm(nd, source, destination))

(* ---- MoveAxisOperator -------------------------------------------------- *)
(* __init__ turns a bare int into a 1-tuple and validates nothing; mv maps *)
(* jnp.moveaxis over the leaves; transpose() builds                        *)
(* MoveAxisOperator(destination, source, in_structure=out_structure()),    *)
(* i.e. the swapped arguments applied to the OUTPUT leaf; inverse =        *)
(* transpose; reduce() is the default (self).                              *)
ImplMoveMvLeaf(sh, source, destination) == JnpMoveaxis(sh, source, destination)
ImplMoveTLeaf(outsh, source, destination) == JnpMoveaxis(outsh, destination, source)

\* MoveAxisInverseRule.apply(left, right): no reduction unless the tuples are swapped
ImplMoveRuleFires(lsrc, ldst, rsrc, rdst) == ~(lsrc # rdst \/ ldst # rsrc)

(* ---- RavelOperator ----------------------------------------------------- *)
\* __init__: if 0 <= last_axis < first_axis or last_axis < first_axis < 0: raise
ImplRavelCtorSameSign(first, last) == (0 <= last /\ last < first) \/ (last < first /\ first < 0)
\* if first_axis < 0 <= last_axis or last_axis < 0 <= first_axis: for leaf in leaves: ...
ImplRavelMixed(first, last) == (first < 0 /\ 0 <= last) \/ (last < 0 /\ 0 <= first)
PyNormAxis(a, ndim) == IF a < 0 THEN ndim + a ELSE a
\*     if first > last: raise
ImplRavelCtorLeafRaises(sh, first, last) == PyNormAxis(first, Len(sh)) > PyNormAxis(last, Len(sh))
\* mv.func(leaf)
ImplRavelMvLeaf(sh, first, last) ==
  LET f == PyNormAxis(first, Len(sh))
      l == PyNormAxis(last, Len(sh))
  IN IF f > l THEN LeafErr                                  \* assert False, 'unreachable'
     ELSE IF f = l THEN LeafOk(sh, IdPerm(ProdSeq(sh)))     \* return leaf
     ELSE JnpReshape(sh, PyTo(sh, f) \o <<-1>> \o PyFrom(sh, l + 1))

(* ---- ReshapeOperator --------------------------------------------------- *)
NormErr == [err |-> TRUE, sh |-> <<>>]
NormOk(sh) == [err |-> FALSE, sh |-> sh]
\* _normalize_shape(shape, leaf_shape)
ImplNormalizeShape(shape, leafsh) ==
  IF \E i \in 1..Len(shape) : shape[i] < -1 THEN NormErr
  ELSE IF -1 \notin SeqRange(shape) THEN NormOk(shape)                     \* shape.index(-1) raises ValueError
  ELSE LET index == CHOOSE i \in 1..Len(shape) : shape[i] = -1 /\ \A j \in 1..(i - 1) : shape[j] # -1
           before == SubSeq(shape, 1, index - 1)
           after == SubSeq(shape, index + 1, Len(shape))
       IN IF -1 \in SeqRange(after) THEN NormErr
          ELSE IF ProdSeq(shape) = 0 THEN NormErr                          \* ZeroDivisionError
          \* unknown_dimension = -prod(leaf_shape) / prod(shape); != int(unknown_dimension) -> raise
          ELSE IF ProdSeq(leafsh) % (-ProdSeq(shape)) # 0 THEN NormErr
          ELSE NormOk(before \o <<ProdSeq(leafsh) \div (-ProdSeq(shape))>> \o after)
\* one iteration of the loop of _check_shape: TRUE = raises
ImplCheckShapeLeafRaises(shape, leafsh) ==
  LET ns == ImplNormalizeShape(shape, leafsh)
  IN ns.err \/ ProdSeq(leafsh) # ProdSeq(ns.sh)
ImplReshapeMvLeaf(sh, shape) == JnpReshape(sh, shape)

(* ---- ReshapeTransposeOperator ------------------------------------------ *)
\* mv: leaf.reshape(out_structure_leaf.shape), out_structure() = operator.in_structure()
ImplReshapeTLeaf(outsh, insh) == JnpReshape(outsh, insh)

\* AbstractRavelOrReshapeOperator.reduce: out_structure() == in_structure() -> IdentityOperator
\* (same container and dtypes on both sides: the comparison is that of the leaf shapes)
ImplReduceIsIdentity(inshapes, outshapes) == outshapes = inshapes

\* ReshapeInverseRule.apply: one operand is the ReshapeTransposeOperator whose .operator IS the other
\* (object identity; objects are numbered)
ImplReshapeRuleFires(transposedId, otherId) == ~(transposedId # otherId)
=============================================================================
