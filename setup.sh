#!/bin/sh
# Offline setup: nothing to build (TLA+ modules are interpreted by TLC, the harness is Python).
# Verifies the tools the checks need are present.
set -e
cd /verif
command -v java >/dev/null
test -f /opt/veriftools/tla/tla2tools.jar
/venv/bin/python -c "import jax, lineax, equinox, numpy" 
mkdir -p build evidence
for m in spec/*.tla; do :; done
echo setup ok
