"""C19 - solver configuration is scoped, restored and captured correctly.

Stage 1: TLC checks FxConfig exhaustively (MC_Config) and generates behaviours
         (FxConfigGen, -simulate); random well-nested programs are also generated here,
         independently of the spec.
Stage 2: every behaviour is executed on real furax.Config / InverseOperator with one real
         thread per context (threads started plainly = fresh context, or through
         contextvars.copy_context().run = copied context) under a baton scheduler, real
         `with` statements and real exceptions.
Stage 3: TLC (Trace_Config) validates every recorded history against the specification.
"""
from __future__ import annotations

import contextlib
import io
import json
import os
import queue
import random
import sys
import threading
import time

import fx

PROP = 'C19'
NCTX = 3

KW_TABLE = {  # mirrors Kw in FxConfig.tla
    1: {'solver': 1},
    2: {'throw': 1, 'cb': 2},
    3: {'solver': 2, 'cb': 1},
    4: {'solver': 0, 'throw': 0},
    5: {'cb': 2},
}

_state = {}


def _setup():
    if _state:
        return _state
    import jax
    import jax.numpy as jnp
    import lineax as lx
    from furax import Config
    from furax._base import config as config_mod
    from furax._base.dense import DenseBlockDiagonalOperator

    solvers = {
        0: config_mod.ConfigState().solver,
        1: lx.CG(rtol=1e-3, atol=1e-3, max_steps=7),
        2: lx.CG(rtol=1e-5, atol=1e-5, max_steps=11),
    }
    fired = []

    def cb1(solution):
        fired.append((1, int(solution.stats['max_steps'])))

    def cb2(solution):
        fired.append((2, int(solution.stats['max_steps'])))

    callbacks = {0: config_mod.default_solver_callback, 1: cb1, 2: cb2}
    op = DenseBlockDiagonalOperator(
        jnp.array([[2.0, 1.0], [1.0, 3.0]], dtype=jnp.float32),
        jax.ShapeDtypeStruct((2,), jnp.float32),
        'ij,j->i',
    )
    # an operator on which no configured solver converges (skew-symmetric: CG breaks down at once): its lazy inverse
    # raises exactly when the configuration it captured says solver_throw=True
    hard = DenseBlockDiagonalOperator(
        jnp.array([[0.0, 1.0], [-1.0, 0.0]], dtype=jnp.float32),
        jax.ShapeDtypeStruct((2,), jnp.float32),
        'ij,j->i',
    )
    _state.update(dict(jax=jax, jnp=jnp, Config=Config, solvers=solvers, callbacks=callbacks,
                       fired=fired, op=op + op, hard=hard))      # a composite (sum): its reduce() builds a new object
    return _state


def _project(cfg) -> dict:
    """ConfigState -> abstract record of FxConfig."""
    st = _setup()
    solver = 99
    for k, s in st['solvers'].items():
        if (type(cfg.solver) is type(s) and cfg.solver.rtol == s.rtol and cfg.solver.atol == s.atol
                and cfg.solver.max_steps == s.max_steps):
            solver = k
    cb = 99
    for k, f in st['callbacks'].items():
        if cfg.solver_callback is f:
            cb = k
    return {'solver': solver, 'throw': int(bool(cfg.solver_throw)), 'cb': cb}


def _kwargs(k: int) -> dict:
    st = _setup()
    out = {}
    for name, v in KW_TABLE[k].items():
        if name == 'solver':
            out['solver'] = st['solvers'][v]
        elif name == 'throw':
            out['solver_throw'] = bool(v)
        elif name == 'cb':
            out['solver_callback'] = st['callbacks'][v]
    return out


class _Leave(Exception):
    pass


class _Stop(BaseException):
    pass


class _Ctx:
    """One context = one real thread executing commands handed over by the driver."""

    def __init__(self, driver, cid: int) -> None:
        self.driver = driver
        self.cid = cid
        self.inbox: queue.Queue = queue.Queue()
        self.outbox: queue.Queue = queue.Queue()
        self.pending = None
        self.prebuilt = None
        self.thread = None
        self.finished = False

    def call(self, cmd):
        self.inbox.put(cmd)
        res = self.outbox.get(timeout=120)
        if isinstance(res, BaseException):
            raise res
        return res

    # ---- runs inside the context's own thread
    def main(self):
        try:
            self.loop(0)
        except _Stop:
            pass
        except BaseException as exc:  # pragma: no cover - reported to the driver
            self.outbox.put(exc)

    def loop(self, depth: int):
        st = _setup()
        Config = st['Config']
        while True:
            cmd = self.inbox.get()
            a = cmd['a']
            try:
                if a == 'Stop':
                    raise _Stop()
                if a == 'New':
                    self.pending = Config(**_kwargs(cmd['n']))
                    self.outbox.put({})
                elif a == 'Prebuild':
                    self.prebuilt = Config(**_kwargs(cmd['n']))      # kept for a later `with`
                    self.outbox.put({})
                elif a in ('Enter', 'EnterPre'):
                    if a == 'Enter':
                        cfgobj, self.pending = self.pending, None
                    else:
                        cfgobj, self.prebuilt = self.prebuilt, None
                    try:
                        with cfgobj:
                            self.outbox.put({})
                            self.loop(depth + 1)
                    except _Leave:
                        pass
                    # the block has been left: acknowledge the Exit command
                    self.outbox.put({})
                elif a == 'Exit':
                    if depth == 0:
                        raise RuntimeError('Exit without an open block')
                    if cmd['s'] == 'exception':
                        raise _Leave()
                    return
                elif a == 'CreateInv':
                    inv = st['op'].I
                    self.driver.invs.append(inv)
                    self.driver.hard_invs.append(st['hard'].I)        # created at the same point: same capture
                    self.outbox.put({'cap': _project(inv.config)})
                elif a == 'ApplyInv':
                    inv = self.driver.invs[cmd['n'] - 1]
                    del st['fired'][:]
                    buf = io.StringIO()
                    with contextlib.redirect_stdout(buf):
                        y = inv(st['jnp'].array([1.0, 2.0], dtype=st['jnp'].float32))
                        st['jax'].block_until_ready(y)
                        st['jax'].effects_barrier()
                    fired = list(st['fired'])
                    out = {'cap': _project(inv.config), 'fired': 0, 'solver': -1,
                           'default_cb_output': buf.getvalue() != ''}
                    if len(fired) == 1:
                        out['fired'] = fired[0][0]
                        steps = fired[0][1]
                        out['solver'] = {500: 0, 7: 1, 11: 2}.get(steps, 99)
                    elif len(fired) > 1:
                        out['fired'] = 98
                    # the same inverse inside an expression that is reduced NOW (under whatever is active now): the
                    # reduced expression must still use the configuration captured at creation
                    from furax._base.core import InverseOperator
                    red = (2 * inv).reduce()
                    inner = [o for o in st['jax'].tree.leaves(red, is_leaf=lambda o: isinstance(o, InverseOperator))
                             if isinstance(o, InverseOperator)]        # wherever the reduced expression keeps it
                    out['cap_red'] = _project(inner[0].config) if len(inner) == 1 else {'solver': 99, 'throw': 99, 'cb': 99}
                    # a view of the inverse taken NOW (its transpose): whatever object that is, the lazy inverse inside it
                    # still holds the configuration captured at creation
                    try:
                        tv = [o for o in st['jax'].tree.leaves(inv.T, is_leaf=lambda o: isinstance(o, InverseOperator))
                              if isinstance(o, InverseOperator)]
                        out['cap_T'] = _project(tv[0].config) if len(tv) == 1 else {'solver': 99, 'throw': 99, 'cb': 99}
                    except Exception:
                        out['cap_T'] = out['cap']          # a refused view says nothing
                    del st['fired'][:]
                    with contextlib.redirect_stdout(io.StringIO()):
                        z = red(st['jnp'].array([1.0, 2.0], dtype=st['jnp'].float32))
                        st['jax'].block_until_ready(z)
                        st['jax'].effects_barrier()
                    fr = list(st['fired'])
                    out['fired_red'] = fr[0][0] if len(fr) == 1 else (0 if not fr else 98)
                    # the effect of the captured solver_throw: a solve that cannot converge raises or returns
                    hinv = self.driver.hard_invs[cmd['n'] - 1]
                    try:
                        with contextlib.redirect_stdout(io.StringIO()):
                            z = hinv(st['jnp'].array([1.0, 2.0], dtype=st['jnp'].float32))
                            st['jax'].block_until_ready(z)
                            st['jax'].effects_barrier()
                        out['raised'] = 0
                    except Exception:
                        out['raised'] = 1
                    del st['fired'][:]
                    self.outbox.put(out)
                elif a == 'Read':
                    self.outbox.put({'val': _project(Config.instance())})
                elif a == 'Spawn':
                    child = self.driver.ctxs[cmd['n']]
                    if cmd['s'] == 'copy':
                        import contextvars

                        cctx = contextvars.copy_context()
                        child.thread = threading.Thread(target=cctx.run, args=(child.main,), daemon=True)
                    else:
                        child.thread = threading.Thread(target=child.main, daemon=True)
                    child.thread.start()
                    self.outbox.put({})
                elif a == 'Finish':
                    self.finished = True
                    self.outbox.put({})
                    return
                else:
                    raise RuntimeError(f'unknown action {a}')
            except (_Leave, _Stop):
                raise
            except BaseException as exc:
                self.outbox.put(exc)


class _Driver:
    def __init__(self) -> None:
        self.ctxs = {c: _Ctx(self, c) for c in range(NCTX)}
        self.invs: list = []
        self.hard_invs: list = []
        self.status = {c: 'idle' for c in range(NCTX)}
        # context 0 is the main context: a fresh thread, i.e. a fresh (default) context
        self.ctxs[0].thread = threading.Thread(target=self.ctxs[0].main, daemon=True)
        self.ctxs[0].thread.start()
        self.status[0] = 'run'

    def observe(self) -> list:
        vals = []
        for c in range(NCTX):
            ctx = self.ctxs[c]
            if self.status[c] == 'run' and ctx.pending is None:
                vals.append(ctx.call({'a': 'Read'})['val'])
            elif self.status[c] == 'run':
                # a Config object is pending (built, not entered): reading is still possible
                vals.append(ctx.call({'a': 'Read'})['val'])
            else:
                vals.append({'solver': -1, 'throw': -1, 'cb': -1})
        return vals

    def step(self, ev: dict) -> dict:
        c = ev['c']
        out = dict(ev)
        res = self.ctxs[c].call(ev)
        if ev['a'] == 'Exit':
            # the first acknowledgement comes from the `with` statement being left
            pass
        if ev['a'] == 'Spawn':
            self.status[ev['n']] = 'run'
        if ev['a'] == 'Finish':
            self.status[c] = 'done'
        out['cap'] = res.get('cap', {'solver': -1, 'throw': -1, 'cb': -1})
        out['fired'] = res.get('fired', -1)
        out['solver'] = res.get('solver', -1)
        out['raised'] = res.get('raised', -1)
        out['cap_red'] = res.get('cap_red', {'solver': -1, 'throw': -1, 'cb': -1})
        out['fired_red'] = res.get('fired_red', -1)
        out['cap_T'] = res.get('cap_T', {'solver': -1, 'throw': -1, 'cb': -1})
        out['vals'] = self.observe()
        return out

    def close(self):
        for c in range(NCTX):
            ctx = self.ctxs[c]
            if ctx.thread is not None:
                ctx.inbox.put({'a': 'Stop'})
                ctx.thread.join(timeout=5)


def complete(events: list[dict]) -> list[dict]:
    """Append the events that close every open block and finish every context, so that each
    history is properly nested and ends with the defaults (pure function of the history)."""
    status = {c: 'idle' for c in range(NCTX)}
    status[0] = 'run'
    depth = {c: 0 for c in range(NCTX)}
    pend = {c: False for c in range(NCTX)}
    for e in events:
        a, c = e['a'], e['c']
        if a == 'New':
            pend[c] = True
        elif a == 'Enter':
            pend[c] = False
            depth[c] += 1
        elif a == 'EnterPre':
            depth[c] += 1
        elif a == 'Exit':
            depth[c] -= 1
        elif a == 'Spawn':
            status[e['n']] = 'run'
        elif a == 'Finish':
            status[c] = 'done'
    out = list(events)
    k = 0
    for c in sorted(status, reverse=True):
        if status[c] != 'run':
            continue
        if pend[c]:
            out.append({'a': 'Enter', 'c': c, 'n': 0, 's': ''})
            depth[c] += 1
        while depth[c] > 0:
            out.append({'a': 'Exit', 'c': c, 'n': 0, 's': 'exception' if k % 2 else 'normal'})
            k += 1
            depth[c] -= 1
        out.append({'a': 'Read', 'c': c, 'n': 0, 's': ''})
        if c != 0:
            out.append({'a': 'Finish', 'c': c, 'n': 0, 's': ''})
    return out


def execute(case: dict) -> dict:
    """Run one history on the real library; returns the recorded trace."""
    _setup()
    events = complete(case['events'])
    drv = _Driver()
    rec = []
    try:
        for ev in events:
            rec.append(drv.step(ev))
    finally:
        drv.close()
    return {'id': case.get('id', fx.case_id(case)), 'events': rec}


# ----------------------------------------------------------------------------- generation

def random_history(rng: random.Random, length: int, max_depth: int, max_inv: int) -> list[dict]:
    """A random well-nested program, generated independently of the specification."""
    status = {c: 'idle' for c in range(NCTX)}
    status[0] = 'run'
    depth = {c: 0 for c in range(NCTX)}
    pend = {c: False for c in range(NCTX)}
    pre = {c: False for c in range(NCTX)}
    ninv = 0
    evs = []
    while len(evs) < length:
        c = rng.choice([c for c in status if status[c] == 'run'])
        if pend[c]:
            evs.append({'a': 'Enter', 'c': c, 'n': 0, 's': ''})
            pend[c] = False
            depth[c] += 1
            continue
        choices = ['Read']
        if depth[c] < max_depth:
            choices += ['New'] * 3
            if pre[c]:
                choices += ['EnterPre'] * 2
        if not pre[c]:
            choices += ['Prebuild']
        if depth[c] > 0:
            choices += ['Exit'] * 2
        if ninv < max_inv:
            choices += ['CreateInv']
        if ninv > 0:
            choices += ['ApplyInv']
        idle = [d for d in status if status[d] == 'idle']
        if idle:
            choices += ['Spawn']
        if c != 0 and depth[c] == 0:
            choices += ['Finish']
        a = rng.choice(choices)
        if a == 'New':
            evs.append({'a': 'New', 'c': c, 'n': rng.randint(1, 5), 's': ''})
            pend[c] = True
        elif a == 'Prebuild':
            evs.append({'a': 'Prebuild', 'c': c, 'n': rng.randint(1, 5), 's': ''})
            pre[c] = True
        elif a == 'EnterPre':
            evs.append({'a': 'EnterPre', 'c': c, 'n': 0, 's': ''})
            pre[c] = False
            depth[c] += 1
        elif a == 'Exit':
            evs.append({'a': 'Exit', 'c': c, 'n': 0, 's': rng.choice(['normal', 'exception'])})
            depth[c] -= 1
        elif a == 'CreateInv':
            evs.append({'a': 'CreateInv', 'c': c, 'n': 0, 's': ''})
            ninv += 1
        elif a == 'ApplyInv':
            evs.append({'a': 'ApplyInv', 'c': c, 'n': rng.randint(1, ninv), 's': ''})
        elif a == 'Spawn':
            d = rng.choice(idle)
            evs.append({'a': 'Spawn', 'c': c, 'n': d, 's': rng.choice(['thread', 'copy'])})
            status[d] = 'run'
        elif a == 'Finish':
            evs.append({'a': 'Finish', 'c': c, 'n': 0, 's': ''})
            status[c] = 'done'
        else:
            evs.append({'a': 'Read', 'c': c, 'n': 0, 's': ''})
    return evs


MC_CFG = """SPECIFICATION Spec
CONSTANTS
  Ctx = {ctx}
  MaxDepth = {depth}
  MaxInv = {inv}
  NKw = {nkw}
  MaxLevel = {level}
INVARIANT TypeOK
INVARIANT ActiveIsInnermost
INVARIANT EndsWithBase
INVARIANT MainBaseIsDefault
INVARIANT CapturedAtCreation
PROPERTY ExitRestores
PROPERTY Isolation
PROPERTY CapturedStable
CONSTRAINT LevelBound
CHECK_DEADLOCK FALSE
"""

GEN_CFG = """INIT GenInit
NEXT GenNext
CONSTANTS
  Ctx = {{0, 1, 2}}
  MaxDepth = 3
  MaxInv = 2
  NKw = 5
  GenLen = {genlen}
INVARIANT Emit
CHECK_DEADLOCK FALSE
"""

TRACE_CFG = """INIT TraceInit
NEXT TraceNext
CONSTANTS
  Ctx = {0, 1, 2}
  MaxDepth = 64
  MaxInv = 64
  NKw = 5
INVARIANT TraceInv
INVARIANT Verdict
CHECK_DEADLOCK FALSE
"""


def binding_selftest(traces: list[dict], rng: random.Random) -> list[dict]:
    """Corrupted copies of recorded histories that Trace_Config must reject (the binding is not vacuous):
      field   : one observed configuration value changed at one event        -> val
      nohook  : one recorded Enter event removed (as if its hook were missing) -> not_enabled / val
      capture : the options an inverse reports at application changed          -> captured_at_apply"""
    import copy

    out = []
    pool = [t for t in traces if len(t['events']) >= 4]
    for i, t in enumerate(rng.sample(pool, min(len(pool), 30))):
        evs = t['events']
        idx = [j for j, e in enumerate(evs) if any(v['solver'] != -1 for v in e['vals'])]
        if idx:
            c = copy.deepcopy(t)
            j = rng.choice(idx)
            v = next(v for v in c['events'][j]['vals'] if v['solver'] != -1)
            v['solver'] = 1 + (v['solver'] % 3) if v['solver'] in (1, 2, 3) else v['solver'] + 1
            c['id'], c['expect'] = f'selftest-field-{i}', ['val']
            out.append(c)
        ent = [j for j, e in enumerate(evs) if e['a'] == 'Enter']
        if ent:
            c = copy.deepcopy(t)
            del c['events'][rng.choice(ent)]
            c['id'], c['expect'] = f'selftest-nohook-{i}', ['not_enabled', 'val']
            out.append(c)
        app = [j for j, e in enumerate(evs) if e['a'] == 'ApplyInv' and e['cap']['solver'] != -1]
        if app:
            c = copy.deepcopy(t)
            e = c['events'][rng.choice(app)]
            e['cap'] = dict(e['cap'], throw=1 - e['cap']['throw'] if e['cap']['throw'] in (0, 1) else 0)
            c['id'], c['expect'] = f'selftest-capture-{i}', ['captured_at_apply']
            out.append(c)
            c = copy.deepcopy(t)
            e = c['events'][rng.choice(app)]
            e['raised'] = 1 - e['raised']
            c['id'], c['expect'] = f'selftest-throw-{i}', ['throw_used']
            out.append(c)
    return out


def validate_traces(traces: list[dict]) -> tuple[list[dict], fx.TlcResult]:
    """Stage 3: batch trace validation by TLC. Returns the verdict records."""
    fx.BUILD.mkdir(exist_ok=True)
    verdicts = []
    total = None
    batch = 2500
    for i in range(0, len(traces), batch):
        path = fx.BUILD / f'c19-traces-{os.getpid()}-{i}.json'
        path.write_text(json.dumps(traces[i:i + batch]))
        try:
            res = fx.run_tlc('Trace_Config', TRACE_CFG, workers=8, env={'TRACE_FILE': str(path)},
                             tag='trace')
        finally:
            path.unlink(missing_ok=True)
        if res.violated:
            raise fx.MachineryError(f'trace spec invariant {res.violated} violated:\n' + res.stdout[-3000:])
        verdicts += [p for kind, p in res.prints if kind == 'VERDICT']
        if total is None:
            total = res
        else:
            total.merge(res)
    return verdicts, total


def run(tier: str, seed: int) -> int:
    t0 = time.time()
    verd = fx.Verdicts(PROP)
    # ---- stage 1a: exhaustive design-level check
    if tier == 'quick':
        bounds = dict(ctx='{0, 1}', depth=2, inv=1, nkw=2, level=40)      # 92 000 states: the whole bounded space
        nsim, genlen, nrand = 400, 10, 300
    else:
        bounds = dict(ctx='{0, 1}', depth=2, inv=1, nkw=3, level=40)      # 16.5 million states (about 6 minutes)
        nsim, genlen, nrand = 4000, 14, 4000
    mc = fx.run_tlc('MC_Config', MC_CFG.format(**bounds), workers=fx.NPROC, tag='mc')
    if mc.violated:
        raise fx.MachineryError(f'FxConfig violates {mc.violated} at design level:\n' + mc.stdout[-3000:])
    # ---- stage 1b: behaviours from the spec (simulation) and independent random programs
    gen = fx.run_tlc('FxConfigGen', GEN_CFG.format(genlen=genlen), workers=1,
                     simulate=f'num={nsim}', depth=genlen + 1, seed=seed + 1, tag='gen')
    rng = random.Random(seed)
    spec_cases = gen.cases
    rng.shuffle(spec_cases)
    spec_cases = spec_cases[: nsim * 3]
    rand_cases = [{'events': random_history(rng, rng.randint(4, genlen + 6), 4, 3)} for _ in range(nrand)]
    # the `with` idiom itself (New immediately followed by Enter), deep nesting beyond the TLC bound
    deep = []
    for d in (4, 6, 8):
        evs = []
        for i in range(d):
            evs += [{'a': 'New', 'c': 0, 'n': 1 + (i % 5), 's': ''}, {'a': 'Enter', 'c': 0, 'n': 0, 's': ''}]
            if i == d // 2:
                evs += [{'a': 'CreateInv', 'c': 0, 'n': 0, 's': ''}]
        evs += [{'a': 'ApplyInv', 'c': 0, 'n': 1, 's': ''}]
        deep.append({'events': evs})
    # a Config object built first and entered later, inside other blocks (and an inverse created after it is left)
    for k_outer, k_pre in ((1, 2), (3, 5), (2, 4), (3, 4)):
        deep.append({'events': [
            {'a': 'Prebuild', 'c': 0, 'n': k_pre, 's': ''},
            {'a': 'New', 'c': 0, 'n': k_outer, 's': ''}, {'a': 'Enter', 'c': 0, 'n': 0, 's': ''},
            {'a': 'EnterPre', 'c': 0, 'n': 0, 's': ''}, {'a': 'Read', 'c': 0, 'n': 0, 's': ''},
            {'a': 'Exit', 'c': 0, 'n': 0, 's': 'normal'}, {'a': 'Read', 'c': 0, 'n': 0, 's': ''},
            {'a': 'CreateInv', 'c': 0, 'n': 0, 's': ''}, {'a': 'ApplyInv', 'c': 0, 'n': 1, 's': ''}]})
    cases = []
    for src, group in (('spec', spec_cases), ('random', rand_cases), ('deep', deep)):
        for c in group:
            c = {'events': c['events'], 'src': src}
            c['id'] = fx.case_id(c)
            cases.append(c)
    # ---- stage 2: execution on real threads / contexts
    traces = fx.replay('c19', 'execute', cases, procs=fx.NPROC, chunksize=8)
    # ---- stage 3: TLC validates the recorded histories
    verdicts, tv = validate_traces(traces)
    # corrupted copies of ACCEPTED histories only (a corrupted observation of a history that is already rejected could
    # happen to repair it)
    good = {v['id'] for v in verdicts if not v['bad']}
    selftests = binding_selftest([t for t in traces if t['id'] in good], random.Random(seed + 5))
    sverdicts, stv = validate_traces([{k: v for k, v in s.items() if k != 'expect'} for s in selftests]) if selftests else ([], None)
    st = {}
    expect = {s['id']: s['expect'] for s in selftests}
    for v in sverdicts:
        kind = v['id'].split('-')[1]
        rec = st.setdefault(kind, {'corrupted': 0, 'rejected': 0})
        rec['corrupted'] += 1
        rec['rejected'] += bool({b['clause'] for b in v['bad']} & set(expect[v['id']]))
    for kind, rec in st.items():
        # a trace specification that accepts corrupted recordings decides nothing: machinery failure, not a verdict
        if rec['rejected'] < (rec['corrupted'] if kind != 'nohook' else (4 * rec['corrupted']) // 5):
            raise fx.MachineryError(f"binding self-test: only {rec['rejected']} of {rec['corrupted']} corrupted histories ({kind}) rejected")
    by_id = {c['id']: c for c in cases}
    if len(verdicts) != len(traces):
        raise fx.MachineryError(f'{len(traces)} traces but {len(verdicts)} verdicts')
    accepted = 0
    for v in verdicts:
        if v['bad']:
            clauses = sorted({b['clause'] for b in v['bad']})
            first = min(b['l'] for b in v['bad'])
            tr = next(t for t in traces if t['id'] == v['id'])
            ev = tr['events'][first - 1]
            key = f"{'+'.join(clauses)}@{ev['a']}"
            verd.report(key, '+'.join(clauses), by_id[v['id']],
                        {'first_bad_event': first, 'event': ev, 'bad': v['bad']})
        else:
            accepted += 1
    rc = verd.finish()
    nontrivial = fx.nontrivial_count(
        cases, lambda c: sum(e['a'] in ('Enter', 'Exit') for e in c['events']) >= 2)
    fx.write_evidence(PROP, tier, seed, {
        'states': mc.distinct + tv.distinct,
        'transitions': mc.generated + tv.generated,
        'traces_validated_against_impl': accepted,
        'evaluations': len(cases),
        'distinct_nontrivial': nontrivial,
        'rule': 'histories = TLC -simulate behaviours of FxConfigGen + seeded random well-nested '
                'programs + deep nestings, each completed by closing events; non-trivial = at '
                'least two Enter/Exit events; distinct by canonical JSON',
        'exhaustive': False,
        'design_model': {'bounds': bounds, 'distinct_states': mc.distinct, 'generated': mc.generated,
                         'depth': mc.depth, 'exhaustive_within_bounds': True},
        'trace_validation': {'distinct_states': tv.distinct, 'traces': len(traces),
                             'rejected': len(traces) - accepted},
        'binding_selftest': st,
        'sources': {'spec_simulation': len(spec_cases), 'random_programs': len(rand_cases), 'deep': len(deep)},
        'samples': [traces[0], traces[len(traces) // 2]],
    }, [
        'Python threads start from an empty context; contextvars.copy_context() snapshots (CPython semantics)',
        'each context is a real thread; interleaving is imposed by a baton, so only one thread runs at a time',
        'solver identity is observed through rtol/atol/max_steps and through the captured callback firing',
    ], time.time() - t0, len(verd.violations))
    return rc


def replay_file(path: str) -> int:
    """./check C19 --replay FILE : rerun stages 2-3 on the recorded history alone."""
    doc = json.loads(open(path).read())
    case = doc['case'] if 'case' in doc else doc
    case = {'events': case['events'], 'id': case.get('id', 'replay')}
    traces = fx.replay('c19', 'execute', [case], procs=1)
    verdicts, _ = validate_traces(traces)
    v = verdicts[0]
    print(json.dumps({'trace': traces[0], 'verdict': v}, indent=1))
    if v['bad']:
        print(f'VIOLATION property={PROP} replay={path}')
        return 1
    return 0
