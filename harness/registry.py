"""Single source of truth for MANIFEST.json (tools/mkmanifest.py)."""

TECH = 'TLA+ specification model-checked by TLC; '

CHECKS = {
    'C18': dict(
        text='FxPytree.tla tabulates, per operator class, the dynamic fields (array / boolean-array / python-int leaves, operator '
             'sub-trees) and the static ones, and the control dependencies of mv (values deciding shapes or Python branches); a mode '
             '(eager, jit over a closure, filtering jit, flatten/unflatten) traces some field types, and TLC checks for all 25 class '
             'entries x 4 modes that mv can run exactly when the statement says (everything except boolean-mask selection under the '
             'filtering jit), that every field survives the round trip, and for the landscapes that the aux_data keys are constructor '
             'parameters. Concrete subjects of every class come from MC_Terms with their exact matrices; each is executed in the four '
             'modes and both x64 modes (values, shapes, dtypes equal to eager; eager equal to the spec matrix), plus a boolean-mask '
             'IndexOperator and a PackOperator on a Stokes container; Healpix/Frequency landscapes are flattened and unflattened '
             '(attributes, structure, zeros(), world2index, jit over a closure). The class tables are compared with the real '
             'dataclass fields / static markers by introspection and differences are recorded as drift.',
        note='The control-dependency table is a reading of the code whose truth is established by the executions; the model is '
             'the enumerator and the statement of why each field must be static.',
        technique=TECH + 'class/mode table checked by TLC, every subject executed in the four modes on the real library',
        design_ref='DESIGN.md §4 C18'),
    'C16': dict(
        text='FxPointing.tla transcribes get_rotation_matrix entry by entry over exact (cos, sin) pairs (quarter turns and '
             'Pythagorean angles) and TLC checks it equals Rz(phi) Ry(theta) Rz(psi), is orthogonal with determinant one '
             '(ASSUME, all 17 Euler triples, incl. colatitudes inside both polar caps); MC_Pointing rotates exact unit detector directions one sample per step (the '
             'loop of the einsum) over 6 layouts (1-2 detectors x 1-2 directions) and every sequence of <= 2 (quick) / 3 '
             '(thorough) pointings, with unit-norm and count invariants, and emits the exact rotated directions and the exact '
             '(cos 2psi, sin 2psi). Replay on create_projection_operator / create_acquisition for the four Stokes kinds and '
             'nside 1,2,4(,8): every TOD entry of the projection against sky[pix(R_t d)] with (Q,U) rotated by 2psi_t, every '
             'entry of the SAT acquisition against (I + Q cos 2psi - U sin 2psi)/2, before and after reduce(), and P^T P '
             '(unreduced and reduced, and as_matrix for nside 1) against the diagonal of hit counts per Stokes component; '
             '64-bit and 32-bit modes.',
        note='The pixel containing an exact direction is taken from healpy.vec2pix (C17 binds furax/jax_healpy to healpy); '
             'entries whose direction is within 1e-6 (x64) / 2e-3 (x32) of a pixel border are dropped and counted; pointings '
             'from the exact family only; create_random_sampling is not exercised.',
        technique=TECH + 'exact rotated directions replayed on the real projection / acquisition operators against the explicit pointing model',
        design_ref='DESIGN.md §4 C16'),
    'C12': dict(
        text='FxIndex.tla states NumPy indexing x[items] as an exact selection map (output shape and, for every output position, '
             'the input position) for tuples of integers, slices (steps 1, 2, -1, None bounds), one ellipsis and one array-like item '
             '(integer array of rank 1-2 with negative and repeated entries, or boolean mask of rank 1-2) including NumPy\'s '
             'adjacency rule for integers next to an array, and transcribes IndexOperator\'s own logic (unique_indices, indexed_axes, '
             'reduce, IndexTransposeRule, TransposeIndexRule with its multiplicity diagonal). MC_Index builds every legal expression '
             'of <= 3 items per leaf shape and checks: derived unique flag => no input selected twice, P@P.T rewritten only then, '
             'P.T@P diagonal = true multiplicities, indexed_axes = the non-full entries, reduce() to identity only for the identity '
             'selection. Replay: IndexOperator built with and without out_structure over a leaf, a list of leaves and a Stokes '
             'container: mv = selection, transpose = scatter-add, attributes, both products reduced (class and dense matrix), '
             'PackOperator = indexing by the mask; NumPy is consulted as a second reference.',
        note='One array-like item per expression in the TLA+ reference; leaf rank <= 3 with dims 2..3; a missed simplification '
             'is recorded as information, only unsound ones are violations.',
        technique=TECH + 'exact selection maps replayed on the real IndexOperator/PackOperator and their reduced products',
        design_ref='DESIGN.md §4 C12'),
    'C02': dict(
        text='MC_Arith.tla runs sessions of one or two dunder calls (@, +, -, unary -, unary +, k*A, A*k, A/k) over 18 operands of '
             'every kind (plain operators, a composition, a sum, identities, scalar operators, lazy inverses next to their own '
             'operand, a rotation next to its transpose, operands on incompatible structures) and 5 scalar kinds (int, float, NumPy '
             'scalar, 0-d JAX array, 1-d array). `res` is the term the dunders of FxAlgebra build (NotImplemented hand-over, '
             'flattening, identity absorption, scalar merging, own-inverse collapse), `ghost` is plain matrix arithmetic on the '
             'operand matrices. TLC checks in every state: refused <=> structures mismatch (or non-scalar factor), Den(res) = ghost, '
             'sizes, and associativity of @ and + over all operand triples (ASSUME). Every one-call session and all (thorough) / a '
             'stratified sample (quick) of the two-call sessions are evaluated as Python expressions on the real operators: raised '
             '<=> ghost refused, dense matrix = ghost matrix, in both x64 modes. MC_Session.tla is the top-level system model: a heap '
             'of operator objects with the public operations (@, +, -, unary -, k*, .T, .I, reduce()) as actions and a ghost meaning '
             'per object; HeapMeaning / HeapSizes / HeapAsMatrix / InversesInvert / ReducedNormal hold in every reachable state (2 operands '
             'out of 8 (quick) / 15 (thorough) + 2 derived objects) and the histories are replayed the same way.',
        note='Singular operands of lazy inverses excluded; NumPy ndarray left factors out of scope; two calls deep.',
        technique=TECH + 'spec sessions replayed as Python expressions on the real operators, results compared with the ghost matrix',
        design_ref='DESIGN.md §4 C02'),
    'C03': dict(
        text='MC_Terms.tla enumerates the subjects (every atom of FxSigma - all operator classes incl. dense/einsum, Toeplitz, '
             'diagonal, broadcast-diagonal, index, pack, move-axis, reshape, ravel, QU rotation, HWP, polariser, identity, '
             'scalar - and the templates x@y, x+y, x-y, k*x, block row/diagonal/column over list/tuple/dict/nested containers, '
             'x@y@z, each also transposed or inverted first) and checks, with the transpose built as each class builds it, '
             'Den(T(t)) = Den(t)^T, swapped structures, Den(T(T(t))) = Den(t), and T(t) = t for the symmetric classes. Every '
             'subject (quick: every atom plus a stratified sample) is built on the real library: dense matrices of op.T and '
             'op.T.T by basis probes against the transposed spec matrix, structures, `op.T is op` for symmetric classes, and '
             '<Ax,y> = <x,A^T y> on integer vectors; every dense (einsum) subject is also built with complex blocks '
             '(transpose, not adjoint: dense(op.T) = dense(op)^T without conjugation).',
        note='Transposes of the iterative inverse are excluded as in the statement; the observation-matrix operator needs a '
             'TOAST file and is not in the alphabet; exact finite parameter domain; tolerance 2e-4 (f32), 1e-9 (f64).',
        technique=TECH + 'spec-derived transposes compared with the real op.T / op.T.T by basis probes',
        design_ref='DESIGN.md §4 C03'),
    'C04': dict(
        text='FxViews.AsMatrix transcribes every as_matrix() override (identity, scalar, diagonal and its pseudo-inverse, sums, '
             'block row/diagonal/column = hstack/block_diag/vstack in leaf order, reshape/ravel, Toeplitz, lazy inverses) and '
             'TLC checks AsMatrix(t) = Den(t) (column j = op(e_j), leaves in pytree order, row-major) for every subject of '
             'MC_Terms. On the real library each subject is probed on the full basis and compared with the spec matrix, '
             'op.as_matrix() and (for every atom and a sample of composites) the generic AbstractLinearOperator.as_matrix(op) '
             'are compared with it, op(x) = as_matrix() @ flat(x), and linearity is witnessed on three integer combinations '
             'with mixed signs plus op(0) = 0.',
        note='Linearity of mv is sampled (finitely many combinations), everything else follows from it; dict containers are '
             'built in non-sorted insertion order.',
        technique=TECH + 'spec matrix vs basis probes, as_matrix() overrides and the generic as_matrix on the real operators',
        design_ref='DESIGN.md §4 C04'),
    'C05': dict(
        text='FxTerms.InS/OutS give the declared structures of every term as the code computes them (square decorators, '
             'block/sum/composition overrides, lazy duals); for every subject of MC_Terms the real in_structure()/out_structure() '
             'are compared (as projected pytrees: container kinds, leaf shapes, leaf dtypes) with the spec, with the structure '
             'of what mv actually returns, with jax.eval_shape, with in_size/out_size and the promoted dtypes; the same for '
             'op.T and op.reduce(). Three modes: 32-bit, 64-bit with float32 data, 64-bit with float64 data.',
        note='dtype flow is decided by execution; operator parameters are created with the data dtype (the quantifier); '
             'mixed-dtype pytrees only through block-diagonal containers of same-dtype blocks.',
        technique=TECH + 'declared vs actual vs spec structures on the real operators in three dtype modes',
        design_ref='DESIGN.md §4 C05'),
    'C06': dict(
        text='FxAlgebra.Inverse builds the inverse as each class does (scalar reciprocal, diagonal pseudo-inverse, block-wise, '
             'orthogonal = transpose, move-axis = transpose, lazy solver otherwise, refusal of non-square operands); TLC checks '
             'Den(I(t)) Den(t) = I = Den(t) Den(I(t)), Den(I(I(t))) = Den(t), as_matrix of the inverse, the four Penrose identities '
             'for diagonals with zero entries, and refusal of non-square subjects. Replay: dense matrices of op.I, op.I.I, '
             'as_matrix(op.I), op.I(op(x)) = x = op(op.I(x)), finiteness (no NaN/Inf) for zero diagonal entries, CG solves of the '
             'symmetric positive-definite subjects (size <= 4) against the exact rational inverse.',
        note='Solver convergence is checked on the SPD subjects of the alphabet only (numeric accuracy is outside the model).',
        technique=TECH + 'spec-derived inverses compared with the real op.I by basis probes and round trips',
        design_ref='DESIGN.md §4 C06'),
    'C08': dict(
        text='FxViews.Tags is the class table the decorators register; TLC checks on every subject that each claimed tag is true '
             'of the exact matrix (symmetric, diagonal, triangular, tridiagonal, positive/negative semidefinite by principal '
             'minors), orthogonal classes have M^T M = I and inverse = transpose, square classes have equal structures, symmetric '
             'classes return themselves on transposition. Replay: every lineax tag function is queried on the real operator and '
             'each tag it claims is checked against the real dense matrix (independently of the table, so a newly added wrong '
             'tag is caught), `op.T is op`, class-level orthogonal/square decorators against the matrix and op.I. MC_Tags.tla models the decorators themselves on user-defined classes (one class per exported decorator and per pair, witness matrices that satisfy exactly the claimed tags): the registry after decoration, the tags of op, op.T and op.I, and what must not be inherited by a transposed / inverted view; replayed by defining those classes at run time against the real decorators.',
        note='Semidefiniteness on the replay side by eigenvalues of the symmetric part; parameter domain finite.',
        technique=TECH + 'tags queried on the real operators judged against the real and the spec matrix',
        design_ref='DESIGN.md §4 C08'),
    'C10': dict(
        text='Block subjects of MC_Terms (row/diagonal/column over list, tuple, dict (non-sorted insertion), single-block and '
             'nested containers, blocks with pytree inputs/outputs) : TLC checks Den = hstack/block_diag/vstack of the blocks in '
             'leaf order, the kind of the transpose, block-wise inverse; the reductions of adjacent block operators are covered by '
             'MC_Nested (C01/C07). Replay: mv on the basis, as_matrix(), .T, .I, declared structures, and refusal at construction '
             'of rows/columns whose blocks disagree on the shared structure.',
        note='Arity <= 3, nesting depth <= 2.',
        technique=TECH + 'block subjects replayed on the real block operators, products through Trace_Reduce in C01/C07',
        design_ref='DESIGN.md §4 C10'),
    'C15': dict(
        text='MC_Polar enumerates, per Stokes kind (I, QU, IQU, IQUV), every chain of length <= 3 (quick) / 4 (thorough) over '
             'four QU rotations with different angle arrays (scalar and one angle per element), their transposes, the HWP '
             'and the polariser, steps the reduction scan and checks on exact rational Mueller matrices: R(a)R(b)=R(a+b), '
             'R(a)^T=R(-a), R(a)HWP=HWP R(-a), Pol HWP=Pol, orthogonality, HWP^2=I (ASSUME, all pairs of angle arrays), '
             'soundness and normal form of every reduction. Every chain is executed on the real operators with the exact '
             'angles, with the angle linear forms instantiated on seeded random real angle arrays of broadcastable shapes '
             '(matrix = product of Mueller matrices computed independently; surviving rotation angle = the spec form; leaves of shape (2,) and (2,2), angles as JAX and as NumPy arrays whose buffers must not be written to), and '
             'through the create() factories when the chain is a factory product; before and after reduce(), x64 off and on; '
             'recorded reductions validated by TLC (Trace_Reduce).',
        note='Exact angle domain = integer combinations of pi/4 and atan2(4,3)/2 (cos/sin rational); real-angle lifting is '
             'sampled (one seeded draw per chain); Stokes leaves of shape (2,); tolerances 3e-5 (f32) / 1e-9 (f64).',
        technique=TECH + 'spec chains replayed on real operators (exact angles, lifted real angle arrays, factories), reductions validated by TLC',
        design_ref='DESIGN.md §4 C15',
    ),
    'C01': dict(
        text='FxTerms/FxAlgebra give every operator term an exact rational matrix and transcribe the rule table, '
             'the n-ary rules, the scan of AlgebraicReductionRule.apply (one loop iteration per TLC step) and '
             'reduce() per class. TLC checks on every well-typed chain (length<=3 over 78 atoms incl. pytree-structured, block and '
             'deceptive move-axis atoms; length 4 over 8 operators of one space; <=4 over 34 in thorough; plus TLC -simulate random '
             'walks through chains of up to 8-10 operators) and '
             'on nested terms (block products over list/tuple/dict/nested containers, sums, inverses of composites) '
             'that every intermediate operand list denotes the original product, keeps the end structures, never '
             'raises and terminates. Every emitted term (sampled in quick) is reduced by the real library under '
             'rule wrappers; dense matrices before/after are compared with the spec matrix and the recorded '
             'firings/result are validated by TLC (Trace_Reduce): each firing sound, result denotes the input; the unreduced operator '
             'is probed again after reduce() (no mutation of operands).',
        note='Bounded length/depth and an exact finite parameter domain; real matrices obtained by basis probes with '
             'a 2e-4 relative tolerance; projection of real objects to terms (harness/terms.py) is trusted and '
             'cross-checked by the input_projection clause.',
        technique=TECH + 'spec-generated terms replayed on real reduce(), recorded rule firings validated by TLC (Trace_Reduce)',
        design_ref='DESIGN.md §4 C01',
    ),
    'C07': dict(
        text='Same models as C01: TLC checks that the stepped scan ends in NormalChain (no applicable rule on any '
             'adjacent pair, no identity, at most one scalar on the not-larger side) for every chain/nested term in '
             'scope, i.e. every documented pattern in every context of the bound. The projected result of the real '
             'reduce() is judged by TLC with the same NormalChain / Applicable predicates (Trace_Reduce).',
        note='Normal form is judged on the projection of the real result (class kinds, identities, parameters); '
             'unknown classes project to opaque atoms for which no rule applies.',
        technique=TECH + 'NormalChain evaluated by TLC on projected results of the real reduce()',
        design_ref='DESIGN.md §4 C07',
    ),
    'C19': dict(
        text='FxConfig.tla models the context variable, the (instance, token) stack of entered blocks and the '
             'capture by lazy inverses next to a ghost statement of C19; TLC checks the five invariants and three '
             'action properties over all interleavings of two or three contexts within the bounds. Behaviours '
             'generated by TLC (-simulate) and independent random well-nested programs are executed on real '
             'threads / copied contexts with real `with` blocks and exceptions, and every recorded history is '
             'validated by TLC against the same specification (Trace_Config.tla), every step compared.',
        note='Bounded nesting depth/contexts at design level; CPython contextvars semantics; the baton scheduler '
             'serialises the threads so that the interleaving is exactly the generated one.',
        technique=TECH + 'spec behaviours replayed on real threads/contexts, recorded traces validated by TLC (Trace_Config)',
        design_ref='DESIGN.md §4 C19',
    ),
}

NOT_YET = {}


def _load_fragments():
    import json
    from pathlib import Path

    for p in sorted(Path(__file__).resolve().parent.glob('registry_c*.json')):
        pid = p.stem.split('_')[1].upper()
        if pid not in CHECKS:
            CHECKS[pid] = json.loads(p.read_text())


_load_fragments()


# additions after the third round of seeded changes (appended to the texts above)
EXTRA = {
    'C01': ' Binding self-test: corrupted copies of the recorded traces (result replaced by the input, a firing\'s output '
           'dropped, another trace\'s result) must be rejected by Trace_Reduce in the same batch. The alphabet includes '
           'indexings that keep the shape without being the identity (a permutation, a repeated negative index).',
    'C02': ' Every one-call session over integer-parameter operands is replayed once more on int32 data (a fractional '
           'scalar factor or divisor must stay fractional).',
    'C03': ' The quick tier replays every product, sum and difference of two operands (all ordered pairs of classes).',
    'C04': ' A mixed-dtype mode replays the einsum / broadcast-diagonal subjects (alone and after relabelling operators) on '
           'int32 data with non-integer float32 parameters: as_matrix, the generic as_matrix and linearity must follow the '
           'dtype promotion.',
    'C06': ' Tiny diagonal entries (2^-30) must be inverted, not treated as zero.',
    'C07': ' Clause less_reduced: the real result may not keep more factors than the documented scan leaves. The indexing '
           'patterns are also replayed on the index expressions of MC_Index (several indexed axes, slices, masks): where '
           'FxIndex says the rule applies, (P @ P.T).reduce() must be the identity and (P.T @ P).reduce() a diagonal '
           'operator. Every validation batch carries corrupted copies of recorded traces that Trace_Reduce must reject.',
    'C10': ' Pytree-valued blocks over list and tuple containers (BRl/BRt, BCl/BCt): refusals decided by the tree structure '
           'alone are marked by the spec (near) and always replayed; containers of six and seven blocks include '
           'tuple-valued blocks.',
    'C12': ' PackOperator is replayed for masks of lower rank than the leaf as well.',
    'C13': ' The quick tier replays 3000 refusals, among them every refused ravel over two leaves of different shapes.',
    'C14': ' In the pytree case the ellipsis of a leaf stands for one or two dimensions (leaves of rank >= 3).',
    'C15': ' Every factory product is always replayed; in 64-bit mode also with float32 data and float64 angles whole '
           'turns away.',
    'C16': ' Pointings with colatitudes inside both polar caps are part of the exact family.',
    'C17': ' Hit sequences are also sampled as (2, L/2) and (1, L) arrays.',
    'C18': ' Landscapes are declared with the default (float64), float16, float32 and float64 dtypes and round-tripped in '
           'both 64-bit modes.',
    'C19': ' The effect of the captured settings is observed, not only their values: every lazy inverse has a twin on an '
           'operator no solver converges on, which must raise exactly when the CAPTURED solver_throw is set (clause '
           'throw_used). Corrupted copies of accepted histories must be rejected by Trace_Config (binding self-test).',
    'C20': ' The helper pytree with three leaves has two leaves of the same shape (any two dtypes).',
}
for _pid, _txt in EXTRA.items():
    if _pid in CHECKS and _txt not in CHECKS[_pid]['text']:
        CHECKS[_pid]['text'] += _txt

# additions after the fourth round of seeded changes
EXTRA4 = {
    'C02': ' Operands next to their own lazy (generic) transpose (index with repeats, broadcast diagonal): A @ A.T is not the identity.',
    'C06': ' A diagonal whose entries are seven orders of magnitude apart (2^-12, 2^12) must be inverted entry by entry.',
    'C11': ' Leaves of rank 0 (a scalar leaf alone or next to an array) are part of the bounded domain.',
    'C12': ' Integer index arrays are replayed in every integer dtype that can hold them (signed and unsigned); an all-True mask '
           'of rank 2 and reduce() of the pack operator are covered.',
    'C14': ' The valid strings are replayed once more on int32 leaves with half-integer float32 blocks (mv only: promotion).',
    'C17': ' world2index is also compared with healpy at the centres of equatorial-belt pixels beyond 2^24 (nside 2048, 4096) in '
           'both precision modes; constant-elevation samplings (scalar theta) are part of the coverage replay.',
    'C18': ' In a fresh process the jitted application comes first for every Toeplitz method (and a few other classes), then '
           'eager / second jit / unflattened copy / as_matrix; one filtering jit is shared by lazy inverses that differ only in '
           'captured solver options / solvers.',
    'C19': ' FxConfig also models Config objects built earlier and entered later (Prebuild / EnterPre); the inverted operator is a '
           'composite and every application also goes through (2 * inv).reduce() (clauses captured_after_reduce, '
           'callback_used_after_reduce).',
}
for _pid, _txt in EXTRA4.items():
    if _pid in CHECKS and _txt not in CHECKS[_pid]['text']:
        CHECKS[_pid]['text'] += _txt

# additions after the fifth round of seeded changes
EXTRA5 = {
    'C01': ' Nested template 12: the block product rules with the LEFT container the shallower one.',
    'C02': ' The quick tier always replays the sessions in which the third operand is a view (inverse / transpose) of one of '
           'the first two, in both groupings.',
    'C05': ' A mixed-dtype mode (64-bit, float32 and float64 leaves in one pytree) replays the leaf-wise subjects; scaled '
           'subjects are built through the dunder with a weakly typed Python scalar.',
    'C08': ' An indefinite symmetric Toeplitz atom keeps the positive-semidefinite tag honest.',
    'C14': ' Injected strings with an upper-case batch letter next to the lower-case contracted letter.',
    'C16': ' Pointings within a milliradian of either pole come from a Python transcription of FxPointing (integers beyond 32 '
           'bits) that must reproduce every case TLC emits.',
    'C17': ' Coordinates far outside the map along a slow axis (stride products beyond 2^32) must still give -1.',
    'C18': ' Every fresh subject is also passed as an argument to a filtering jit (short Toeplitz operators with the default FFT '
           'size included); the shared filtering jit also sees k * op for Python scalars equal in value and different in type.',
    'C19': ' Clause captured_in_transposed_view: the lazy inverse inside inv.T still holds the capture.',
    'C20': ' dot(x, x) with one object on both sides; adding a zero scalar on either side of float and integer containers is '
           'compared with the leaf-wise result.',
}
for _pid, _txt in EXTRA5.items():
    if _pid in CHECKS and _txt not in CHECKS[_pid]['text']:
        CHECKS[_pid]['text'] += _txt

# additions after the sixth (short) round
EXTRA6 = {
    'C02': ' One operand is a composition that still carries two unmerged scalar factors.',
    'C18': ' The shared filtering jit also sees 1.0 * op, 1 * op and op / 1 on integer leaves.',
    'C20': ' dot of all-integer leaves must be the exact integer sum with an integer dtype.',
}
for _pid, _txt in EXTRA6.items():
    if _pid in CHECKS and _txt not in CHECKS[_pid]['text']:
        CHECKS[_pid]['text'] += _txt
