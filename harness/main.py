"""Entry point: ./check Cxx [--tier quick|thorough] [--replay FILE]"""
from __future__ import annotations

import argparse
import importlib
import os
import sys
import traceback
from pathlib import Path

sys.path.insert(0, str(Path(__file__).resolve().parent))
os.environ.setdefault('JAX_PLATFORMS', 'cpu')
os.environ.setdefault('PYTHONHASHSEED', '0')


def main() -> int:
    ap = argparse.ArgumentParser()
    ap.add_argument('prop')
    ap.add_argument('--tier', default=os.environ.get('VERIF_TIER') or 'quick', choices=['quick', 'thorough'])
    ap.add_argument('--replay', default=None)
    args = ap.parse_args()
    seed = int(os.environ.get('VERIF_SEED') or 0)
    import fx

    sys.path.insert(0, str(fx.REPO / 'src'))
    mod = importlib.import_module(args.prop.lower())
    try:
        if args.replay:
            return mod.replay_file(args.replay)
        return mod.run(args.tier, seed)
    except fx.MachineryError as exc:
        print(f'MACHINERY-ERROR property={args.prop}: {exc}', file=sys.stderr)
        return 2
    except Exception:
        traceback.print_exc()
        return 2


if __name__ == '__main__':
    sys.exit(main())
