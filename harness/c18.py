"""C18 - results do not depend on JIT compilation or pytree round trips.

Stage 1: MC_Pytree.tla (per class: dynamic / static fields, control dependencies of mv, which modes trace what;
landscapes: aux keys vs constructor parameters) says for every (class, mode) whether mv can run - everything except
boolean-mask selection under the filtering jit - and MC_Terms.tla supplies concrete subjects of every class with
their exact matrices.  Stage 2: every subject in the four modes (eager, jit over a closure, equinox.filter_jit with
the operator as argument, flatten/unflatten) and both x64 modes; landscapes through flatten/unflatten.
Stage 3: values, shapes and dtypes equal to eager and to the spec matrix; the field tables of the spec are compared
with the real classes by introspection (recorded as drift, not as a violation)."""
from __future__ import annotations

import json
import random
import time

import fx
import termcheck

PROP = 'C18'
CFG = """INIT Init
NEXT Next
INVARIANT ModesRun
INVARIANT RoundTrips
INVARIANT LandscapeRoundTrips
INVARIANT Emit
CHECK_DEADLOCK FALSE
"""
KIND_TO_CLASS = {
    'id': 'IdentityOperator', 'hom': 'HomothetyOperator', 'dense': 'DenseBlockDiagonalOperator',
    'toep': 'SymmetricBandToeplitzOperator', 'diag': 'DiagonalOperator', 'dinv': 'DiagonalInverseOperator',
    'bdiagb': 'BroadcastDiagonalOperator', 'index': 'IndexOperator', 'pack': 'PackOperator', 'mvax': 'MoveAxisOperator',
    'reshape': 'ReshapeOperator', 'ravel': 'RavelOperator', 'rot': 'QURotationOperator', 'rotT': 'QURotationTransposeOperator',
    'hwp': 'HWPOperator', 'pol': 'LinearPolarizerOperator', 'T': 'TransposeOperator', 'RT': 'ReshapeTransposeOperator',
    'inv': 'InverseOperator', 'comp': 'CompositionOperator', 'add': 'AdditionOperator', 'brow': 'BlockRowOperator',
    'bdiag': 'BlockDiagonalOperator', 'bcol': 'BlockColumnOperator',
}
MODES = ['eager', 'jit_closure', 'filter_jit', 'roundtrip']


def _has_kind(t, kinds):
    return t['k'] in kinds or any(_has_kind(c, kinds) for c in t['ch'])


# ----------------------------------------------------------------------------- worker side

def _run_modes(op, x, can_run: dict, fresh=None) -> dict:
    import equinox
    import jax
    import numpy as np
    import terms

    res = {}
    y0 = op.mv(x)

    def cmp(y):
        l0, l1 = jax.tree.leaves(y0), jax.tree.leaves(y)
        if jax.tree.structure(y0) != jax.tree.structure(y) or len(l0) != len(l1):
            return 'tree'
        for a, b in zip(l0, l1):
            if a.shape != b.shape:
                return 'shape'
            if a.dtype != b.dtype:
                return 'dtype'
            tol = 1e-5 if a.dtype == np.float32 else 1e-12
            if not np.allclose(np.asarray(a), np.asarray(b), rtol=tol, atol=tol * max(1.0, float(np.max(np.abs(np.asarray(a)), initial=0)))):
                return 'values'
        return None

    # a fresh instance on which the jitted application comes FIRST and the eager one after it (state cached on the
    # instance during tracing must not leak into later uses)
    if fresh is not None:
        try:
            op2 = fresh()
            yj = jax.jit(lambda v: op2.mv(v))(x)
            ye = op2.mv(x)
            res['jit_then_eager'] = cmp(yj) or cmp(ye)
        except Exception as exc:
            res['jit_then_eager'] = f'raised:{type(exc).__name__}'
    for mode in MODES[1:]:
        try:
            if mode == 'jit_closure':
                y = jax.jit(lambda v: op.mv(v))(x)
            elif mode == 'filter_jit':
                y = equinox.filter_jit(lambda o, v: o.mv(v))(op, x)
            else:
                leaves, treedef = jax.tree.flatten(op)
                op2 = jax.tree.unflatten(treedef, leaves)
                if op2.in_structure() != op.in_structure() or op2.out_structure() != op.out_structure():
                    res[mode] = 'structures'
                    continue
                y = op2.mv(x)
            res[mode] = cmp(y)
        except Exception as exc:
            res[mode] = f'raised:{type(exc).__name__}'
    return res, y0


def execute(case: dict) -> dict:
    import jax
    import jax.numpy as jnp
    import numpy as np
    import terms

    o = {'id': case['id'], 'x64': bool(jax.config.jax_enable_x64)}
    kind = case.get('special')
    fresh = None
    try:
        if kind == 'index_mask':
            from furax._base.indices import IndexOperator
            s = jax.ShapeDtypeStruct((4,), jnp.float32)
            op = IndexOperator(jnp.array([True, False, True, True]), in_structure=s,
                               out_structure=jax.ShapeDtypeStruct((3,), jnp.float32))
            want = np.zeros((3, 4))
            want[[0, 1, 2], [0, 2, 3]] = 1
        elif kind == 'pack_stokes':
            from furax._base.linear import PackOperator
            from furax.landscapes import StokesIQUPyTree
            leaf = jax.ShapeDtypeStruct((3,), jnp.float32)
            op = PackOperator(jnp.array([True, False, True]), StokesIQUPyTree(leaf, leaf, leaf))
            sel = np.zeros((2, 3))
            sel[[0, 1], [0, 2]] = 1
            want = np.kron(np.eye(3), sel)
        else:
            dt = 'f64' if (o['x64'] and int(case['id'], 16) % 2 == 0) else 'f32'
            term = termcheck._retype(case['term'], dt) if dt != 'f32' else case['term']
            # Toeplitz operators with the default method and FFT size (the integer fft_size is a pytree leaf)
            op = terms.Builder(toeplitz_method='overlap_save').build(term)
            fresh = lambda: terms.Builder(toeplitz_method='overlap_save').build(term)    # noqa: E731
            want = terms.mat_to_float(case['den'])
    except Exception as exc:
        o['build_exc'] = f'{type(exc).__name__}: {str(exc)[:200]}'
        return o
    rng = np.random.default_rng(int(case['id'], 16) % (2 ** 32))
    x = termcheck._rand_int_tree(op.in_structure(), rng)
    try:
        res, y0 = _run_modes(op, x, case.get('can_run', {}), fresh)
        o['modes'] = res
        ok, err = termcheck._close(terms.flatten_value(y0), want @ terms.flatten_value(x), 2e-4)
        o['eager_ok'] = ok
    except Exception as exc:
        o['eager_exc'] = f'{type(exc).__name__}: {str(exc)[:200]}'
    return o


def landscapes_and_tables(spec_cases: list[dict]) -> dict:
    """Runs in a worker: landscape round trips and introspection of the class tables."""
    import dataclasses
    import inspect

    import jax
    import jax.numpy as jnp
    import numpy as np
    from furax import landscapes as L
    from furax._base import axes, blocks, core, dense, diagonal, indices, linear
    from furax.operators import hwp, polarizers, qu_rotations, toeplitz

    out = {'id': 'landscapes', 'bad': [], 'drift': []}
    objs = {
        'HealpixLandscape': [L.HealpixLandscape(2, 'IQU', np.float32), L.HealpixLandscape(1, 'I', np.float32),
                             L.HealpixLandscape(4, 'QU', np.float32),
                             # the default dtype (float64) and other declared dtypes, whatever the 64-bit mode of JAX
                             L.HealpixLandscape(2, 'IQU'), L.HealpixLandscape(1, 'IQUV', np.float64),
                             L.HealpixLandscape(2, 'I', np.float16), L.HealpixLandscape(1, 'QU', jnp.float64)],
        'FrequencyLandscape': [L.FrequencyLandscape(2, jnp.array([10.0, 20.0]), 'QU', np.float32),
                               L.FrequencyLandscape(1, jnp.array([30.0]), 'IQU'),
                               L.FrequencyLandscape(1, jnp.array([30.0, 40.0, 50.0]), 'I', np.float64)],
    }
    spec_l = {c['cls']: c for c in spec_cases if not c['is_op']}
    for name, insts in objs.items():
        cls = getattr(L, name)
        params = set(inspect.signature(cls.__init__).parameters) - {'self'}
        for inst in insts:
            try:
                leaves, treedef = jax.tree.flatten(inst)
                # how aux_data is represented is the implementation's business: the property is the round trip
                # itself (below); the keys are only compared with the spec's table as drift information
                try:
                    children, aux = inst.tree_flatten()
                    keys = set(aux) if isinstance(aux, dict) else {k for k, _ in aux}
                    if name in spec_l and keys != set(spec_l[name]['fields']):
                        out['drift'].append(f'aux_keys:{name}:{sorted(keys)}')
                except Exception:
                    out['drift'].append(f'aux_keys_unreadable:{name}')
                back = jax.tree.unflatten(treedef, leaves)
                for attr in ('shape', 'dtype', 'stokes', 'nside', 'pixel_shape'):
                    if getattr(back, attr) != getattr(inst, attr):
                        out['bad'].append(f'roundtrip_attr:{name}:{attr}')
                if name == 'FrequencyLandscape' and not np.array_equal(np.asarray(back.frequencies), np.asarray(inst.frequencies)):
                    out['bad'].append(f'roundtrip_attr:{name}:frequencies')
                if back.structure != inst.structure or len(back) != len(inst) or back.size != inst.size:
                    out['bad'].append(f'roundtrip_structure:{name}')
                theta = jnp.array([0.3, 1.2, 2.9])
                phi = jnp.array([0.1, 3.0, 5.5])
                if not np.array_equal(np.asarray(back.world2index(theta, phi)), np.asarray(inst.world2index(theta, phi))):
                    out['bad'].append(f'roundtrip_action:{name}')
                z0, z1 = inst.zeros(), back.zeros()
                if jax.tree.structure(z0) != jax.tree.structure(z1) or \
                        any(a.shape != b.shape or a.dtype != b.dtype for a, b in zip(jax.tree.leaves(z0), jax.tree.leaves(z1))):
                    out['bad'].append(f'roundtrip_zeros:{name}')
                # a jitted function closing over the landscape agrees with eager
                if not np.array_equal(np.asarray(jax.jit(lambda t, p: inst.world2index(t, p))(theta, phi)),
                                      np.asarray(inst.world2index(theta, phi))):
                    out['bad'].append(f'jit_closure:{name}')
            except Exception as exc:
                out['bad'].append(f'roundtrip_raised:{name}:{type(exc).__name__}')
                out.setdefault('exc', str(exc)[:300])
    # mode jit_then_eager in a process that has not applied the operator before (this worker is fresh): the jitted
    # application comes FIRST, then eager, a second jit, the unflattened copy and as_matrix - module-level caches filled
    # during the first trace must not leak tracers into later applications
    def fresh_subjects():
        s5 = jax.ShapeDtypeStruct((5,), jnp.float32)
        band = jnp.array([3.0, 1.0, 0.5], dtype=jnp.float32)
        for m in toeplitz.SymmetricBandToeplitzOperator.METHODS:
            yield f'toeplitz_{m}', (lambda m=m: toeplitz.SymmetricBandToeplitzOperator(band, s5, method=m))
        s4 = jax.ShapeDtypeStruct((4,), jnp.float32)
        s8 = jax.ShapeDtypeStruct((8,), jnp.float32)
        yield 'toeplitz_short_k3', (lambda: toeplitz.SymmetricBandToeplitzOperator(band, s4))            # default method and FFT size
        yield 'toeplitz_short_k5', (lambda: toeplitz.SymmetricBandToeplitzOperator(
            jnp.array([3.0, 1.0, 0.5, 0.25, 0.125], dtype=jnp.float32), s8))
        yield 'diagonal', (lambda: diagonal.DiagonalOperator(jnp.array([1.0, 2.0, 3.0, 4.0, 5.0], dtype=jnp.float32), in_structure=s5))
        yield 'index', (lambda: indices.IndexOperator(jnp.array([4, 0, 0, -2]), in_structure=s5))
        yield 'dense', (lambda: dense.DenseBlockDiagonalOperator(jnp.arange(10.0, dtype=jnp.float32).reshape(2, 5), s5, 'ij,j->i'))

    import equinox
    xin = jnp.array([1.0, -2.0, 3.0, 0.5, 4.0, -1.5, 2.5, 0.25], dtype=jnp.float32)
    for name, make in fresh_subjects():
        try:
            op = make()
            xv = xin[:op.in_size()]
            first = np.asarray(jax.jit(lambda v: op.mv(v))(xv))
            results = {
                'eager': np.asarray(op.mv(xv)),
                'second_jit': np.asarray(jax.jit(lambda v: op(v))(xv)),
                'unflattened': np.asarray(jax.tree.unflatten(jax.tree.structure(op), jax.tree.leaves(op)).mv(xv)),
                'as_matrix': np.asarray(op.as_matrix()) @ np.asarray(xv),
                'filter_jit_argument': np.asarray(equinox.filter_jit(lambda o, v: o.mv(v))(op, xv)),
                'transpose_of_same_instance': None,
            }
            del results['transpose_of_same_instance']
            for k, v in results.items():
                if v.shape != first.shape or not np.allclose(v, first, rtol=2e-5, atol=2e-5):
                    out['bad'].append(f'jit_first_then_{k}:{name}')
        except Exception as exc:
            out['bad'].append(f'jit_first_raised:{name}:{type(exc).__name__}')
            out.setdefault('exc', str(exc)[:300])
    # one filtering jit shared by operators that differ only in static (non-array) content: lazy inverses that captured
    # different solver options / solvers.  Each must give, as an argument of the SAME jitted function, what it gives eagerly.
    try:
        import equinox
        import lineax as lx
        from furax import Config

        s4 = jax.ShapeDtypeStruct((4,), jnp.float32)
        spd = dense.DenseBlockDiagonalOperator(
            jnp.array([[9.0, 1.0, 0.0, 2.0], [1.0, 5.0, 1.0, 0.0], [0.0, 1.0, 3.0, 1.0], [2.0, 0.0, 1.0, 1.5]], dtype=jnp.float32),
            s4, 'ij,j->i')
        pre1 = diagonal.DiagonalOperator(jnp.array([1.0, 1.0, 1.0, 1.0], dtype=jnp.float32), in_structure=s4)
        pre2 = diagonal.DiagonalOperator(jnp.array([0.1, 0.2, 0.3, 0.7], dtype=jnp.float32), in_structure=s4)
        short = lx.CG(rtol=1e-12, atol=1e-12, max_steps=2)          # stops early: the options visibly change the result
        invs = {}
        with Config(solver=short, solver_options={'preconditioner': pre1}):
            invs['pre1'] = spd.I
        with Config(solver=short, solver_options={'preconditioner': pre2}):
            invs['pre2'] = spd.I
        with Config(solver=lx.CG(rtol=1e-12, atol=1e-12, max_steps=3)):
            invs['steps3'] = spd.I
        invs['default'] = spd.I
        shared = equinox.filter_jit(lambda op, v: op.mv(v))
        yv = jnp.array([1.0, -2.0, 0.5, 3.0], dtype=jnp.float32)
        import contextlib
        import io
        with contextlib.redirect_stdout(io.StringIO()):
            eager = {k: np.asarray(v.mv(yv)) for k, v in invs.items()}
            for k, v in invs.items():
                got = np.asarray(shared(v, yv))
                if got.shape != eager[k].shape or not np.allclose(got, eager[k], rtol=1e-4, atol=1e-5):
                    out['bad'].append(f'shared_filter_jit:inverse_{k}')
        # scalar multiples written with Python scalars that are equal but of different types, on integer leaves: the
        # type decides the result dtype, so the shared jitted function must not reuse one trace for both
        si = jax.ShapeDtypeStruct((3,), jnp.int32)
        sel = indices.IndexOperator(jnp.array([2, 0, 0, 1]), in_structure=si)
        xi = jnp.array([1, 2, 3], dtype=jnp.int32)
        for k, opk in (('int3', 3 * sel), ('float3', 3.0 * sel), ('neg', -sel), ('negfloat', (-1.0) * sel), ('div', sel / 2),
                       ('one', 1.0 * sel), ('intone', 1 * sel), ('divone', sel / 1)):
            e = opk.mv(xi)
            g = shared(opk, xi)
            if g.dtype != e.dtype or g.shape != e.shape or not np.array_equal(np.asarray(g), np.asarray(e)):
                out['bad'].append(f'shared_filter_jit:scaled_{k}')
        if np.allclose(eager['pre1'], eager['pre2'], rtol=1e-3):
            out['drift'].append('shared_filter_jit:preconditioners_indistinguishable')
    except Exception as exc:
        out['bad'].append(f'shared_filter_jit_raised:{type(exc).__name__}')
        out.setdefault('exc', str(exc)[:300])
    # class tables against the real classes
    mods = [axes, blocks, core, dense, diagonal, indices, linear, hwp, polarizers, qu_rotations, toeplitz]
    real = {}
    for m in mods:
        for n, c in vars(m).items():
            if isinstance(c, type) and dataclasses.is_dataclass(c):
                real[n] = c
    for c in spec_cases:
        if not c['is_op'] or c['mode'] != 'eager':
            continue
        name = 'IndexOperator' if c['cls'] == 'IndexOperatorMask' else c['cls']
        if name not in real:
            out['drift'].append(f'class_missing:{name}')
            continue
        flds = {f.name: bool(f.metadata.get('static', False)) for f in dataclasses.fields(real[name])}
        spec_f = c['fields']
        if set(flds) != set(spec_f):
            out['drift'].append(f'fields:{name}:{sorted(flds)}')
        for fname, typ in spec_f.items():
            if fname in flds and flds[fname] != (typ == 'static'):
                out['drift'].append(f'static_marker:{name}.{fname}')
    return out


# ----------------------------------------------------------------------------- driver

def run(tier: str, seed: int) -> int:
    t0 = time.time()
    verd = fx.Verdicts(PROP)
    spec = fx.run_tlc('MC_Pytree', CFG, workers=2)
    if spec.violated:
        raise fx.MachineryError(f'MC_Pytree violates {spec.violated}:\n' + spec.stdout[-2000:])
    can = {(c['cls'], c['mode']): c['can_run'] for c in spec.cases if c['is_op']}
    gen = termcheck.generate(tier, templates=[1, 2, 3, 6, 7] if tier == 'quick' else None)
    subjects = [c for c in gen.cases if not c.get('refused')]
    for c in subjects:
        c['id'] = fx.case_id({'t': c['term'], 'n': c['names']})
    rng = random.Random(seed)
    if tier != 'quick' and len(subjects) > 3000:
        atoms = [c for c in subjects if c['names'][0] == '1']
        rest = [c for c in subjects if c['names'][0] != '1']
        subjects = atoms + rng.sample(rest, 3000 - len(atoms))       # each subject costs three jit compilations
    if tier == 'quick':
        atoms = [c for c in subjects if c['names'][0] == '1']
        rest, _ = fx.stratified_sample([c for c in subjects if c['names'][0] != '1'],
                                       lambda c: (c['names'][0], c['names'][2], c['names'][3], c['term']['k']), 6, seed)
        if len(rest) > 260:
            rest = rng.sample(rest, 260)
        subjects = atoms + rest
    # iterative inverses are excluded from the jit comparison only if they do not converge: SPD guaranteed by MC_Terms
    specials = [{'id': fx.case_id({'s': 'index_mask'}), 'special': 'index_mask', 'names': ['index_mask'], 'cls': 'IndexOperatorMask'},
                {'id': fx.case_id({'s': 'pack_stokes'}), 'special': 'pack_stokes', 'names': ['pack_stokes'], 'cls': 'PackOperator'}]
    jobs = subjects + specials
    jobs.sort(key=lambda c: c['names'][-1])
    acc, n = 0, 0
    classes_seen = set()
    sample = []
    for x64 in (False, True):
        sub = jobs if (tier != 'quick' or not x64) else jobs[::3] + specials
        res = fx.replay('c18', 'execute', sub, x64=x64, procs=fx.NPROC, chunksize=max(2, len(sub) // 64))
        by_id = {c['id']: c for c in sub}
        for r in res:
            c = by_id[r['id']]
            label = ':'.join(c['names']) + (':x64' if x64 else ':x32')
            cls = c.get('cls') or KIND_TO_CLASS.get(c['term']['k'], '?')
            classes_seen.add(cls)
            masky = c.get('special') == 'index_mask' or _has_kind(c.get('term', {'k': '', 'ch': []}), {'pack'}) \
                or c.get('special') == 'pack_stokes'
            bad = []
            if 'build_exc' in r or 'eager_exc' in r:
                bad.append('eager_raised')
            else:
                if not r.get('eager_ok', True):
                    bad.append('eager_vs_spec')
                for mode, v in r['modes'].items():
                    if v is None:
                        continue
                    if mode == 'filter_jit' and masky:
                        continue          # excluded by the statement (and predicted by the model: cannot run)
                    bad.append(f'{mode}:{v}')
            if bad:
                verd.report(f"{'+'.join(bad)}:{label}", '+'.join(b.split(':')[0] for b in bad), c, r)
            else:
                acc += 1
        n += len(res)
        sample.append({'names': sub[0]['names'], 'obs': res[0]})
    lres = fx.replay('c18', 'landscapes_and_tables', [spec.cases], procs=1)[0]
    lres64 = fx.replay('c18', 'landscapes_and_tables', [spec.cases], x64=True, procs=1)[0]
    for b in lres['bad']:
        verd.report(b, b.split(':')[0], {'landscape': b.split(':')[1]}, lres)
    for b in lres64['bad']:
        verd.report(b + ':x64', b.split(':')[0], {'landscape': b.split(':')[1], 'x64': True}, lres64)
    rc = verd.finish()
    missing = sorted(set(KIND_TO_CLASS.values()) - classes_seen)
    fx.write_evidence(PROP, tier, seed, {
        'states': spec.distinct + gen.distinct, 'transitions': spec.generated + gen.generated,
        'traces_validated_against_impl': acc, 'evaluations': n * 4,
        'distinct_nontrivial': fx.nontrivial_count(subjects, lambda c: c['term']['k'] != 'id'),
        'rule': 'subjects of MC_Terms (every atom; composites: products, sums, block containers, transposed / inverted '
                'variants) x {eager, jit over a closure, equinox.filter_jit with the operator as argument, flatten/unflatten} x '
                'x64 off/on, plus boolean-mask IndexOperator and PackOperator on a Stokes container, plus Healpix/Frequency '
                'landscapes through flatten/unflatten; non-trivial = the subject is not an identity operator',
        'exhaustive': False, 'subjects': len(subjects), 'classes_covered_at_root': sorted(classes_seen),
        'classes_not_at_root': missing, 'table_drift': lres['drift'], 'landscape_findings': lres['bad'],
        'samples': sample,
    }, ['the control-dependency table is a reading of the code; its truth is established by execution',
        'boolean-mask selection under the filtering jit is excluded as in the statement',
        'iterative inverses only on SPD subjects (converged solves agree to 1e-5 between modes)'],
        time.time() - t0, len(verd.violations))
    return rc


def replay_file(path: str) -> int:
    doc = json.loads(open(path).read())
    case = doc['case'] if 'case' in doc else doc
    if 'landscape' in case:
        spec = fx.run_tlc('MC_Pytree', CFG, workers=2)
        r = fx.replay('c18', 'landscapes_and_tables', [spec.cases], x64=bool(case.get('x64')), procs=1)[0]
        print(json.dumps(r, indent=1))
        if r['bad']:
            print(f'VIOLATION property={PROP} replay={path}')
            return 1
        return 0
    rc = 0
    for x64 in (False, True):
        r = fx.replay('c18', 'execute', [case], x64=x64, procs=1)[0]
        print(json.dumps(r, indent=1))
        if any(v is not None for v in r.get('modes', {}).values()) or 'eager_exc' in r:
            rc = 1
    if rc:
        print(f'VIOLATION property={PROP} replay={path}')
    return rc
