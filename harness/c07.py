"""C07 - reduction reaches the documented normal form in every context."""
import redcheck


def run(tier: str, seed: int) -> int:
    return redcheck.run('C07', tier, seed)


def replay_file(path: str) -> int:
    return redcheck.replay_file('C07', path)
