"""C10 - see termcheck.py (shared pipeline over the subjects of MC_Terms.tla)."""
import termcheck


def run(tier: str, seed: int) -> int:
    return termcheck.run('C10', tier, seed)


def replay_file(path: str) -> int:
    return termcheck.replay_file('C10', path)
