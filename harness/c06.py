"""C06 - see termcheck.py (shared pipeline over the subjects of MC_Terms.tla)."""
import termcheck


def run(tier: str, seed: int) -> int:
    return termcheck.run('C06', tier, seed)


def replay_file(path: str) -> int:
    return termcheck.replay_file('C06', path)
