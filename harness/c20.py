"""C20 - Stokes containers and pytree helpers act leaf-wise and consistently.

Stage 1: TLC checks MC_Stokes (FxStokes.tla: reference semantics against the literal transcription of
         _operation/_roperation, Python's binary-operator protocol, the factories and the helpers of tree.py)
         over the complete cross product and emits every terminal state with its exact prediction.
Stage 2: every emitted case is executed on the real containers / helpers in the matching x64 mode and compared
         with the prediction (values, kind, shapes, dtypes, refused combinations).
Stage 3: verdicts and evidence.
"""
from __future__ import annotations

import json
import time

import fx

PROP = 'C20'

ALL_CATS = ['binop', 'unary', 'index', 'reshape', 'matmul', 'class_for', 'factory', 'from_stokes', 'from_iquv',
            'promote', 'like', 'as_structure', 'is_leaf', 'dot', 'props']

MC_CFG = """SPECIFICATION Spec
CONSTANTS
  Cats = {{{cats}}}
  X64s = {{{x64}}}
  Tier = "{tier}"
INVARIANT TypeOK
INVARIANT Agree
INVARIANT SteppedIsDispatch
INVARIANT KindKept
INVARIANT RefusedIsError
INVARIANT InOrder
INVARIANT Independent
INVARIANT Discriminating
INVARIANT Emit
CHECK_DEADLOCK FALSE
"""

def _only() -> list[str] | None:
    """Development knob: C20_CATS=binop,dot restricts the categories (evidence then says not exhaustive)."""
    import os

    v = os.environ.get('C20_CATS')
    return [c for c in v.split(',') if c in ALL_CATS] if v else None


def shards() -> list[tuple[list[str], str]]:
    """Shards of the generation: (categories, x64 value); binop is half of the work."""
    if _only():
        return [(_only(), 'TRUE'), (_only(), 'FALSE')]
    rest = [c for c in ALL_CATS if c != 'binop']
    return [(['binop'], 'TRUE'), (['binop'], 'FALSE'), (rest, 'TRUE'), (rest, 'FALSE')]


def shard_cfg(i: int, tier: str = 'quick') -> str:
    cats, x64 = shards()[i]
    return MC_CFG.format(cats=', '.join(f'"{c}"' for c in cats), x64=x64, tier=tier)


# ----------------------------------------------------------------------------- worker side

_st: dict = {}


def _setup() -> dict:
    if _st:
        return _st
    import warnings

    warnings.filterwarnings('ignore')
    import operator

    import jax
    import jax.numpy as jnp
    import numpy as np
    from furax import tree as ftree
    from furax.landscapes import (
        StokesIPyTree,
        StokesIQUPyTree,
        StokesIQUVPyTree,
        StokesPyTree,
        StokesQUPyTree,
    )

    _st.update(
        jax=jax, jnp=jnp, np=np, ftree=ftree, StokesPyTree=StokesPyTree,
        cls={'I': StokesIPyTree, 'QU': StokesQUPyTree, 'IQU': StokesIQUPyTree, 'IQUV': StokesIQUVPyTree},
        npdt={'i32': np.int32, 'f16': np.float16, 'f32': np.float32, 'f64': np.float64,
              'c64': np.complex64, 'c128': np.complex128},
        ops={'add': operator.add, 'sub': operator.sub, 'mul': operator.mul, 'div': operator.truediv,
             'pow': operator.pow},
        rdunder={'add': '__radd__', 'sub': '__rsub__', 'mul': '__rmul__', 'div': '__rtruediv__',
                 'pow': '__rpow__'},
    )
    return _st


RTOL = {'i32': 0.0, 'f16': 2e-3, 'f32': 1e-6, 'c64': 1e-6, 'f64': 1e-12, 'c128': 1e-12}
GAUSS_CATS = ('matmul', 'dot')


class HarnessBug(Exception):
    pass


def _dtname(dt) -> str:
    st = _setup()
    d = st['np'].dtype(dt)
    for k, v in st['npdt'].items():
        if d == st['np'].dtype(v):
            return k
    return str(d)


def _canon(name: str) -> str:
    st = _setup()
    if st['jax'].config.jax_enable_x64:
        return name
    return {'f64': 'f32', 'c128': 'c64'}.get(name, name)


def _values(L: dict, gauss: bool):
    np = _setup()['np']
    if gauss:
        vals = [complex(re, im) for re, im in L['v']]
    else:
        vals = [n / d for n, d in L['v']]
    return np.array(vals).reshape(tuple(L['sh']))


def mk_leaf(L: dict, gauss: bool = False):
    """The real object of a spec array: jax.ShapeDtypeStruct, Python scalar (weak) or jax array."""
    st = _setup()
    if L['st']:
        return st['jax'].ShapeDtypeStruct(tuple(L['sh']), st['npdt'][L['dt']])
    if L['w']:
        n, d = L['v'][0]
        if gauss:
            return int(n)
        return int(n) if (L['dt'] == 'i32' and d == 1) else n / d
    arr = st['jnp'].asarray(_values(L, gauss), dtype=st['npdt'][L['dt']])
    if _dtname(arr.dtype) != L['dt'] or list(arr.shape) != list(L['sh']):
        raise HarnessBug(f'cannot build leaf {L["dt"]}{L["sh"]}: got {arr.dtype}{arr.shape}')
    return arr


def mk_container(C: dict, gauss: bool = False):
    st = _setup()
    return st['cls'][C['kind']](**{n: mk_leaf(L, gauss) for n, L in C['leaf'].items()})


def mk_operand(X: dict, gauss: bool = False):
    st = _setup()
    t = X['t']
    if t in ('same', 'other'):
        return mk_container(X['c'], gauss)
    if t in ('pyint', 'pyfloat'):
        return mk_leaf(X['a'], gauss)
    if t == 'npscalar':
        n, d = X['a']['v'][0]
        return st['np'].float32(n / d)
    if t in ('jax0d', 'jaxarr'):
        return mk_leaf(X['a'], gauss)
    if t == 'list':
        return [1.0, 2.0]
    if t == 'none':
        return None
    raise HarnessBug(f'unknown operand {t}')


def mk_tree(T: dict, gauss: bool = False):
    leaves = [mk_leaf(L, gauss) for L in T['leaves']]
    return _shape_tree(T['def'], leaves)


def _shape_tree(d: str, leaves: list):
    if d == 'leaf':
        return leaves[0]
    if d == 'pair':
        return (leaves[0], leaves[1])
    if d == 'list2':
        return [leaves[0], leaves[1]]
    if d == 'dict_list3':
        return {'a': leaves[0], 'b': [leaves[1], leaves[2]]}
    raise HarnessBug(f'unknown treedef {d}')


# ---- observation of real objects

def obs_leaf(x) -> dict:
    st = _setup()
    jax, np = st['jax'], st['np']
    if isinstance(x, jax.ShapeDtypeStruct):
        return {'st': True, 'sh': list(x.shape), 'dt': _dtname(x.dtype), 'v': []}
    if isinstance(x, jax.Array):
        a = np.asarray(x)
        flat = a.ravel()
        if np.iscomplexobj(flat):
            v = [[float(z.real), float(z.imag)] for z in flat]
        else:
            v = [float(z) for z in flat]
        return {'st': False, 'sh': list(a.shape), 'dt': _dtname(a.dtype), 'v': v}
    return {'bad': f'{type(x).__module__}.{type(x).__name__}'}


def obs_container(c) -> dict:
    st = _setup()
    if not isinstance(c, st['StokesPyTree']):
        return {'bad': f'{type(c).__module__}.{type(c).__name__}'}
    import dataclasses

    names = [f.name for f in dataclasses.fields(c)]
    return {'type': type(c).__name__, 'kind': type(c).stokes, 'fields': names,
            'leaf': {n: obs_leaf(getattr(c, n)) for n in names}}


def obs_tree(t) -> dict:
    jax = _setup()['jax']
    leaves, treedef = jax.tree.flatten(t)
    return {'treedef': str(treedef), 'leaves': [obs_leaf(x) for x in leaves]}


# ---- comparison with the spec's prediction

def cmp_leaf(got: dict, exp: dict, where: str, fails: list, gauss: bool = False, values: bool = True,
             struct_dt_either: bool = False) -> None:
    if 'bad' in got:
        fails.append(('type', f'{where}: not an array/structure: {got["bad"]}'))
        return
    if got['st'] != exp['st']:
        fails.append(('type', f'{where}: structure/array confusion (got st={got["st"]})'))
        return
    if got['sh'] != list(exp['sh']):
        fails.append(('shape', f'{where}: shape {got["sh"]} expected {exp["sh"]}'))
        return
    ok_dt = got['dt'] == exp['dt'] or (exp['st'] and struct_dt_either and got['dt'] == _canon(exp['dt']))
    if not ok_dt:
        fails.append(('dtype', f'{where}: dtype {got["dt"]} expected {exp["dt"]}'))
    if exp['st'] or not values or not ok_dt:
        return
    if len(exp['v']) != len(got['v']):
        fails.append(('shape', f'{where}: {len(got["v"])} values expected {len(exp["v"])}'))
        return
    rtol = RTOL[exp['dt']]
    for k, (g, e) in enumerate(zip(got['v'], exp['v'])):
        if gauss:
            ev = complex(e[0], e[1])
            gv = complex(g[0], g[1]) if isinstance(g, list) else complex(g, 0.0)
        else:
            ev = e[0] / e[1]
            gv = g
            if isinstance(g, list):
                gv = complex(g[0], g[1])
        if not (abs(gv - ev) <= rtol * max(1.0, abs(ev))):   # also catches nan
            fails.append(('value', f'{where}[{k}]: got {gv!r} expected {ev!r} (= {e})'))
            return


def cmp_container(got: dict, exp: dict, fails: list, gauss: bool = False, values: bool = True,
                  struct_dt_either: bool = False) -> None:
    st = _setup()
    if 'bad' in got:
        fails.append(('kind', f'result is not a Stokes container: {got["bad"]}'))
        return
    if got['kind'] != exp['kind'] or got['type'] != st['cls'][exp['kind']].__name__:
        fails.append(('kind', f'result kind {got["kind"]} ({got["type"]}) expected {exp["kind"]}'))
        return
    if sorted(got['leaf']) != sorted(exp['leaf']):
        fails.append(('kind', f'components {sorted(got["leaf"])} expected {sorted(exp["leaf"])}'))
        return
    for n in exp['leaf']:
        cmp_leaf(got['leaf'][n], exp['leaf'][n], f'component {n}', fails, gauss, values, struct_dt_either)


def cmp_tree(got_obj, exp: dict, fails: list, values: bool = True) -> None:
    jax = _setup()['jax']
    skeleton = _shape_tree(exp['def'], [0] * len(exp['leaves']))
    gleaves, gdef = jax.tree.flatten(got_obj)
    if gdef != jax.tree.structure(skeleton):
        fails.append(('structure', f'treedef {gdef} expected {jax.tree.structure(skeleton)}'))
        return
    for j, (g, e) in enumerate(zip(gleaves, exp['leaves'])):
        cmp_leaf(obs_leaf(g), e, f'leaf {j + 1}', fails, False, values)


def _call(f):
    """(value, None) or (None, 'ExcType: msg'); any exception of the code under test = refused."""
    try:
        return f(), None
    except Exception as exc:  # noqa: BLE001 - the code under test may raise anything
        return None, f'{type(exc).__name__}: {str(exc)[:160]}'


def _expect(exp_err: bool, exc, fails: list, what: str) -> bool:
    """Handles the error expectation; returns True when the value should be compared."""
    if exp_err:
        if exc is None:
            fails.append(('refused', f'{what}: expected an exception, the call returned a value'))
        return False
    if exc is not None:
        fails.append(('accepted', f'{what}: unexpected exception {exc}'))
        return False
    return True


def _first_values(x) -> list:
    st = _setup()
    return [float(st['np'].asarray(leaf).ravel()[0]) for leaf in st['jax'].tree.leaves(x)]


def _check_random(draw, low, high, fails: list) -> None:
    """draw(seed) -> pytree of arrays.  Determinism for equal keys, different keys differ, leaves get
    different draws, uniform draws stay in [low, high)."""
    st = _setup()
    jax, np = st['jax'], st['np']
    a, b, c = draw(0), draw(0), draw(1)
    la, lb, lc = (jax.tree.leaves(t) for t in (a, b, c))
    if not all(np.array_equal(np.asarray(x), np.asarray(y)) for x, y in zip(la, lb)):
        fails.append(('random', 'two calls with the same key differ'))
    if all(np.array_equal(np.asarray(x), np.asarray(y)) for x, y in zip(la, lc)):
        fails.append(('random', 'different keys give the same draw'))
    for i in range(len(la)):
        for j in range(i + 1, len(la)):
            if la[i].shape == la[j].shape and np.array_equal(np.asarray(la[i]), np.asarray(la[j])):
                fails.append(('random', f'leaves {i + 1} and {j + 1} received the same draw'))
    firsts = _first_values(a)
    if len(set(firsts)) != len(firsts):
        fails.append(('random', f'leaves share their first draw: {firsts}'))
    if low is not None:
        for x in la:
            v = np.asarray(x, dtype=np.float64)
            if not (np.all(v >= low) and np.all(v <= high)):
                fails.append(('random', f'uniform draw outside [{low}, {high}]: {v.ravel().tolist()}'))
                break


def case_key(case: dict) -> str:
    def s(v):
        if isinstance(v, bool):
            return 'x64' if v else 'x32'
        if isinstance(v, list):
            return '.'.join(s(x) for x in v) or '-'
        if isinstance(v, dict):
            return v.get('t', '') + '(' + s(v.get('a', [])) + ')'
        return str(v)

    par = case['par']
    return case['cat'] + ':' + ':'.join(f'{k}={s(par[k])}' for k in sorted(par))


def execute(case: dict) -> dict:
    st = _setup()
    jax, jnp, np, ftree = st['jax'], st['jnp'], st['np'], st['ftree']
    cat, par, inp, exp = case['cat'], case['par'], case['in'], case['exp']
    if bool(jax.config.jax_enable_x64) != bool(par['x64']):
        raise HarnessBug('case replayed in the wrong x64 mode')
    fails: list = []
    obs: dict = {}
    gauss = cat in GAUSS_CATS

    if cat in ('binop', 'matmul'):
        a = mk_container(inp['a'], gauss)
        x = mk_operand(inp['x'], gauss)
        if cat == 'binop':
            f = st['ops'][par['op']]
        else:
            import operator

            f = operator.matmul
        if par['form'] == 'direct':
            val, exc = _call(lambda: f(a, x))
        elif par['form'] == 'reflected':
            val, exc = _call(lambda: f(x, a))
        else:
            val, exc = _call(lambda: getattr(a, st['rdunder'][par['op']])(x))
            if exc is None and val is NotImplemented:
                val, exc = None, 'NotImplemented'
        obs['exc'] = exc
        what = f"{par['form']} {cat} with {par['operand']}"
        if _expect(exp['err'], exc, fails, what):
            if cat == 'binop':
                obs['result'] = obs_container(val)
                cmp_container(obs['result'], exp['c'], fails)
            else:
                obs['result'] = obs_leaf(val)
                cmp_leaf(obs['result'], exp['c'], 'a @ b', fails, gauss=True)
                ref, exc2 = _call(lambda: ftree.dot(a, x))
                if exc2 is not None or not np.allclose(np.asarray(ref), np.asarray(val), rtol=1e-6):
                    fails.append(('matmul_is_dot', f'a @ b = {val!r} but tree.dot(a, b) = {ref!r} {exc2}'))
        elif exp['err'] and exc is None:
            obs['result'] = repr(val)[:200]

    elif cat == 'unary':
        a = mk_container(inp['a'])
        # adding a zero scalar on either side is still leaf-wise arithmetic: values and promoted dtypes of `leaf + 0`
        a_int = jax.tree.map(lambda l: jnp.asarray(np.asarray(l).real.astype(np.int32)), a)     # the same container, integer
        for zname, zero, a in [(z, v, c) for c in (a, a_int) for z, v in (('int0', 0), ('float0', 0.0))] + [('keep', None, a)]:
            if zero is None:
                break           # restores `a` for the checks below
            for side, fz in (('reflected', lambda: zero + a), ('direct', lambda: a + zero)):
                vz, ez = _call(fz)
                if ez is not None:
                    fails.append((f'zero_{side}_{zname}', f'raised {ez}'))
                    continue
                for name in a.stokes.lower():
                    got, leaf = getattr(vz, name), getattr(a, name)
                    wantl = (zero + leaf) if side == 'reflected' else (leaf + zero)
                    if got.dtype != wantl.dtype or got.shape != wantl.shape or not np.array_equal(np.asarray(got), np.asarray(wantl)):
                        fails.append((f'zero_{side}_{zname}', f'component {name}: {got.dtype} {got!r} instead of {wantl.dtype}'))
                        break
        val, exc = _call({'neg': lambda: -a, 'abs': lambda: abs(a), 'pos': lambda: +a}[par['uop']])
        obs['exc'] = exc
        if _expect(exp['err'], exc, fails, par['uop']):
            obs['result'] = obs_container(val)
            cmp_container(obs['result'], exp['c'], fails)

    elif cat == 'index':
        a = mk_container(inp['a'])
        t, ia = par['idx']['t'], par['idx']['a']
        if t == 'int':
            index = ia[0]
        elif t == 'slice':
            index = slice(ia[0], ia[1], ia[2])
        elif t == 'iarr':
            index = jnp.asarray(ia, dtype=jnp.int32) if len(ia) % 2 else np.asarray(ia, dtype=np.int64)
        else:
            index = jnp.asarray([bool(b) for b in ia]) if sum(ia) % 2 else np.asarray([bool(b) for b in ia])
        val, exc = _call(lambda: a[index])
        obs['exc'] = exc
        if _expect(exp['err'], exc, fails, f'indexing with {t} {ia}'):
            obs['result'] = obs_container(val)
            cmp_container(obs['result'], exp['c'], fails)

    elif cat == 'reshape':
        a = mk_container(inp['a'])
        if par['to']:
            val, exc = _call(lambda: a.reshape(tuple(par['to'])))
        else:
            val, exc = _call(lambda: a.ravel())
        obs['exc'] = exc
        if _expect(exp['err'], exc, fails, f'reshape {par["to"]}'):
            obs['result'] = obs_container(val)
            cmp_container(obs['result'], exp['c'], fails)

    elif cat == 'props':
        a = mk_container(inp['a'])
        val, exc = _call(lambda: (a.shape, a.dtype, a.structure))
        obs['exc'] = exc
        if _expect(exp['err'], exc, fails, 'shape/dtype/structure'):
            shape, dtype, structure = val
            obs['result'] = {'shape': list(shape), 'dtype': _dtname(dtype), 'structure': obs_container(structure)}
            if list(shape) != exp['sh']:
                fails.append(('shape', f'.shape = {shape} expected {exp["sh"]}'))
            if _dtname(dtype) != exp['dt']:
                fails.append(('dtype', f'.dtype = {dtype} expected {exp["dt"]}'))
            cmp_container(obs['result']['structure'], exp['c'], fails)
            same, exc2 = _call(lambda: jax.tree.structure(structure) == jax.tree.structure(ftree.as_structure(a))
                               and structure == ftree.as_structure(a))
            if exc2 is not None or not same:
                fails.append(('structure', f'.structure differs from tree.as_structure(container) {exc2}'))

    elif cat == 'class_for':
        val, exc = _call(lambda: st['StokesPyTree'].class_for(par['name']))
        obs['exc'] = exc
        if _expect(exp['err'], exc, fails, f'class_for({par["name"]!r})'):
            import dataclasses

            ok = isinstance(val, type) and issubclass(val, st['StokesPyTree'])
            obs['result'] = repr(val)
            if not ok or val is not st['cls'][exp['kind']] or val.stokes != exp['kind']:
                fails.append(('kind', f'class_for({par["name"]!r}) = {val!r}'))
            elif [f.name for f in dataclasses.fields(val)] != exp['fields']:
                fails.append(('kind', f'fields {[f.name for f in dataclasses.fields(val)]} expected {exp["fields"]}'))

    elif cat == 'factory':
        cls = st['cls'][par['kind']]
        shape = tuple(par['shape'])
        fn = par['fn']
        dt = () if par['dtarg'] == 'default' else (st['npdt'][par['dtarg']],)
        low, high = float(inp['low']), float(inp['high'])

        def make(seed: int = 0):
            if fn in ('zeros', 'ones', 'structure_for'):
                return getattr(cls, fn)(shape, *dt)
            if fn == 'full':
                return cls.full(shape, inp['fill'], *dt)
            if fn == 'normal':
                return cls.normal(jax.random.key(seed), shape, *dt)
            if dt:
                return cls.uniform(shape, jax.random.key(seed), dt[0], low, high)
            return cls.uniform(shape, jax.random.key(seed), low=low, high=high)

        val, exc = _call(make)
        obs['exc'] = exc
        if _expect(exp['err'], exc, fails, fn):
            obs['result'] = obs_container(val)
            random = fn in ('normal', 'uniform')
            cmp_container(obs['result'], exp['c'], fails, values=not random, struct_dt_either=True)
            if random and not fails:
                _check_random(make, low if fn == 'uniform' else None, high, fails)

    elif cat in ('from_stokes', 'from_iquv'):
        args = [mk_leaf(L) for L in inp['args']]
        if cat == 'from_iquv':
            val, exc = _call(lambda: st['cls'][par['kind']].from_iquv(*args))
        else:
            pos = [a for a, n in zip(args, par['names']) if n == '-']
            kw = {n: a for a, n in zip(args, par['names']) if n != '-'}
            val, exc = _call(lambda: st['StokesPyTree'].from_stokes(*pos, **kw))
        obs['exc'] = exc
        if _expect(exp['err'], exc, fails, cat):
            obs['result'] = obs_container(val)
            cmp_container(obs['result'], exp['c'], fails)

    elif cat in ('promote', 'as_structure'):
        x = mk_tree(inp['x'])
        fn = ftree.as_promoted_dtype if cat == 'promote' else ftree.as_structure
        val, exc = _call(lambda: fn(x))
        obs['exc'] = exc
        if _expect(exp['err'], exc, fails, cat):
            obs['result'] = obs_tree(val)
            cmp_tree(val, exp['t'], fails)

    elif cat == 'like':
        x = mk_tree(inp['x'])
        fn = par['fn']
        low, high = float(inp['low']), float(inp['high'])

        def make(seed: int = 0):
            if fn in ('zeros_like', 'ones_like'):
                return getattr(ftree, fn)(x)
            if fn == 'full_like':
                return ftree.full_like(x, inp['fill'])
            if fn == 'normal_like':
                return ftree.normal_like(x, jax.random.key(seed))
            return ftree.uniform_like(x, jax.random.key(seed), low, high)

        val, exc = _call(make)
        obs['exc'] = exc
        if _expect(exp['err'], exc, fails, fn):
            obs['result'] = obs_tree(val)
            random = fn in ('normal_like', 'uniform_like')
            cmp_tree(val, exp['t'], fails, values=not random)
            if random and not fails:
                _check_random(make, low if fn == 'uniform_like' else None, high, fails)

    elif cat == 'is_leaf':
        S = jax.ShapeDtypeStruct
        objs = {
            'array': lambda: jnp.ones(2, np.float32), 'struct': lambda: S((2,), np.float32),
            'pyfloat': lambda: 1.5, 'str': lambda: 'IQU',
            'pair': lambda: (jnp.ones(2, np.float32), S((1,), np.float32)),
            'list2': lambda: [jnp.ones(2, np.float32), jnp.ones(1, np.float32)],
            'dict1': lambda: {'a': jnp.ones(2, np.float32)},
            'I': lambda: st['cls']['I'](jnp.ones(2, np.float32)),
            'IQU': lambda: st['cls']['IQU'](*(3 * [jnp.ones(2, np.float32)])),
        }
        obj = objs[par['obj']]()
        val, exc = _call(lambda: ftree.is_leaf(obj))
        obs['exc'] = exc
        if _expect(exp['err'], exc, fails, 'is_leaf'):
            obs['result'] = val
            if not isinstance(val, bool) or val != exp['leaf']:
                fails.append(('is_leaf', f'is_leaf({par["obj"]}) = {val!r} expected {exp["leaf"]}'))

    elif cat == 'dot':
        x, y = mk_tree(inp['x'], True), mk_tree(inp['y'], True)
        val, exc = _call(lambda: ftree.dot(x, y))
        obs['exc'] = exc
        if _expect(exp['err'], exc, fails, f"dot({par['xtree']}, {par['ytree']})"):
            obs['result'] = obs_leaf(val)
            cmp_leaf(obs['result'], exp['c'], 'dot', fails, gauss=True)
        # the same definition with the SAME object on both sides: dot(x, x) = sum of <leaf, leaf> (Hermitian: real, >= 0)
        val2, exc2 = _call(lambda: ftree.dot(x, x))
        want2 = sum(np.vdot(np.asarray(l), np.asarray(l)) for l in jax.tree.leaves(x))
        if exc2 is not None or not np.allclose(np.asarray(val2), want2, rtol=1e-5, atol=1e-5):
            fails.append(('dot_same_object', f'dot(x, x) = {val2!r} {exc2}, sum of leaf inner products = {want2!r}'))
        # all-integer leaves: the sum of integer inner products is an integer, exactly (also beyond 2^24)
        xi = jax.tree.map(lambda l: jnp.asarray(np.asarray(l).real.astype(np.int32) + 4097), x)
        val3, exc3 = _call(lambda: ftree.dot(xi, xi))
        want3 = sum(int(np.vdot(np.asarray(l, dtype=np.int64), np.asarray(l, dtype=np.int64))) for l in jax.tree.leaves(xi))
        if exc3 is not None or not np.issubdtype(np.asarray(val3).dtype, np.integer) or int(val3) != want3:
            fails.append(('dot_integer_leaves', f'dot of integer leaves = {val3!r} {exc3}, exact sum = {want3}'))
    else:
        raise HarnessBug(f'unknown category {cat}')

    return {'id': case.get('id'), 'obs': obs, 'fails': fails}


# ----------------------------------------------------------------------------- driver side

def generate(tier: str, workers: int) -> fx.TlcResult:
    n = len(shards())
    res = fx.run_tlc_sharded('MC_Stokes', lambda i: shard_cfg(i, tier), n, workers=workers, parallel=n)
    if res.violated:
        raise fx.MachineryError(f'MC_Stokes violates {res.violated} at design level:\n' + res.stdout[-3000:])
    if not res.ok:
        raise fx.MachineryError('TLC did not finish MC_Stokes')
    return res


def _sort_key(c: dict):
    p = c['par']
    return (c['cat'], fx.canon({k: v for k, v in p.items() if k in ('shape', 'dt', 'op', 'fn', 'tree', 'kind')}))


def replay_all(cases: list[dict], procs: int) -> list[dict]:
    out = []
    for x64 in (False, True):
        group = sorted((c for c in cases if bool(c['par']['x64']) == x64), key=_sort_key)
        # equal (category, shape, dtype, operation) runs are adjacent: JAX compiles each of them once per worker
        out += fx.replay('c20', 'execute', group, x64=x64, procs=procs, chunksize=48)
    return out


def run(tier: str, seed: int) -> int:
    t0 = time.time()
    verd = fx.Verdicts(PROP)
    mc = generate(tier, workers=3 if tier == 'quick' else 4)
    cases = mc.cases
    for c in cases:
        c['id'] = fx.case_id({'cat': c['cat'], 'par': c['par']})
    if len({c['id'] for c in cases}) != len(cases):
        raise fx.MachineryError('duplicate cases emitted by MC_Stokes')
    by_cat: dict[str, int] = {}
    for c in cases:
        by_cat[c['cat']] = by_cat.get(c['cat'], 0) + 1
    missing = [c for c in (_only() or ALL_CATS) if not by_cat.get(c)]
    if missing:
        raise fx.MachineryError(f'no case emitted for {missing}')
    t1 = time.time()
    results = replay_all(cases, procs=min(fx.NPROC, 8 if tier == 'quick' else 12))
    by_id = {c['id']: c for c in cases}
    if len(results) != len(cases):
        raise fx.MachineryError(f'{len(cases)} cases but {len(results)} results')
    passed = 0
    for r in results:
        case = by_id[r['id']]
        if r['fails']:
            clauses = sorted({f[0] for f in r['fails']})
            verd.report(case_key(case), '+'.join(clauses), case, {'fails': r['fails'], 'obs': r['obs']})
        else:
            passed += 1
    rc = verd.finish()
    accepted = [c for c in cases if not c['exp']['err']]
    refused = len(cases) - len(accepted)
    wanted = [lambda c: (c['cat'] == 'binop' and c['par']['op'] == 'pow' and c['par']['form'] == 'reflected'
                         and c['par']['operand'] == 'jaxarr'),
              lambda c: c['cat'] == 'from_stokes' and c['par']['mode'] == 'kw' and not c['exp']['err'],
              lambda c: c['cat'] == 'dot' and not c['exp']['err'] and c['par']['xpat'] == 'alt']
    sample_ids = [s for s in (next((c for c in cases if w(c)), None) for w in wanted) if s] or cases[:1]
    fx.write_evidence(PROP, tier, seed, {
        'states': mc.distinct,
        'transitions': mc.generated,
        'traces_validated_against_impl': passed,
        'evaluations': len(results),
        'distinct_nontrivial': fx.nontrivial_count(
            [{'cat': c['cat'], 'par': c['par']} for c in accepted], lambda c: True),
        'rule': 'cases = terminal states of MC_Stokes (complete cross product of the bounded parameter domains '
                'of the 15 call categories, both x64 modes); every case replayed; non-trivial = the '
                'specification predicts a value (not a refusal); distinct by (category, parameters)',
        'exhaustive': bool(mc.ok) and len(results) == len(cases) and _only() is None,
        'cases_by_category': by_cat,
        'refused_cases': refused,
        'tlc_wall_s': round(t1 - t0, 1),
        'replay_wall_s': round(time.time() - t1, 1),
        'samples': [{k: c[k] for k in ('cat', 'par', 'in', 'exp')} for c in sample_ids],
    }, [
        'values are small exact integers / rationals / Gaussian integers; floating-point rounding is bounded by '
        'rtol 1e-6 (float32, complex64), 1e-12 (float64), 2e-3 (float16)',
        'component shapes (2,) and (2,2); helper pytrees leaf, tuple, list, {a: x, b: [y, z]}',
        'foreign left operands (int, float, NumPy scalar, jax.Array, list, None) answer NotImplemented for a '
        'container (CPython / NumPy / JAX behaviour); NumPy ndarrays are outside the domain',
        'dtype lattice i32 < f16 < f32 < f64, c64, c128 with JAX weak typing for Python scalars; a '
        'ShapeDtypeStruct returned by structure_for may carry the requested or the canonical dtype',
        'random factories: structure, dtype, shape, determinism, distinct draws per leaf and the uniform range '
        'only',
    ], time.time() - t0, len(verd.violations))
    return rc


def replay_file(path: str) -> int:
    doc = json.loads(open(path).read())
    case = doc['case'] if 'case' in doc else doc
    case.setdefault('id', 'replay')
    out = fx.replay('c20', 'execute', [case], x64=bool(case['par']['x64']), procs=1)[0]
    print(json.dumps({'key': case_key(case), 'exp': case['exp'], 'result': out}, indent=1, default=str))
    if out['fails']:
        print(f'VIOLATION property={PROP} replay={path}')
        return 1
    return 0
