"""C17 - sky pixelisation maps coordinates to indices consistently.

Stage 1: TLC checks spec/MC_Landscape.tla (three state machines over spec/FxLandscape.tla):
         "pix"  pixel2index stepped one loop iteration per action on every quarter-pixel grid
                point of every map shape (loop invariant, result = nearest centre / -1, reference
                bijective, first-fastest, row-major), index dtype rule on shapes around 2^31;
         "cov"  coverage as a fold over hit sequences = histogram = unique/scatter-add;
         "hpx"  HEALPix ring scheme in exact rational arithmetic: points built inside every pixel
                from the boundary definition are mapped back to it by the ang2pix transcription.
         Every terminal state is emitted as a case.
Stage 2: every emitted case is replayed on furax (StokesLandscape.pixel2index,
         HealpixLandscape.world2index, get_coverage) with and without 64-bit mode, and on
         healpy.ang2pix; the three answers (spec, furax, healpy) must agree.
         Thorough tier: the HEALPix construction is additionally evaluated by a Python
         (fractions.Fraction) transcription of the same formulas - cross-checked, case by case,
         against everything TLC emitted - for larger nside (sampled rings).
"""
from __future__ import annotations

import json
import math
import random
import time
from concurrent.futures import ThreadPoolExecutor
from fractions import Fraction as F

import fx

PROP = 'C17'
OFFDEN = 64
F32_MARGIN = F(1, 16)      # float32 mode: only points at least this far from every floor boundary
INT32_MAX = 2**31 - 1

CFG = """SPECIFICATION Spec
CONSTANTS
  Part = "{part}"
  MaxDims = {maxdims}
  MaxSize = {maxsize}
  NBig = {nbig}
  CovNsides = {covnsides}
  MaxHits = {maxhits}
  Nsides = {nsides}
  Offs = {offs}
  OffDen = 64
{invariants}
INVARIANT Emit
CHECK_DEADLOCK FALSE
"""
INVS = {
    'pix': ['ShapeProps', 'LoopInv', 'PixCorrect', 'PixDetermined', 'DtypeRule'],
    'cov': ['CovIsHistogram', 'CovSums', 'CovImplAgrees'],
    'hpx': ['CentreRoundTrip', 'StaysInPixel', 'PointWellFormed', 'AndFormPow2'],
}
NBIG = 14

BOUNDS = {
    'quick': dict(maxdims=3, maxsize=3, nbig=NBIG, covnsides='{1, 2}', maxhits=3,
                  nsides='{1, 2, 3, 4, 8}', offs='{1, 4, 32, 63}'),
    'thorough': dict(maxdims=3, maxsize=4, nbig=NBIG, covnsides='{1, 2}', maxhits=5,
                     nsides='{1, 2, 3, 4, 8}', offs='{1, 2, 4, 8, 16, 32, 48, 56, 60, 62, 63}'),
}


def tlc_cfg(part: str, b: dict) -> str:
    return CFG.format(part=part, invariants='\n'.join(f'INVARIANT {i}' for i in INVS[part]), **b)


# ----------------------------------------------------------------------------- exact HEALPix
# Python transcription (fractions.Fraction) of the HEALPix part of spec/FxLandscape.tla, operator
# by operator.  It is only trusted after `crosscheck_tlc` has compared it with every case TLC
# emitted (same point, same pixel, same margin); it then extends the construction to nside
# beyond what TLC's 32-bit integers allow.

def npix(n): return 12 * n * n
def ncap(n): return 2 * n * (n - 1)


def _cap_ring(m: int) -> int:       # the i with 2i(i-1) <= m < 2i(i+1)
    i = max(1, (1 + math.isqrt(1 + 2 * m)) // 2)
    while 2 * i * (i - 1) > m:
        i -= 1
    while m >= 2 * i * (i + 1):
        i += 1
    return i


def ring_info(n: int, p: int) -> dict:
    if p < ncap(n):
        i = _cap_ring(p)
        return dict(zone='north', i=i, j=p - 2 * i * (i - 1))
    if p < npix(n) - ncap(n):
        return dict(zone='eq', i=(p - ncap(n)) // (4 * n) + n, j=(p - ncap(n)) % (4 * n))
    m = npix(n) - 1 - p
    i = _cap_ring(m)
    return dict(zone='south', i=i, j=4 * i - 1 - (m - 2 * i * (i - 1)))


def ring_start(n: int, g: int) -> tuple[int, int]:
    """first pixel and number of pixels of global ring g = 1..4n-1 (harness sampling only)"""
    if g < n:
        return 2 * g * (g - 1), 4 * g
    if g <= 3 * n:
        return ncap(n) + (g - n) * 4 * n, 4 * n
    i = 4 * n - g
    return npix(n) - 2 * i * (i + 1), 4 * i


def eq_pt(z, tt): return dict(z=F(z), s=F(0), tt=F(tt), cap=False)


def cap_pt(north, s, tt):
    az = 1 - F(s) * F(s) / 3
    return dict(z=az if north else -az, s=F(s), tt=F(tt), cap=True)


def centre(n, p):
    r = ring_info(n, p)
    if r['zone'] == 'eq':
        tt = F(r['j'], n) if (r['i'] + n) % 2 == 1 else F(2 * r['j'] + 1, 2 * n)
        return eq_pt(F(2 * (2 * n - r['i']), 3 * n), tt)
    return cap_pt(r['zone'] == 'north', F(r['i'], n), F(2 * r['j'] + 1, 2 * r['i']))


def eq_uv(n, z, tt): return n * (F(1, 2) + tt - F(3, 4) * z), n * (F(1, 2) + tt + F(3, 4) * z)


def cap_uv(n, s, tt):
    tp = tt - math.floor(tt)
    return n * s * tp, n * s * (1 - tp)


def qmod4(t): return t - 4 * math.floor(t / 4)


def has_rep(n, p, rep):
    r = ring_info(n, p)
    return r['zone'] == 'eq' if rep == 'eq' else (r['zone'] != 'eq' or r['i'] in (n, 3 * n))


def pixel_point(n, p, rep, a, b):
    r = ring_info(n, p)
    c = centre(n, p)
    if rep == 'cap' and r['zone'] == 'eq':
        c = cap_pt(r['i'] == n, 1, c['tt'])
    if rep == 'eq':
        u, v = eq_uv(n, c['z'], c['tt'])
        u, v = u + a, v + b
        return eq_pt(2 * (v - u) / (3 * n), qmod4((u + v - n) / (2 * n)))
    u, v = cap_uv(n, c['s'], c['tt'])
    u, v = u + a, v + b
    return cap_pt(c['z'] > 0, (u + v) / n, math.floor(c['tt']) + u / (u + v))


def point_valid(pt):
    return (0 < pt['s'] <= 1) if pt['cap'] else abs(pt['z']) <= F(2, 3)


def _near(x): f = x - math.floor(x); return min(f, 1 - f)


def hpx_eval(n, pt):
    tt = qmod4(pt['tt'])
    belt = abs(pt['z']) <= F(2, 3)
    if belt:
        a1, a2 = eq_uv(n, pt['z'], tt)
        jp, jm = math.floor(a1), math.floor(a2)
        ir = n + 1 + jp - jm
        kshift = 1 - (ir % 2)
        t1 = jp + jm - n + kshift + 1 + 8 * n
        pix = ncap(n) + (ir - 1) * 4 * n + (t1 // 2) % (4 * n)
        pixand = ncap(n) + (ir - 1) * 4 * n + ((t1 // 2) & (4 * n - 1))
        return dict(pix=pix, pixand=pixand, margin=min(_near(a1), _near(a2)))
    tp = tt - math.floor(tt)
    tmp = n * pt['s']
    a1, a2 = tp * tmp, (1 - tp) * tmp
    ir = math.floor(a1) + math.floor(a2) + 1
    a3 = tt * ir
    ip = math.floor(a3)
    pix = 2 * ir * (ir - 1) + ip if pt['z'] > 0 else npix(n) - 2 * ir * (ir + 1) + ip
    return dict(pix=pix, pixand=pix, margin=min(_near(a1), _near(a2), _near(a3)))


def py_case(n, p, rep, oa, ob, w):
    """the case MC_Landscape would emit for (nside, pixel, rep, offsets, wrap) or None"""
    if not has_rep(n, p, rep) or (w != 0 and not (2 * oa == OFFDEN and 2 * ob == OFFDEN)):
        return None
    pt = pixel_point(n, p, rep, F(oa, OFFDEN) - F(1, 2), F(ob, OFFDEN) - F(1, 2))
    if not point_valid(pt):
        return None
    pt['tt'] = pt['tt'] + 4 * w
    ev = hpx_eval(n, pt)
    fr = lambda x: [x.numerator, x.denominator]
    return dict(kind='hpx', nside=n, pix=p, pixand=ev['pixand'], rep=rep, a=oa, b=ob, w=w,
                cap=pt['cap'], north=pt['z'] > 0, z=fr(pt['z']), s=fr(pt['s']), tt=fr(pt['tt']),
                margin=fr(ev['margin']), evalpix=ev['pix'])


def crosscheck_tlc(cases: list[dict]) -> int:
    """every hpx case emitted by TLC is reproduced exactly by the Python transcription"""
    n = 0
    for c in cases:
        mine = py_case(c['nside'], c['pix'], c['rep'], c['a'], c['b'], c['w'])
        if mine is None or mine['evalpix'] != c['pix']:
            raise fx.MachineryError(f'Python transcription disagrees with TLC on {c}: {mine}')
        for k in ('pixand', 'cap', 'north', 'z', 's', 'tt', 'margin'):
            if mine[k] != c[k]:
                raise fx.MachineryError(f'Python transcription disagrees with TLC on {c}: {k}={mine[k]}')
        n += 1
    return n


def sampled_py_cases(n: int, offs: list[int], rng: random.Random, per_ring: int) -> list[dict]:
    rings = set(range(1, 4 * n)) if n <= 8 else {
        g for g in (1, 2, 3, n // 2, n - 1, n, n + 1, 2 * n - 1, 2 * n, 2 * n + 1, 3 * n - 1, 3 * n,
                    3 * n + 1, 4 * n - n // 2, 4 * n - 3, 4 * n - 2, 4 * n - 1) if 1 <= g < 4 * n}
    out = []
    for g in sorted(rings):
        start, cnt = ring_start(n, g)
        js = {0, 1, cnt // 4 - 1, cnt // 4, cnt // 2, cnt - 1} | {rng.randrange(cnt) for _ in range(per_ring)}
        for j in sorted(j for j in js if 0 <= j < cnt):
            p = start + j
            for rep in ('eq', 'cap'):
                for oa in offs:
                    for ob in offs:
                        for w in ((-1, 0, 1) if 2 * oa == OFFDEN == 2 * ob else (0,)):
                            c = py_case(n, p, rep, oa, ob, w)
                            if c is not None:
                                if c['evalpix'] != p:
                                    raise fx.MachineryError(f'construction left the pixel: {c}')
                                c['src'] = 'python'
                                out.append(c)
    return out


# ----------------------------------------------------------------------------- worker side

def _angles(pt: dict):
    """(theta, phi) in float64 of the exact point: theta = arccos(z), computed in the caps as
    2 asin(s / sqrt 6) (same angle, no cancellation); phi = tt pi / 2"""
    tt = pt['tt'][0] / pt['tt'][1]
    if pt['cap']:
        half = math.asin((pt['s'][0] / pt['s'][1]) / math.sqrt(6.0))
        theta = 2.0 * half if pt['north'] else math.pi - 2.0 * half
    else:
        theta = math.acos(pt['z'][0] / pt['z'][1])
    return theta, tt * (math.pi / 2.0)


def _landscape_class():
    from furax.landscapes import StokesLandscape

    class GridLandscape(StokesLandscape):
        """concrete StokesLandscape whose world coordinates are the pixel coordinates"""

        def world2pixel(self, theta, phi):
            return (theta, phi)

    return GridLandscape


def execute_belt(case: dict) -> dict:
    """world2index at the CENTRES of equatorial-belt pixels of a large map (pixel numbers beyond 2^24), in the precision
    mode of the worker.  The centres are half a pixel away from every border, which float32 angles resolve in the belt
    (not in the polar caps); the reference is healpy.pix2ang, which C17's exact model binds to the ring scheme."""
    import healpy
    import jax.numpy as jnp
    import numpy as np
    from furax.landscapes import HealpixLandscape

    nside = case['nside']
    pix = np.asarray(case['pix'], dtype=np.int64)
    th, ph = healpy.pix2ang(nside, pix)
    out = {'id': case['id'], 'exc': None}
    try:
        land = HealpixLandscape(nside, 'I')
        got = np.asarray(land.world2index(jnp.asarray(th), jnp.asarray(ph))).astype(np.int64)
        wrong = np.nonzero(got != pix)[0]
        out['n'] = int(len(pix))
        out['wrong'] = int(len(wrong))
        out['first'] = [[int(pix[i]), int(got[i])] for i in wrong[:5]]
    except Exception as exc:  # noqa: BLE001
        out['exc'] = f'{type(exc).__name__}: {exc}'[:300]
    return out


def execute_far(case: dict) -> dict:
    """pixel2index for coordinates far outside the map along a slow axis (so far that products with the strides leave
    the 32-bit range): still outside, still -1."""
    import jax.numpy as jnp
    import numpy as np
    from furax.landscapes import StokesLandscape

    out = {'id': case['id'], 'exc': None, 'wrong': []}
    try:
        land = _landscape_class()(tuple(reversed(case['shape'])), 'I')       # shape is given first coordinate first
        pts = np.asarray(case['pts'], dtype=np.float64)
        res = np.asarray(land.pixel2index(*[jnp.asarray(pts[:, k]) for k in range(pts.shape[1])]))
        out['wrong'] = [[case['pts'][i], int(res[i])] for i in range(len(res)) if int(res[i]) != -1][:8]
        out['n'] = len(res)
    except Exception as exc:  # noqa: BLE001
        out['exc'] = f'{type(exc).__name__}: {exc}'[:300]
    return out


def far_cases() -> list[dict]:
    out = []
    for shape in ((1024, 5), (1000, 7), (256, 4, 3), (65536, 2)):        # first (fastest) coordinate first: large strides
        pts = []
        n = len(shape)
        for axis in range(1, n):
            stride = 1
            for d in shape[:axis]:
                stride *= d
            for k in (2 ** 31 // stride, 2 ** 32 // stride, 2 ** 32 // stride + 1, 2 ** 33 // stride + 3, 4194304, 4294968, 858994):
                for sign in (1, -1):
                    for x0 in (0, 1, shape[0] - 1):
                        pt = [x0] + [0] * (n - 1)
                        pt[axis] = sign * k
                        if abs(pt[axis]) >= shape[axis] and abs(pt[axis]) < 2 ** 24:      # exactly representable in float32
                            pts.append(pt)
        c = {'shape': list(shape), 'pts': pts}
        c['id'] = fx.case_id(c)
        out.append(c)
    return out


def belt_cases(seed: int) -> list[dict]:
    rng = random.Random(seed + 17)
    out = []
    for nside in (2048, 4096):
        ncap = 2 * nside * (nside - 1)
        npix = 12 * nside * nside
        lo = max(ncap + 4 * nside * (nside // 2), 2 ** 24 + 1)        # well inside the belt and beyond 2^24
        hi = npix - ncap - 4 * nside * (nside // 2)
        pix = sorted(rng.randrange(lo, hi) for _ in range(400))
        c = {'nside': nside, 'pix': pix}
        c['id'] = fx.case_id(c)
        out.append(c)
    return out


def execute(case: dict) -> dict:
    import warnings

    import jax.numpy as jnp
    import numpy as np

    warnings.simplefilter('ignore')
    kind = case['kind']
    out: dict = {'kind': kind, 'exc': None}
    try:
        if kind in ('pix', 'big'):
            cls = _landscape_class()
            ps = tuple(case['ps'])
            if case.get('ctor') == 'pixel_shape':
                land = cls(pixel_shape=ps, stokes='IQU')
            else:
                land = cls(ps[::-1], 'IQU')
            out['pixel_shape'] = list(land.pixel_shape)
            out['shape'] = list(land.shape)
            out['len'] = int(len(land))
            out['size'] = int(land.size)
            pts = case['pts']
            if case.get('int'):
                idt = jnp.int64 if jnp.zeros(0, dtype=np.int64).dtype == np.int64 else jnp.int32
                coords = [jnp.asarray(np.array([pt[d] for pt in pts], dtype=np.int64), dtype=idt)
                          for d in range(len(ps))]
            else:   # quarter units -> pixel units (exact in float32 and float64)
                coords = [jnp.asarray(np.array([pt[d] for pt in pts], dtype=np.float64) / 4.0)
                          for d in range(len(ps))]
            out['coord_dtype'] = str(coords[0].dtype)
            res = land.pixel2index(*coords)
            out['dtype'] = str(res.dtype)
            out['res_shape'] = list(res.shape)
            out['res'] = [int(v) for v in np.asarray(res).ravel()]
        elif kind == 'cov':
            import healpy
            from furax.landscapes import HealpixLandscape
            from furax.samplings import Sampling

            nside = case['nside']
            land = HealpixLandscape(nside, 'I')
            out['land_shape'] = list(land.shape)
            res = []
            for hits, shp in zip(case['seqs'], case['shapes']):
                th, ph = healpy.pix2ang(nside, np.asarray(hits, dtype=np.int64))
                th = jnp.asarray(np.asarray(th, dtype=np.float64).reshape(shp))
                ph = jnp.asarray(np.asarray(ph, dtype=np.float64).reshape(shp))
                if len(shp) == 1 and len(hits) >= 2 and len(set(hits)) >= 2 and float(jnp.ptp(th)) == 0.0 and sum(hits) % 2 == 0:
                    th = th[0]          # a constant-elevation scan: scalar theta broadcast against the phi array
                try:
                    cov = land.get_coverage(Sampling(th, ph, jnp.zeros_like(th)))
                    res.append({'cov': [int(v) for v in np.asarray(cov).ravel()], 'shape': list(cov.shape),
                                'dtype': str(cov.dtype), 'exc': None})
                except Exception as exc:  # noqa: BLE001 - recorded, judged by the caller
                    res.append({'exc': f'{type(exc).__name__}: {exc}'[:300]})
            out['res'] = res
        elif kind == 'hpx':
            import healpy
            from furax.landscapes import HealpixLandscape

            nside = case['nside']
            ang = np.array([_angles(pt) for pt in case['pts']], dtype=np.float64).reshape(-1, 2)
            out['healpy'] = [int(v) for v in healpy.ang2pix(nside, ang[:, 0], ang[:, 1])]
            land = HealpixLandscape(nside, 'I')
            out['len'] = int(len(land))
            theta, phi = jnp.asarray(ang[:, 0]), jnp.asarray(ang[:, 1])
            out['coord_dtype'] = str(theta.dtype)
            res = land.world2index(theta, phi)
            out['dtype'] = str(res.dtype)
            out['res'] = [int(v) for v in np.asarray(res).ravel()]
        else:
            raise RuntimeError(f'unknown case kind {kind}')
    except Exception as exc:  # noqa: BLE001 - the code under test raised: recorded as a rejection
        out['exc'] = f'{type(exc).__name__}: {exc}'[:300]
    return out


# ----------------------------------------------------------------------------- batches

def is_pow2(n: int) -> bool: return n & (n - 1) == 0


def big_points(ps: list[int]) -> list[dict]:
    """a handful of integer points of a huge map and their exact flat index (Python integers:
    the numbers are beyond TLC's 32-bit arithmetic; same formula as FlatIndex/RefIndex)"""
    def ref(c):
        if not all(0 <= x < n for x, n in zip(c, ps)):
            return -1
        idx, stride = 0, 1
        for x, n in zip(c, ps):
            idx += x * stride
            stride *= n
        return idx
    cands = [[0] * len(ps), [n - 1 for n in ps], [n // 2 for n in ps], [(2 * n) // 3 for n in ps],
             [n - 1 if d == len(ps) - 1 else 0 for d, n in enumerate(ps)],
             [n if d == 0 else n - 1 for d, n in enumerate(ps)], [-1] + [0] * (len(ps) - 1)]
    return [{'c': c, 'acc': [ref(c)]} for c in cands]


def big_points_for(ps: list[int], coords: list[list[int]]) -> list[dict]:
    def ref(c):
        if not all(0 <= x < n for x, n in zip(c, ps)):
            return -1
        idx, stride = 0, 1
        for x, n in zip(c, ps):
            idx += x * stride
            stride *= n
        return idx
    return [{'c': c, 'acc': [ref(c)]} for c in coords]


def make_batches(pix, big, cov, hpx) -> list[dict]:
    batches = []
    by_shape: dict[tuple, list] = {}
    for c in pix:
        by_shape.setdefault(tuple(c['ps']), []).append(c)
    for k, ps in enumerate(sorted(by_shape)):
        group = sorted(by_shape[ps], key=lambda c: c['q'])
        ctor = 'pixel_shape' if k % 2 else 'shape'
        batches.append({'kind': 'pix', 'ps': list(ps), 'ctor': ctor, 'int': False,
                        'pts': [c['q'] for c in group], 'acc': [c['acc'] for c in group],
                        'specres': [c['res'] for c in group], 'dtype': 'int32'})
        ints = [c for c in group if all(x % 4 == 0 for x in c['q'])]
        batches.append({'kind': 'pix', 'ps': list(ps), 'ctor': ctor, 'int': True,
                        'pts': [[x // 4 for x in c['q']] for c in ints], 'acc': [c['acc'] for c in ints],
                        'specres': [c['res'] for c in ints], 'dtype': 'int32'})
    for c in sorted(big, key=lambda c: c['ps']):
        pts = big_points(c['ps'])
        batches.append({'kind': 'big', 'ps': c['ps'], 'ctor': 'shape', 'int': True,
                        'pts': [p['c'] for p in pts], 'acc': [p['acc'] for p in pts], 'dtype': c['dtype']})
        # the same points (and their neighbours at the end of the map) as floating-point coordinates, in quarter-pixel
        # units: the flat index must be exact although it is far beyond what the coordinate dtype can represent
        last = [n - 1 for n in c['ps']]
        extra = [[max(0, last[0] - k)] + last[1:] for k in range(1, 8)]
        fpts = pts + big_points_for(c['ps'], extra)
        batches.append({'kind': 'big', 'ps': c['ps'], 'ctor': 'shape', 'int': False,
                        'pts': [[4 * x for x in p['c']] for p in fpts], 'acc': [p['acc'] for p in fpts],
                        'dtype': c['dtype']})
    by_n: dict[int, list] = {}
    for c in cov:
        by_n.setdefault(c['nside'], []).append(c)
    for n in sorted(by_n):
        group = sorted(by_n[n], key=lambda c: (len(c['hits']), c['hits']))
        for i in range(0, len(group), 120):
            part = group[i:i + 120]
            seqs, shapes, covs = [], [], []
            for c in part:
                L = len(c['hits'])
                seqs.append(c['hits']); shapes.append([L]); covs.append(c['cov'])
                if L >= 2 and L % 2 == 0:       # the same hits as a (2, L/2) sampling
                    seqs.append(c['hits']); shapes.append([2, L // 2]); covs.append(c['cov'])
                if L >= 2:                      # one detector, L samples: fewer rows than distinct pixels
                    seqs.append(c['hits']); shapes.append([1, L]); covs.append(c['cov'])
            batches.append({'kind': 'cov', 'nside': n, 'seqs': seqs, 'shapes': shapes, 'cov': covs})
    by_n = {}
    for c in hpx:
        by_n.setdefault(c['nside'], []).append(c)
    for n in sorted(by_n):
        group = sorted(by_n[n], key=lambda c: (c['pix'], c['rep'], c['a'], c['b'], c['w']))
        for i in range(0, len(group), 20000):
            part = group[i:i + 20000]
            batches.append({'kind': 'hpx', 'nside': n,
                            'pts': [{k: c[k] for k in ('z', 's', 'tt', 'cap', 'north', 'pix', 'pixand',
                                                       'margin', 'rep', 'a', 'b', 'w')} for c in part]})
    return batches


def restrict(batch: dict, x64: bool) -> dict | None:
    """the part of a batch that belongs to the given precision mode"""
    if batch['kind'] == 'hpx' and not x64:
        if batch['nside'] > 64:
            return None     # float32 cannot resolve the polar rings of such maps (jax_healpy warns)
        pts = [p for p in batch['pts'] if F(*p['margin']) >= F32_MARGIN]
        return dict(batch, pts=pts) if pts else None
    if batch['kind'] == 'big' and not x64:
        # coordinates that a float32 cannot hold are not float32-mode inputs (an implementation
        # may legitimately go through floating point, as it must for fractional coordinates)
        unit = 1 if batch['int'] else 4
        keep = [i for i, pt in enumerate(batch['pts']) if all(_is_f32(c) and _is_f32(c // unit) for c in pt)]
        return dict(batch, pts=[batch['pts'][i] for i in keep], acc=[batch['acc'][i] for i in keep])
    return batch


def _is_f32(c: int) -> bool:
    import struct
    return struct.unpack('f', struct.pack('f', float(c)))[0] == c


# ----------------------------------------------------------------------------- judgment

def judge(batch: dict, out: dict, x64: bool) -> tuple[list[tuple], int]:
    """compare what the library returned with the specification's predictions.
    Returns ([(key, clause, replayable case, detail)], number of evaluations that agreed)"""
    mode = 'x64' if x64 else 'x32'
    bad: list[tuple] = []
    ok = 0
    kind = batch['kind']

    def small(b, idx):
        """the failing part of a batch, replayable on its own"""
        keep = sorted(idx)[:20]
        c = {k: v for k, v in b.items() if k not in ('pts', 'acc', 'specres', 'seqs', 'shapes', 'cov')}
        for k in ('pts', 'acc', 'specres', 'seqs', 'shapes', 'cov'):
            if k in b:
                c[k] = [b[k][i] for i in keep]
        c['x64'] = x64
        return c

    if kind in ('pix', 'big'):
        ps = batch['ps']
        sk = 'x'.join(map(str, ps))
        if out['exc'] is not None:
            if kind == 'big' and not x64 and batch['dtype'] == 'int64':
                return [], len(batch['pts'])    # no 64-bit integers available: rejecting is fine
            return [(f'pixel2index:raised:{sk}:{mode}', 'pixel2index raises on in-scope input',
                     small(batch, range(len(batch['pts']))), out['exc'])], 0
        N = math.prod(ps)
        book = {'pixel_shape': list(ps), 'shape': list(ps[::-1]), 'len': N, 'size': 3 * N}
        wrong = {k: (out[k], v) for k, v in book.items() if out[k] != v}
        if wrong:
            bad.append((f'bookkeeping:{sk}', 'shape/pixel_shape/size bookkeeping', small(batch, [0]), wrong))
        fails = [i for i, (r, acc) in enumerate(zip(out['res'], batch['acc'])) if r not in acc]
        ok += len(batch['pts']) - len(fails)
        if out['res_shape'] != [len(batch['pts'])]:
            fails = fails or [0]
        dtype_ok = out['dtype'] == batch['dtype']
        if kind == 'big' and not x64 and batch['dtype'] == 'int64':
            # JAX without 64-bit mode has no int64: the promised dtype cannot be delivered
            if fails or not dtype_ok:
                bad.append((f'pixel2index:int64_unavailable:{mode}',
                            'index dtype wide enough for N (64-bit mode off, N - 1 > int32 max)',
                            small(batch, fails or [0]),
                            {'dtype': out['dtype'], 'expected_dtype': 'int64',
                             'points': [(batch['pts'][i], out['res'][i], batch['acc'][i]) for i in fails[:8]]}))
            return bad, ok
        if fails:
            tag = 'big' if kind == 'big' else ('int' if batch['int'] else 'float')
            bad.append((f'pixel2index:{tag}:{sk}:{mode}',
                        'pixel coordinates -> flat index (nearest centre, first coordinate fastest, outside -> -1)',
                        small(batch, fails),
                        {'n_wrong': len(fails),
                         'points': [{'coords': batch['pts'][i], 'unit': 'pixel' if batch['int'] else 'quarter pixel',
                                     'got': out['res'][i], 'acceptable': batch['acc'][i]} for i in fails[:8]]}))
        if not dtype_ok:
            bad.append((f'pixel2index:dtype:{sk}:{mode}', 'index dtype: int32 unless N - 1 > int32 max, then int64',
                        small(batch, [0]), {'got': out['dtype'], 'expected': batch['dtype'], 'N': N}))
        return bad, ok

    if kind == 'cov':
        n = batch['nside']
        if out['exc'] is not None:
            return [(f'get_coverage:raised:nside={n}:{mode}', 'get_coverage raises', small(batch, [0]), out['exc'])], 0
        fails = []
        for i, (r, exp, hits) in enumerate(zip(out['res'], batch['cov'], batch['seqs'])):
            good = (r.get('exc') is None and r['cov'] == exp and sum(r['cov']) == len(hits)
                    and r['shape'] == [npix(n)] and r['dtype'] in ('int32', 'int64')
                    and (r['dtype'] == 'int64' or not x64))
            if good:
                ok += 1
            else:
                fails.append(i)
        if fails:
            i = fails[0]
            bad.append((f'get_coverage:nside={n}:{mode}', 'coverage = histogram of the hits, sums to the number of samples',
                        small(batch, fails),
                        {'n_wrong': len(fails), 'hits': batch['seqs'][i], 'sampling_shape': batch['shapes'][i],
                         'got': out['res'][i], 'expected': batch['cov'][i]}))
        return bad, ok

    if kind == 'hpx':
        n = batch['nside']
        pw = 'pow2' if is_pow2(n) else 'nonpow2'
        pts = batch['pts']
        if 'healpy' in out:
            hbad = [i for i, (h, p) in enumerate(zip(out['healpy'], pts)) if h != p['pix']]
            if hbad:    # the specification itself disagrees with the reference implementation
                i = hbad[0]
                raise fx.MachineryError(f'healpy.ang2pix disagrees with the specification: nside={n} '
                                        f'point={pts[i]} healpy={out["healpy"][i]}')
        if out['exc'] is not None:
            if not is_pow2(n):
                return [], 0        # jax_healpy documents power-of-two nside only: rejecting is fine
            return [(f'world2index:raised:{pw}:nside={n}:{mode}', 'world2index raises on in-scope input',
                     small(batch, range(len(pts))), out['exc'])], 0
        fails = [i for i, (r, p) in enumerate(zip(out['res'], pts)) if r != p['pix']]
        ok += len(pts) - len(fails)
        if fails:
            as_and = sum(1 for i in fails if out['res'][i] == pts[i]['pixand'])
            bad.append((f'world2index:{pw}:nside={n}:{mode}',
                        'HEALPix world2index agrees with the ring-scheme definition and healpy.ang2pix',
                        small(batch, fails),
                        {'n_wrong': len(fails), 'n_points': len(pts),
                         'n_wrong_equal_to_bitmask_variant': as_and,
                         'points': [{'z': pts[i]['z'], 'tt': pts[i]['tt'], 'expected(spec=healpy)': pts[i]['pix'],
                                     'got': out['res'][i], 'margin': pts[i]['margin']} for i in fails[:8]]}))
        want = 'int32' if npix(n) - 1 <= INT32_MAX else 'int64'
        if out['dtype'] != want and (x64 or want == 'int32'):
            bad.append((f'world2index:dtype:nside={n}:{mode}', 'index dtype: int32 unless N - 1 > int32 max, then int64',
                        small(batch, [0]), {'got': out['dtype'], 'expected': want}))
        return bad, ok
    raise fx.MachineryError(f'unknown batch kind {kind}')


# ----------------------------------------------------------------------------- main

def run_tlc_parts(bounds: dict) -> dict:
    def one(part):
        return part, fx.run_tlc('MC_Landscape', tlc_cfg(part, bounds), workers=4 if part != 'cov' else 2,
                                tag=part, timeout=3000)
    with ThreadPoolExecutor(max_workers=3) as pool:
        res = dict(pool.map(one, ['pix', 'hpx', 'cov']))
    for part, r in res.items():
        if r.violated:
            raise fx.MachineryError(f'MC_Landscape ({part}) violates {r.violated}:\n' + r.stdout[-3000:])
    return res


def check_spec_dtype(big: list[dict]) -> None:
    """TLC evaluates N - 1 <= 2^31 - 1 by floor divisions (32-bit integers); Python has N itself"""
    for c in big:
        want = 'int32' if math.prod(c['ps']) - 1 <= INT32_MAX else 'int64'
        if c['dtype'] != want:
            raise fx.MachineryError(f'IndexDtype({c["ps"]}) = {c["dtype"]} in the spec, exact rule gives {want}')


def run(tier: str, seed: int) -> int:
    t0 = time.time()
    verd = fx.Verdicts(PROP)
    bounds = BOUNDS[tier]
    tlc = run_tlc_parts(bounds)
    pix = [c for c in tlc['pix'].cases if c['kind'] == 'pix']
    big = [c for c in tlc['pix'].cases if c['kind'] == 'big']
    cov = tlc['cov'].cases
    hpx = tlc['hpx'].cases
    if not (pix and big and cov and hpx) or len(big) != NBIG:
        raise fx.MachineryError('TLC emitted no cases for some part')
    check_spec_dtype(big)
    n_cross = crosscheck_tlc(hpx)
    t_tlc = time.time() - t0

    extra: list[dict] = []
    extra_desc = {}
    if tier == 'thorough':
        rng = random.Random(seed)
        offs = [1, 4, 16, 32, 48, 60, 63]
        for n in (5, 6, 7, 12, 16, 32, 64):
            cs = sampled_py_cases(n, offs, rng, per_ring=6)
            extra += cs
            extra_desc[n] = len(cs)
        for n in (1024, 8192, 16384):        # 16384: 12 nside^2 - 1 > int32 max (float64 mode only)
            cs = sampled_py_cases(n, [4, 32, 60], rng, per_ring=3)
            extra += cs
            extra_desc[n] = len(cs)

    batches = make_batches(pix, big, cov, hpx + extra)
    n_eval = 0
    n_ok = 0
    per_mode = {}
    for x64 in (True, False):
        todo = [b for b in (restrict(b, x64) for b in batches) if b is not None]
        todo.sort(key=lambda b: -len(b.get('pts', b.get('seqs', []))))
        outs = fx.replay('c17', 'execute', todo, x64=x64, procs=min(8, fx.NPROC), chunksize=1)
        cnt = 0
        for b, o in zip(todo, outs):
            bad, ok = judge(b, o, x64)
            cnt += len(b.get('pts', b.get('seqs', [])))
            n_ok += ok
            for key, clause, case, detail in bad:
                verd.report(key, clause, case, detail)
        per_mode['x64' if x64 else 'x32'] = cnt
        n_eval += cnt
    belts = belt_cases(seed)
    belt_stats = {}
    for x64 in (True, False):
        for c, o in zip(belts, fx.replay('c17', 'execute_belt', belts, x64=x64, procs=2, chunksize=1)):
            mode = 'x64' if x64 else 'x32'
            n_eval += o.get('n', 0)
            if o['exc'] is not None:
                verd.report(f"world2index:belt:raised:nside={c['nside']}:{mode}", 'world2index raises on in-scope input',
                            dict(c, belt=True, x64=x64), o)
            elif o['wrong']:
                verd.report(f"world2index:belt:nside={c['nside']}:{mode}", 'world2index agrees with healpy (ring ordering)',
                            dict(c, belt=True, x64=x64), o)
            else:
                n_ok += o['n']
            belt_stats[f"{c['nside']}:{mode}"] = {'points': o.get('n'), 'wrong': o.get('wrong')}
    fars = far_cases()
    far_stats = {}
    for x64 in (True, False):
        for c, o in zip(fars, fx.replay('c17', 'execute_far', fars, x64=x64, procs=2, chunksize=1)):
            mode = 'x64' if x64 else 'x32'
            key = 'x'.join(map(str, c['shape']))
            if o['exc'] is not None:
                verd.report(f"pixel2index:far:raised:{key}:{mode}", 'pixel2index raises on in-scope input', dict(c, far=True, x64=x64), o)
            elif o['wrong']:
                verd.report(f"pixel2index:far:{key}:{mode}", 'any coordinate outside the map in any dimension yields -1',
                            dict(c, far=True, x64=x64), o)
            else:
                n_ok += o['n']
            n_eval += o.get('n', 0)
            far_stats[f'{key}:{mode}'] = {'points': o.get('n'), 'wrong': len(o['wrong'])}
    rc = verd.finish()

    nontrivial = (fx.nontrivial_count(pix, lambda c: c['tie'] or c['acc'] != [-1])
                  + fx.nontrivial_count(hpx + extra, lambda c: not (c['a'] == 32 and c['b'] == 32 and c['w'] == 0))
                  + fx.nontrivial_count(cov, lambda c: len(c['hits']) >= 2))
    states = sum(r.distinct for r in tlc.values())
    trans = sum(r.generated for r in tlc.values())
    all_replayed = True     # no sampling: every emitted case is replayed (float32: margin >= 1/16 only)
    fx.write_evidence(PROP, tier, seed, {
        'states': states,
        'transitions': trans,
        'traces_validated_against_impl': n_ok,
        'evaluations': n_eval,
        'distinct_nontrivial': nontrivial,
        'belt_pixel_centres_large_nside': belt_stats,
        'far_outside_points': far_stats,
        'rule': 'cases = terminal states of the three MC_Landscape machines (pix: map shape x quarter-grid point; '
                'cov: hit sequence; hpx: nside x pixel x representation x offsets), each replayed in float64 and '
                'float32 mode (hpx float32: exact margin >= 1/16 only); evaluations = points/sequences x modes; '
                'non-trivial = pix: tie or some acceptable answer is a real index; hpx: not the plain pixel centre; '
                'cov: at least two hits; distinct by canonical JSON',
        'exhaustive': bool(all_replayed and all(r.ok for r in tlc.values())),
        'tlc': {p: {'distinct_states': r.distinct, 'generated': r.generated, 'depth': r.depth,
                    'cases': len(r.cases), 'wall_s': round(r.wall, 1)} for p, r in tlc.items()},
        'bounds': bounds,
        'cases': {'pix_points': len(pix), 'big_shapes': len(big), 'coverage_sequences': len(cov),
                  'healpix_points_tlc': len(hpx), 'healpix_points_python_transcription': len(extra)},
        'python_transcription': {
            'note': 'thorough tier only: nside beyond TLC (32-bit integers / time) are generated by a Python '
                    'fractions.Fraction transcription of the same FxLandscape operators, for a sample of rings and '
                    'pixels; the transcription is cross-checked against every hpx case TLC emitted (nside <= 8)',
            'tlc_cases_reproduced_exactly': n_cross, 'points_per_nside': extra_desc},
        'evaluations_per_mode': per_mode,
        'tlc_wall_s': round(t_tlc, 1),
        'samples': [pix[len(pix) // 2], cov[len(cov) // 2], hpx[len(hpx) // 3], big[0]],
    }, [
        'pixel coordinates on the quarter-pixel grid from -1 pixel to n pixels (exact in float32); '
        'map sizes up to MaxSize per dimension, 1-3 dimensions',
        'rounding ties (exact half-pixel coordinates) are accepted either way',
        'theta = arccos(z) (caps: 2 asin(s/sqrt 6)) and phi = tt pi/2 are formed in float64; points are at least '
        '1/64 pixel (float64) or 1/16 pixel (float32) away from every pixel boundary',
        'healpy.ang2pix is the reference implementation; a disagreement between it and the specification is a '
        'machinery error, not a violation',
        'maps with about 2^31 pixels: a handful of integer-valued points (corners, middle, just outside), expected '
        'index computed with Python integers by the FlatIndex formula; float32 mode: only coordinates a float32 holds',
        'pixel2index is exercised through a trivial concrete subclass of StokesLandscape (world2pixel = identity)',
        'get_coverage: only HealpixLandscape (all indices valid); samplings at pixel centres from healpy.pix2ang',
    ], time.time() - t0, len(verd.violations))
    return rc


def replay_file(path: str) -> int:
    """./check C17 --replay FILE : re-execute the recorded (trimmed) batch and judge it again"""
    doc = json.loads(open(path).read())
    case = doc['case'] if 'case' in doc else doc
    x64 = bool(case.get('x64', True))
    if case.get('far'):
        o = fx.replay('c17', 'execute_far', [case], x64=x64, procs=1)[0]
        print(json.dumps(o, indent=1))
        if o['exc'] is not None or o['wrong']:
            print(f'VIOLATION property={PROP} replay={path}')
            return 1
        return 0
    if case.get('belt'):
        o = fx.replay('c17', 'execute_belt', [case], x64=x64, procs=1)[0]
        print(json.dumps(o, indent=1))
        if o['exc'] is not None or o['wrong']:
            print(f'VIOLATION property={PROP} replay={path}')
            return 1
        return 0
    out = fx.replay('c17', 'execute', [case], x64=x64, procs=1)[0]
    bad, ok = judge(case, out, x64)
    print(json.dumps({'case': case, 'observed': out, 'agreeing': ok,
                      'violations': [{'key': k, 'clause': c, 'detail': d} for k, c, _, d in bad]}, indent=1, default=str))
    if bad:
        print(f'VIOLATION property={PROP} replay={path}')
        return 1
    return 0
