"""Common machinery: run TLC, parse emitted cases, run replays on real furax in worker
processes, collect verdicts, write evidence.  Python standard library only (plus what
/venv already has for furax itself)."""
from __future__ import annotations

import hashlib
import json
import multiprocessing as mp
import os
import random
import re
import shutil
import subprocess
import sys
import tempfile
import time
import traceback
from pathlib import Path

ROOT = Path(__file__).resolve().parent.parent
SPEC = ROOT / 'spec'
BUILD = ROOT / 'build'
EVID = Path(os.environ.get('VERIF_EVIDENCE_DIR') or (ROOT / 'evidence'))   # mutation runs write elsewhere
REPO = Path(os.environ.get('FURAX_REPO', '/repo'))
TLA_CP = '/opt/veriftools/tla/tla2tools.jar:/opt/veriftools/tla/CommunityModules-deps.jar'
NPROC = int(os.environ.get('VERIF_PROCS', 0)) or min(16, os.cpu_count() or 4)


class MachineryError(Exception):
    """The framework itself failed (TLC crash, unparsable output, committed spec
    violating its own invariant).  Exit code 2, never a VIOLATION."""


# ----------------------------------------------------------------------------- TLC

class TlcResult:
    def __init__(self) -> None:
        self.stdout = ''
        self.cases: list[dict] = []
        self.generated = 0
        self.distinct = 0
        self.depth = 0
        self.ok = False
        self.violated: str | None = None
        self.wall = 0.0
        self.prints: list = []

    def merge(self, other: 'TlcResult') -> None:
        self.cases += other.cases
        self.generated += other.generated
        self.distinct += other.distinct
        self.depth = max(self.depth, other.depth)
        self.ok = self.ok and other.ok
        self.violated = self.violated or other.violated
        self.wall += other.wall
        self.prints += other.prints


_CASE_RE = re.compile(r'^<<"(CASE|VERDICT|INFO)", (".*")>>$')


def parse_tlc_output(text: str) -> TlcResult:
    res = TlcResult()
    res.stdout = text
    for line in text.splitlines():
        m = _CASE_RE.match(line)
        if m is None and line.startswith('<<"') and '"CASE"' in line[:12]:
            raise MachineryError(f'malformed CASE line from TLC: {line[:200]}')
        if m:
            try:
                payload = json.loads(json.loads(m.group(2)))
            except Exception as exc:  # pragma: no cover
                raise MachineryError(f'cannot parse TLC line: {line[:200]}') from exc
            if m.group(1) == 'CASE':
                res.cases.append(payload)
            else:
                res.prints.append((m.group(1), payload))
            continue
        m2 = re.match(r'^(\d+) states generated, (\d+) distinct states found', line)
        if m2:
            res.generated = int(m2.group(1))
            res.distinct = int(m2.group(2))
        m2b = re.match(r'^The number of states generated: (\d+)', line)      # -simulate
        if m2b:
            res.generated = int(m2b.group(1))
            res.distinct = res.distinct or int(m2b.group(1))
        m3 = re.match(r'^The depth of the complete state graph search is (\d+)', line)
        if m3:
            res.depth = int(m3.group(1))
        if 'Model checking completed. No error has been found.' in line:
            res.ok = True
        m4 = re.match(r'^Error: Invariant (\S+) is violated', line)
        if m4:
            res.violated = m4.group(1)
        m5 = re.match(r'^Error: Action property (\S+) is violated', line)
        if m5:
            res.violated = m5.group(1)
        if line.startswith('Error: Temporal properties were violated'):
            res.violated = res.violated or 'temporal'
    return res


def run_tlc(
    module: str,
    cfg: str,
    *,
    workers: int = 1,
    env: dict | None = None,
    timeout: int = 3600,
    simulate: str | None = None,
    depth: int | None = None,
    seed: int | None = None,
    extra: list[str] | None = None,
    tag: str = '',
    coverage: bool = False,
    xmx: str = '6g',
) -> TlcResult:
    """Run TLC on spec/<module>.tla with the configuration text `cfg`.  Returns the parsed
    result; raises MachineryError when TLC itself fails (parse error, evaluation error)."""
    BUILD.mkdir(exist_ok=True)
    work = Path(tempfile.mkdtemp(prefix=f'tlc-{module}-{tag}-', dir=BUILD))
    try:
        cfg_path = work / f'{module}.cfg'
        cfg_path.write_text(cfg)
        cmd = [
            'java', '-XX:+UseParallelGC', f'-XX:ParallelGCThreads={max(2, workers)}', '-Xss64m', f'-Xmx{xmx}', '-cp', TLA_CP,
            '-Dtlc2.tool.fp.FPSet.impl=tlc2.tool.fp.OffHeapDiskFPSet',
            'tlc2.TLC', '-workers', str(workers), '-metadir', str(work / 'meta'),
            '-noGenerateSpecTE', '-config', str(cfg_path),
        ]
        cmd = [c for c in cmd if not c.startswith('-Dtlc2.tool.fp')]
        if simulate:
            cmd += ['-simulate', simulate]
        if depth is not None:
            cmd += ['-depth', str(depth)]
        if seed is not None:
            cmd += ['-seed', str(seed)]
        if coverage:
            cmd += ['-coverage', '1']
        if extra:
            cmd += extra
        cmd.append(str(SPEC / f'{module}.tla'))
        e = dict(os.environ)
        if env:
            e.update({k: str(v) for k, v in env.items()})
        t0 = time.time()
        for attempt in (1, 2):
            try:
                proc = subprocess.run(
                    cmd, cwd=SPEC, env=e, capture_output=True, text=True, timeout=timeout
                )
            except subprocess.TimeoutExpired as exc:
                raise MachineryError(f'TLC timed out on {module} after {timeout}s') from exc
            if proc.returncode not in (-9, 137) or attempt == 2:
                break
            time.sleep(20)        # killed from outside (memory pressure from concurrent jobs): once more, alone in time
            shutil.rmtree(work / 'meta', ignore_errors=True)
        res = parse_tlc_output(proc.stdout)
        res.wall = time.time() - t0
        if simulate and proc.returncode == 0:
            res.ok = True
        if not res.ok and res.violated is None:
            lines = [ln[:400] for ln in proc.stdout.splitlines() if '"CASE"' not in ln[:12]]
            first = next((i for i, ln in enumerate(lines) if ln.startswith('Error')), None)
            tail = '\n'.join((lines[first:first + 12] + ['...'] if first is not None else []) + lines[-40:])
            raise MachineryError(
                f'TLC failed on {module} (exit {proc.returncode}):\n{tail}\n{proc.stderr[-2000:]}'
            )
        return res
    finally:
        shutil.rmtree(work, ignore_errors=True)


def run_tlc_sharded(module: str, cfg_of_shard, nshards: int, *, workers: int = 4, parallel: int = 4,
                    **kw) -> TlcResult:
    """Run `nshards` single-worker TLC processes in parallel (generation is dominated by the
    single-threaded enumeration of initial states); cfg_of_shard(i) returns the cfg text."""
    from concurrent.futures import ThreadPoolExecutor

    def one(i: int) -> TlcResult:
        return run_tlc(module, cfg_of_shard(i), workers=workers, tag=f's{i}', **kw)

    with ThreadPoolExecutor(max_workers=min(nshards, parallel)) as pool:
        parts = list(pool.map(one, range(nshards)))
    total = parts[0]
    for p in parts[1:]:
        total.merge(p)
    return total


# ----------------------------------------------------------------------------- cases

def canon(obj) -> str:
    return json.dumps(obj, sort_keys=True, separators=(',', ':'))


def case_id(case: dict) -> str:
    return hashlib.sha1(canon(case).encode()).hexdigest()[:16]


def stratified_sample(cases: list[dict], key, per_stratum: int, seed: int, cap: int | None = None):
    """Every stratum is represented; `seed` picks inside strata."""
    rng = random.Random(seed)
    strata: dict[str, list[dict]] = {}
    for c in cases:
        strata.setdefault(str(key(c)), []).append(c)
    out = []
    for k in sorted(strata):
        group = strata[k]
        if len(group) <= per_stratum:
            out += group
        else:
            out += rng.sample(group, per_stratum)
    if cap is not None and len(out) > cap:
        out = rng.sample(out, cap)
    return out, {k: len(v) for k, v in strata.items()}


# ----------------------------------------------------------------------------- replay pool

def _orphan_watchdog(ppid: int) -> None:
    import threading

    def watch():
        while True:
            time.sleep(2)
            if os.getppid() != ppid:
                os._exit(3)

    threading.Thread(target=watch, daemon=True).start()


def _worker_init(x64: bool, repo: str, guard: bool) -> None:
    _orphan_watchdog(os.getppid())
    os.environ['JAX_ENABLE_X64'] = '1' if x64 else '0'
    os.environ.setdefault('JAX_PLATFORMS', 'cpu')
    os.environ.setdefault('XLA_FLAGS', '--xla_cpu_multi_thread_eigen=false intra_op_parallelism_threads=1')
    os.environ.setdefault('OMP_NUM_THREADS', '1')
    if guard:
        os.environ['FURAX_VERIF'] = '1'
    src = str(Path(repo) / 'src')
    if src not in sys.path:
        sys.path.insert(0, src)
    if str(ROOT / 'harness') not in sys.path:
        sys.path.insert(0, str(ROOT / 'harness'))
    import jax  # noqa

    jax.config.update('jax_enable_x64', x64)


def _worker_call(args):
    modname, funcname, case = args
    import importlib

    mod = importlib.import_module(modname)
    try:
        return getattr(mod, funcname)(case)
    except Exception:  # harness failure inside a worker: reported, never silently dropped
        return {'case': case, 'harness_error': traceback.format_exc()}


def _worker_chunk(args):
    modname, funcname, chunk = args
    return [_worker_call((modname, funcname, c)) for c in chunk]


RECYCLE_AFTER_CASES = int(os.environ.get('VERIF_RECYCLE', '600'))   # a replay worker is replaced after this many cases


def replay(modname: str, funcname: str, cases: list, *, x64: bool = False, procs: int | None = None,
           chunksize: int = 4) -> list:
    """Execute funcname(case) of harness module `modname` for every case on the real library,
    in `procs` fresh processes (spawned, so the x64 flag is set before jax is imported).
    Workers are recycled after RECYCLE_AFTER_CASES cases (jax's compilation caches grow without
    bound over 10^5 distinct programs); a worker that dies (e.g. killed by the kernel for memory)
    does not hang the run: the chunks that were lost are executed again in a new pool, and a chunk
    that kills its worker three times is a machinery error."""
    if not cases:
        return []
    from concurrent.futures import ProcessPoolExecutor, as_completed
    from concurrent.futures.process import BrokenProcessPool

    procs = procs or NPROC
    procs = max(1, min(procs, len(cases)))
    ctx = mp.get_context('spawn')
    chunks = [cases[i:i + chunksize] for i in range(0, len(cases), chunksize)]
    results: dict[int, list] = {}
    todo = list(range(len(chunks)))
    failures = 0
    # waves: a pool of fresh workers executes at most procs * RECYCLE_AFTER_CASES cases, then is replaced
    # (ProcessPoolExecutor's own max_tasks_per_child deadlocks on Python 3.12.1, so it is not used)
    wave_chunks = max(procs, procs * RECYCLE_AFTER_CASES // max(1, chunksize))
    while todo:
        wave, todo = todo[:wave_chunks], todo[wave_chunks:]
        broken = False
        with ProcessPoolExecutor(max_workers=min(procs, len(wave)), mp_context=ctx, initializer=_worker_init,
                                 initargs=(x64, str(REPO), True)) as ex:
            futs = {ex.submit(_worker_chunk, (modname, funcname, chunks[i])): i for i in wave}
            try:
                for f in as_completed(futs):
                    try:
                        results[futs[f]] = f.result()
                    except BrokenProcessPool:
                        broken = True
            except BrokenProcessPool:
                broken = True
        lost = [i for i in wave if i not in results]
        if lost:
            if not broken:
                raise MachineryError(f'{len(lost)} replay chunks produced no result')
            failures += 1
            if failures > 3:
                raise MachineryError(f'replay workers died repeatedly; {len(lost) + len(todo)} chunks not executed')
            todo = lost + todo
    out = [o for i in range(len(chunks)) for o in results[i]]
    errs = [o for o in out if isinstance(o, dict) and 'harness_error' in o]
    if errs:
        raise MachineryError('harness failure in worker:\n' + errs[0]['harness_error'])
    return out


# ----------------------------------------------------------------------------- verdicts

def load_known() -> list[dict]:
    path = ROOT / 'known_findings.json'
    if not path.exists():
        return []
    return json.loads(path.read_text())['findings']


class Verdicts:
    """Collects violations for one property; separates the ones listed in
    known_findings.json (status 'known'); a 'fixed' entry suppresses nothing."""

    def __init__(self, prop: str) -> None:
        self.prop = prop
        self.known = [k for k in load_known() if k['property'] == prop and k.get('status') == 'known']
        self.violations: list[dict] = []
        self.known_hits: dict[str, int] = {}

    def _match(self, key: str) -> dict | None:
        for k in self.known:
            if re.fullmatch(k['match'], key):
                return k
        return None

    def report(self, key: str, clause: str, case: dict, detail) -> None:
        """key: stable identification of the failing input / call site (what known findings
        are matched against); clause: which part of the property failed."""
        k = self._match(key)
        if k is not None:
            self.known_hits[k['id']] = self.known_hits.get(k['id'], 0) + 1
            return
        self.violations.append({'key': key, 'clause': clause, 'case': case, 'detail': detail})

    def finish(self) -> int:
        for k in self.known:
            n = self.known_hits.get(k['id'], 0)
            if n:
                print(f"KNOWN-FINDING: property={self.prop} {k['id']}: {k['what']} ({n} cases)")
        if not self.violations:
            return 0
        rdir = EVID / 'replays' / self.prop
        rdir.mkdir(parents=True, exist_ok=True)
        seen = set()
        for v in self.violations[:50]:
            cid = case_id({'key': v['key'], 'case': v['case']})
            if cid in seen:
                continue
            seen.add(cid)
            path = rdir / f'{cid}.json'
            path.write_text(json.dumps(v, indent=1, default=str))
            print(f"VIOLATION property={self.prop} replay={path}  [{v['clause']}] {v['key']}")
        if len(self.violations) > 50:
            print(f'... {len(self.violations) - 50} further violations not listed')
        return 1


def write_evidence(prop: str, tier: str, seed: int, coverage: dict, assumptions: list[str],
                   wall_s: float, violations: int, level: str = 'model_checking') -> None:
    EVID.mkdir(exist_ok=True)
    doc = {
        'property_id': prop,
        'tier': tier,
        'seed': seed,
        'level': level,
        'coverage': coverage,
        'assumptions': assumptions,
        'wall_s': round(wall_s, 2),
        'violations': violations,
    }
    (EVID / f'{prop}.json').write_text(json.dumps(doc, indent=1, default=str) + '\n')


def nontrivial_count(cases: list, pred) -> int:
    seen = set()
    for c in cases:
        if pred(c):
            seen.add(canon(c))
    return len(seen)


def approx_equal(got, num, den, rtol: float, atol: float = 0.0) -> tuple[bool, float]:
    """got: float matrix (nested lists / ndarray); num/den: the spec's exact matrix."""
    import numpy as np

    g = np.asarray(got, dtype=np.float64)
    e = np.asarray(num, dtype=np.float64) / float(den)
    if g.shape != e.shape:
        return False, float('inf')
    if g.size == 0:
        return True, 0.0
    if not np.all(np.isfinite(g)):
        return False, float('inf')
    scale = max(1.0, float(np.max(np.abs(e))))
    err = float(np.max(np.abs(g - e)))
    return err <= atol + rtol * scale, err
