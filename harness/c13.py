"""C13 - axis operators are exact relabellings of array elements.

Stage 1: TLC checks MC_Axes over the whole bounded domain (transcription of axes.py = NumPy reference,
         rejection exactly for illegal arguments, transpose = inverse, reduce condition, inverse-pair rules)
         and emits every configuration with the predicted outcome (Error | per-leaf output shapes and
         element maps).
Stage 2: the configurations are built on real furax and applied to arange inputs: constructor errors, mv,
         .T.mv, .I, reduce(), (op.T @ op).reduce(), (op @ op.T).reduce(), the two-operator products of the
         inverse-pair rules; every observation is compared with the specification's prediction and, as a
         second reference, with numpy.moveaxis / numpy.reshape on the same inputs.
Stage 3: verdicts.  Illegal arguments that the real code accepts are reported under the keys
         `ravel_out_of_range:<first>:<last>:<rank>` and `moveaxis_repeated_destination:<src>:<dst>:<rank>`.
"""
from __future__ import annotations

import json
import random
import time

import fx

PROP = 'C13'
ALL_KINDS = ['move', 'ravel', 'reshape', 'movepair', 'cross']
INVARIANTS = ['TypeOK', 'CtorLoopInv', 'ApplyLoopInv', 'Agreement', 'ErrorExactly', 'AtConstruction',
              'MoveIsLazy', 'Relabelling', 'TransposeInverts', 'MatrixForm', 'ReduceCond', 'RuleSound',
              'CrossSound', 'SelfPairFires', 'Emit']
BOUNDS = dict(MaxRank=3, MaxDim=3, AxNeg=3, AxHi=2, MatMax=6)


def cfg_text(kinds: list[str]) -> str:
    lines = ['SPECIFICATION Spec', 'CONSTANTS']
    lines += [f'  {k} = {v}' for k, v in BOUNDS.items()]
    lines += ['  Kinds = {' + ', '.join(f'"{k}"' for k in kinds) + '}']
    lines += [f'INVARIANT {i}' for i in INVARIANTS]
    lines += ['CHECK_DEADLOCK FALSE', '']
    return '\n'.join(lines)


def generate(tier: str) -> fx.TlcResult:
    """Two TLC processes side by side (the move-axis family is as large as all the others together)."""
    shards = [['move'], ['ravel', 'reshape', 'movepair', 'cross']]
    res = fx.run_tlc_sharded('MC_Axes', lambda i: cfg_text(shards[i]), len(shards), workers=5, parallel=2)
    if res.violated:
        raise fx.MachineryError(f'MC_Axes violates its invariant {res.violated} at design level')
    if not res.ok:
        raise fx.MachineryError('TLC did not finish MC_Axes')
    return res


# ----------------------------------------------------------------------------- worker side

def _ints(arr) -> list:
    import numpy as np

    a = np.asarray(arr)
    flat = a.reshape(-1)
    r = np.rint(flat).astype(np.int64)
    if not np.array_equal(r.astype(a.dtype), flat):      # never happens for a relabelling of integers
        return ['non-integer']
    return [int(v) for v in r]


def _leaves(tree) -> list:
    import jax

    return jax.tree.leaves(tree)


def _shapes(tree) -> list:
    return [list(map(int, leaf.shape)) for leaf in _leaves(tree)]


def _container(items: list, cont: str):
    if len(items) == 1:
        return items[0]
    if cont == 'tuple':
        return tuple(items)
    if cont == 'dict':
        return {'a': items[0], 'b': items[1]}
    return list(items)


def _inputs(shapes: list, cont: str, base: int = 0):
    import jax
    import jax.numpy as jnp
    import numpy as np

    xs, ss = [], []
    for i, sh in enumerate(shapes):
        n = int(np.prod(sh)) if len(sh) else 1
        xs.append(jnp.arange(n, dtype=jnp.float32).reshape(tuple(sh)) + float(base + 1000 * i))
        ss.append(jax.ShapeDtypeStruct(tuple(sh), jnp.float32))
    return _container(xs, cont), _container(ss, cont)


def _exc(e: BaseException) -> str:
    return f'{type(e).__name__}: {str(e)[:160]}'


def _same(tree, flats: list, shapes: list) -> bool:
    """the pytree `tree` has exactly these leaf shapes and integer contents (float32)"""
    got = _leaves(tree)
    if len(got) != len(flats):
        return False
    for g, f, s in zip(got, flats, shapes):
        if list(map(int, g.shape)) != list(s) or str(g.dtype) != 'float32' or _ints(g) != list(f):
            return False
    return True


def _numpy_reference(case: dict, xs: list) -> dict:
    """Second reference, independent of the specification: NumPy itself on the same inputs."""
    import numpy as np

    kind = case['kind']
    out = []
    try:
        for x in xs:
            a = np.asarray(x)
            if kind == 'move':
                s, d = tuple(case['a']), tuple(case['b'])
                if case['form'] == 'int':
                    s, d = s[0], d[0]
                r = np.moveaxis(a, s, d)
            elif kind == 'reshape':
                if any(v < -1 for v in case['a']):
                    # NumPy's implementation takes ANY negative entry as the unknown dimension; its
                    # documentation (and jnp.reshape, and furax) allow -1 only: documented semantics
                    raise ValueError('negative dimensions other than -1 are not allowed')
                r = np.reshape(a, tuple(case['a']))
            else:
                first, last = case['a'][0], case['b'][0]
                nd = a.ndim
                if not (-nd <= first < nd and -nd <= last < nd):
                    raise ValueError('axis out of range')
                f, l = first % nd, last % nd
                if f > l:
                    raise ValueError('first axis after the last one')
                mid = int(np.prod(a.shape[f:l + 1]))
                r = np.array([a[idx] for idx in np.ndindex(*a.shape)], dtype=a.dtype).reshape(
                    a.shape[:f] + (mid,) + a.shape[l + 1:])
            out.append(r)
    except Exception as e:  # noqa: BLE001 - NumPy rejects the arguments
        return {'err': True, 'exc': _exc(e)}
    return {'err': False, 'shapes': [list(map(int, r.shape)) for r in out], 'flat': [_ints(r) for r in out]}


def _build(case: dict, struct):
    from furax import MoveAxisOperator, RavelOperator, ReshapeOperator

    kind = case['kind']
    if kind == 'move':
        s, d = tuple(case['a']), tuple(case['b'])
        if case['form'] == 'int':
            s, d = s[0], d[0]
        return MoveAxisOperator(s, d, in_structure=struct)
    if kind == 'ravel':
        if case['form'] == 'default':
            return RavelOperator(in_structure=struct)
        return RavelOperator(case['a'][0], case['b'][0], in_structure=struct)
    return ReshapeOperator(tuple(case['a']), in_structure=struct)


def _expected_from_perms(xflat: list, perms: list) -> list:
    return [[xf[j] for j in p] for xf, p in zip(xflat, perms)]


def _key_args(case: dict) -> str:
    return ','.join(map(str, case['a'])) + ':' + ','.join(map(str, case['b']))


def _ranks(case: dict) -> str:
    return 'x'.join(str(len(sh)) for sh in case['leaves'])


def execute(case: dict) -> dict:
    """Run one configuration on the real library; returns {'id', 'bad': [(key, clause, detail)], 'obs'}."""
    if case['kind'] in ('movepair', 'cross'):
        return _execute_pair(case)
    return _execute_single(case)


def _execute_single(case: dict) -> dict:
    import jax
    from furax.operators import IdentityOperator

    kind, cont = case['kind'], case.get('cont', 'list')
    x, struct = _inputs(case['leaves'], cont)
    xs = _leaves(x)
    xflat = [_ints(v) for v in xs]
    bad: list = []
    obs: dict = {'raised': None}
    tag = f"{kind}:{_key_args(case)}:{case['form'] or 'tuple'}:{_ranks(case)}"

    npref = _numpy_reference(case, xs)
    obs['numpy_err'] = npref['err']
    # the specification's reference against NumPy itself (a disagreement is a defect of the specification)
    if npref['err'] != case['err']:
        obs['spec_vs_numpy'] = {'numpy': npref, 'spec_err': case['err']}
    elif not case['err']:
        want = _expected_from_perms(xflat, case['perms'])
        if npref['shapes'] != case['shapes'] or npref['flat'] != want:
            obs['spec_vs_numpy'] = {'numpy': npref, 'spec_shapes': case['shapes'], 'spec_flat': want}

    # ---- construction, out_structure(), first mv
    op = y = None
    stage = 'ctor'
    try:
        op = _build(case, struct)
        stage = 'out_structure'
        out_struct = op.out_structure()
        stage = 'mv'
        y = op.mv(x)
        jax.block_until_ready(y)
    except Exception as e:  # noqa: BLE001 - any exception class counts as a rejection
        obs['raised'] = {'where': stage, 'exc': _exc(e)}

    if obs['raised'] is not None:
        if not case['err']:
            bad.append((f'rejected_legal:{tag}', 'spurious_rejection', obs['raised']))
        elif kind in ('ravel', 'reshape') and obs['raised']['where'] != 'ctor':
            bad.append((f'late_rejection:{tag}', 'rejected_at_construction', obs['raised']))
        return {'id': case['id'], 'bad': bad, 'obs': obs}

    obs['out_shapes'] = _shapes(out_struct)
    yflat = [_ints(v) for v in _leaves(y)]
    obs['mv_shapes'] = _shapes(y)
    if case['err']:
        # illegal arguments accepted by the real code
        det = {'out_shapes': obs['out_shapes'], 'mv_flat': yflat, 'spec': 'Error', 'numpy': npref.get('exc'),
               'class': case['div'],
               'as_transcribed': (case['ishapes'] == obs['mv_shapes']
                                  and _expected_from_perms(xflat, case['iperms']) == yflat) if case['div'] else None}
        if case['div'] == 'out_of_range':
            first, last = case['a'][0], case['b'][0]
            rank = next(len(sh) for sh in case['leaves']
                        if not (-len(sh) <= first < len(sh) and -len(sh) <= last < len(sh)))
            key = f'ravel_out_of_range:{first}:{last}:{rank}'
        elif case['div'] == 'repeated_destination':
            rank = next(len(sh) for sh in case['leaves']
                        if len({d % len(sh) for d in case['b']}) < len(case['b']))
            key = f"moveaxis_repeated_destination:{_key_args(case)}:{rank}"
        else:
            key = f'accepted_illegal:{tag}'
        bad.append((key, 'rejection', det))
        return {'id': case['id'], 'bad': bad, 'obs': obs}

    # ---- legal arguments: shapes and element map
    want = _expected_from_perms(xflat, case['perms'])
    if obs['out_shapes'] != case['shapes'] or obs['mv_shapes'] != case['shapes']:
        bad.append((f'shape:{tag}', 'shape', {'out_structure': obs['out_shapes'], 'mv': obs['mv_shapes'],
                                              'spec': case['shapes']}))
    elif yflat != want or any(str(v.dtype) != 'float32' for v in _leaves(y)):
        bad.append((f'mv:{tag}', 'mv', {'got': yflat, 'spec': want}))
    if not npref['err'] and (npref['shapes'] != obs['mv_shapes'] or npref['flat'] != yflat):
        bad.append((f'numpy:{tag}', 'mv(numpy)', {'got': yflat, 'numpy': npref}))
    if jax.tree.structure(y) != jax.tree.structure(x):
        bad.append((f'container:{tag}', 'shape', 'output container differs from the input container'))

    # ---- transpose = inverse (and .I for move-axis)
    duals = [('T', lambda: op.T)]
    if kind == 'move':
        duals.append(('I', lambda: op.I))
    for name, get in duals:
        try:
            t = get()
            t_out = _shapes(t.out_structure())
            t_in = _shapes(t.in_structure())
            back = t.mv(y)
            ok = _same(back, xflat, case['leaves'])
            # on a fresh arange of the output structure: the inverse element map
            z, _ = _inputs(case['shapes'], cont, base=7)
            zflat = [_ints(v) for v in _leaves(z)]
            tz = t.mv(z)
            inv_want = []
            for zf, p in zip(zflat, case['perms']):
                w = [0] * len(p)
                for g, j in enumerate(p):
                    w[j] = zf[g]
                inv_want.append(w)
            ok2 = _same(tz, inv_want, case['leaves'])
            if t_out != case['leaves'] or t_in != case['shapes'] or not ok or not ok2:
                bad.append((f'transpose:{name}:{tag}', 'transpose_is_inverse',
                            {'T_in': t_in, 'T_out': t_out, 'T(mv(x))==x': ok, 'T(z)==inverse map': ok2,
                             'got': [_ints(v) for v in _leaves(back)], 'class': type(t).__name__}))
            if name == 'T':
                obs['T_class'] = type(t).__name__
        except Exception as e:  # noqa: BLE001
            bad.append((f'transpose:{name}:{tag}', 'transpose_is_inverse', {'exc': _exc(e)}))

    # ---- reduce()
    try:
        red = op.reduce()
        is_id = isinstance(red, IdentityOperator)
        obs['reduce'] = type(red).__name__
        unchanged = case['shapes'] == case['leaves'] and all(p == list(range(len(p))) for p in case['perms'])
        ry = red.mv(x)
        if not _same(ry, yflat, obs['mv_shapes']) or _shapes(red.in_structure()) != case['leaves'] \
                or _shapes(red.out_structure()) != case['shapes']:
            bad.append((f'reduce:{tag}', 'reduce', {'class': obs['reduce'], 'detail': 'reduce() changes the map'}))
        elif is_id and not (case['rid'] if kind != 'move' else unchanged):
            bad.append((f'reduce:{tag}', 'reduce', {'class': obs['reduce'], 'spec_identity': case['rid']}))
        elif kind != 'move' and case['rid'] and not is_id:
            bad.append((f'reduce_missed:{tag}', 'reduce_missed', {'class': obs['reduce'], 'spec_identity': True}))
    except Exception as e:  # noqa: BLE001
        bad.append((f'reduce:{tag}', 'reduce', {'exc': _exc(e)}))

    # ---- inverse-pair rules: (op.T @ op).reduce() and (op @ op.T).reduce()
    for name, build, vec, vflat, shp in (
            ('T@op', lambda: op.T @ op, x, xflat, case['leaves']),
            ('op@T', lambda: op @ op.T, y, yflat, case['shapes'])):
        try:
            red = build().reduce()
            obs[name] = type(red).__name__
            rv = red.mv(vec)
            if not _same(rv, vflat, shp) or _shapes(red.in_structure()) != shp \
                    or _shapes(red.out_structure()) != shp:
                bad.append((f'pair_rule:{name}:{tag}', 'pair_rule',
                            {'class': obs[name], 'detail': 'reduced product is not the identity map'}))
            elif case['fires'] and not case['rid'] and not isinstance(red, IdentityOperator):
                bad.append((f'pair_rule_missed:{name}:{tag}', 'pair_rule_missed', {'class': obs[name]}))
        except Exception as e:  # noqa: BLE001
            bad.append((f'pair_rule:{name}:{tag}', 'pair_rule', {'exc': _exc(e)}))
    return {'id': case['id'], 'bad': bad, 'obs': obs}


def _execute_pair(case: dict) -> dict:
    from furax import MoveAxisOperator, RavelOperator
    from furax.operators import IdentityOperator

    kind = case['kind']
    bad: list = []
    obs: dict = {'raised': None}
    tag = f"{kind}:{_key_args(case)}:{'/'.join(','.join(map(str, sh)) for sh in case['leaves'])}"
    x, struct = _inputs(case['leaves'][:1], 'list')
    xflat = [_ints(x)]
    want = _expected_from_perms(xflat, case['perms'])
    try:
        if kind == 'movepair':
            right = MoveAxisOperator(case['a'][0], case['a'][1], in_structure=struct)
            left = MoveAxisOperator(case['b'][0], case['b'][1], in_structure=right.out_structure())
            comp = left @ right
        else:
            _, struct2 = _inputs(case['leaves'][1:], 'list')
            right = RavelOperator(in_structure=struct)
            other = RavelOperator(in_structure=struct2)
            comp = other.T @ right
        if _shapes(right.out_structure()) != [case['mid']]:
            bad.append((f'shape:{tag}', 'shape', {'right_out': _shapes(right.out_structure()), 'spec': case['mid']}))
        full = comp.mv(x)
        red = comp.reduce()
        obs['reduce'] = type(red).__name__
        rv = red.mv(x)
        if not _same(full, want, case['shapes']):
            bad.append((f'mv:{tag}', 'mv', {'got': [_ints(full)], 'spec': want, 'shape': _shapes(full)}))
        if not _same(rv, want, case['shapes']) or _shapes(red.out_structure()) != case['shapes'] \
                or _shapes(red.in_structure()) != case['leaves'][:1]:
            bad.append((f'pair_rule:{tag}', 'pair_rule',
                        {'class': obs['reduce'], 'out': _shapes(red.out_structure()), 'spec_out': case['shapes'],
                         'got': [_ints(v) for v in _leaves(rv)], 'spec': want, 'spec_fires': case['fires']}))
        elif case['fires'] and not isinstance(red, IdentityOperator):
            bad.append((f'pair_rule_missed:{tag}', 'pair_rule_missed', {'class': obs['reduce']}))
        if kind == 'cross':
            # A @ C.T with C = ReshapeOperator(leaves[2]) on leaves[1]: same input structure, distinct objects
            from furax import ReshapeOperator

            third = ReshapeOperator(tuple(case['leaves'][1]), in_structure=struct)
            comp2 = right @ third.T
            z, _ = _inputs(case['leaves'][1:], 'list', base=3)
            zflat = [_ints(z)]
            want2 = _expected_from_perms(zflat, case['perms2'])
            red2 = comp2.reduce()
            obs['reduce2'] = type(red2).__name__
            if not _same(comp2.mv(z), want2, case['shapes2']):
                bad.append((f'mv:2:{tag}', 'mv', {'got': [_ints(comp2.mv(z))], 'spec': want2}))
            if not _same(red2.mv(z), want2, case['shapes2']) or _shapes(red2.out_structure()) != case['shapes2'] \
                    or _shapes(red2.in_structure()) != case['leaves'][1:]:
                bad.append((f'pair_rule:2:{tag}', 'pair_rule',
                            {'class': obs['reduce2'], 'out': _shapes(red2.out_structure()),
                             'spec_out': case['shapes2'], 'product': 'Ravel(leaf1) @ Reshape(leaf2 on leaf1).T'}))
    except Exception as e:  # noqa: BLE001
        obs['raised'] = {'where': 'pair', 'exc': _exc(e)}
        bad.append((f'pair_rule:{tag}', 'pair_rule', obs['raised']))
    return {'id': case['id'], 'bad': bad, 'obs': obs}


# ----------------------------------------------------------------------------- driver side

def _signs(vals) -> str:
    return ''.join('n' if v < 0 else 'p' for v in vals)


def _outcome(c: dict) -> str:
    if c['kind'] in ('movepair', 'cross'):
        return 'fires' if c['fires'] else 'quiet'
    if c['div']:
        return c['div']
    if c['err']:
        return 'err'
    changed = c['shapes'] != c['leaves'] or any(p != list(range(len(p))) for p in c['perms'])
    return 'ok' if changed else 'noop'


def _stratum(c: dict) -> str:
    arg = f"{len(c['a'])}{len(c['b'])}{_signs(c['a'])}{_signs(c['b'])}" if c['kind'] != 'reshape' \
        else f"{len(c['a'])}{'u' if -1 in c['a'] else ''}"
    return f"{c['kind']}|{_ranks(c)}|{_outcome(c)}|{arg}|{c['form']}"


def _nontrivial(c: dict) -> bool:
    return _outcome(c) in ('ok', 'fires', 'quiet')


def _sortkey(c: dict):
    return (c['leaves'], c['kind'], c['a'], c['b'])


QUOTA = {'legal': 470, 'pair': 90, 'leaky': 70, 'err': 3000}     # refusals at construction cost milliseconds


def _group(c: dict) -> str:
    o = _outcome(c)
    return {'ok': 'legal', 'noop': 'legal', 'fires': 'pair', 'quiet': 'pair', 'err': 'err'}.get(o, 'leaky')


def quick_sample(cases: list[dict], seed: int) -> tuple[list[dict], dict]:
    """Seeded sample of ~800 configurations: per group (legal / two-operator / accepted-illegal / rejected) a
    quota; inside a group first two configurations of every (kind, leaf ranks, outcome), then one of every fine
    stratum (argument lengths and signs, form) in random order until the quota is reached."""
    rng = random.Random(seed)
    picked: list = []
    nstrata: dict = {}
    for g in sorted(QUOTA):
        group = [c for c in cases if _group(c) == g]
        coarse, s1 = fx.stratified_sample(group, lambda c: f"{c['kind']}|{_ranks(c)}|{_outcome(c)}", 2, seed)
        fine, s2 = fx.stratified_sample(group, _stratum, 3 if g == 'err' else 1, seed + 1)
        nstrata[g] = {'configurations': len(group), 'coarse_strata': len(s1), 'fine_strata': len(s2)}
        chosen = {c['id']: c for c in coarse}
        if g == 'err':
            # every refused ravel over two leaves of different shapes (which leaf offends decides which check must fire)
            chosen.update({c['id']: c for c in group if c['kind'] == 'ravel' and len(c['leaves']) == 2
                           and c['leaves'][0] != c['leaves'][1]})
        rng.shuffle(fine)
        for c in fine:
            if len(chosen) >= QUOTA[g]:
                break
            chosen.setdefault(c['id'], c)
        rest = [c for c in group if c['id'] not in chosen]
        for c in rng.sample(rest, max(0, min(len(rest), QUOTA[g] - len(chosen)))):
            chosen[c['id']] = c
        picked += list(chosen.values())
    return picked, nstrata


def prepare(cases: list[dict]) -> list[dict]:
    conts = ['list', 'tuple', 'dict']
    for c in cases:
        c['id'] = fx.case_id({k: c[k] for k in ('kind', 'leaves', 'a', 'b', 'form')})
        c['cont'] = conts[int(c['id'], 16) % 3]
    cases.sort(key=lambda c: c['id'])
    return cases


def judge(cases: list[dict], results: list[dict], verd: fx.Verdicts) -> dict:
    by_id = {c['id']: c for c in cases}
    stats = {'accepted': 0, 'rejected_as_predicted': 0, 'where': {}, 'classes': {}, 'spec_vs_numpy': []}
    leaky: list = []
    other: list = []
    for r in results:
        case = by_id[r['id']]
        obs = r['obs']
        if 'spec_vs_numpy' in obs:
            stats['spec_vs_numpy'].append({'case': {k: case[k] for k in ('kind', 'leaves', 'a', 'b')},
                                           'detail': obs['spec_vs_numpy']})
        if obs.get('raised') and case.get('err'):
            stats['rejected_as_predicted'] += 1
            w = f"{case['kind']}:{obs['raised']['where']}:{obs['raised']['exc'].split(':')[0]}"
            stats['where'][w] = stats['where'].get(w, 0) + 1
        for name in ('reduce', 'reduce2', 'T@op', 'op@T', 'T_class'):
            if name in obs:
                k = f"{case['kind']}:{name}:{obs[name]}"
                stats['classes'][k] = stats['classes'].get(k, 0) + 1
        # a missed (but sound) simplification is not a violation of C13 ("reduced to the identity ONLY IF ..."):
        # it is recorded as information; C07 is the property about patterns being rewritten
        real_bad = [b for b in r['bad'] if not b[1].endswith('_missed')]
        for b in r['bad']:
            if b[1].endswith('_missed'):
                stats.setdefault('missed_simplifications', {})
                stats['missed_simplifications'][b[1]] = stats['missed_simplifications'].get(b[1], 0) + 1
        if real_bad:
            for key, clause, detail in real_bad:
                (leaky if clause == 'rejection' and case.get('div') else other).append((key, clause, case, detail))
        else:
            stats['accepted'] += 1
    if stats['spec_vs_numpy']:
        raise fx.MachineryError('the reference of FxAxes disagrees with NumPy itself: '
                                + json.dumps(stats['spec_vs_numpy'][:3], default=str)[:2000])
    # anything else first; then the accepted illegal arguments, one representative (smallest pytree) per key
    for key, clause, case, detail in other:
        verd.report(key, clause, case, detail)
    groups: dict = {}
    for item in leaky:
        groups.setdefault(item[0], []).append(item)
    stats['accepted_illegal'] = {'ravel_out_of_range': 0, 'moveaxis_repeated_destination': 0}
    for key in sorted(groups):
        items = sorted(groups[key], key=lambda it: (len(it[2]['leaves']), it[2]['leaves'], it[2]['form']))
        cls = key.split(':')[0]
        stats['accepted_illegal'][cls] = stats['accepted_illegal'].get(cls, 0) + len(items)
        key_, clause, case, detail = items[0]
        detail = dict(detail, configurations_with_this_key=len(items))
        verd.report(key_, clause, case, detail)
    return stats


def run(tier: str, seed: int) -> int:
    t0 = time.time()
    verd = fx.Verdicts(PROP)
    gen = generate(tier)
    t1 = time.time()
    cases = prepare(gen.cases)
    emitted = len(cases)
    expected_kinds = {c['kind'] for c in cases}
    if expected_kinds != set(ALL_KINDS):
        raise fx.MachineryError(f'TLC emitted kinds {sorted(expected_kinds)} only')
    if tier == 'quick':
        picked, strata = quick_sample(cases, seed)
        sample = len(picked)
    else:
        # every accepted / divergent / pair configuration; rejected ones (one constructor call each) as well
        picked, strata, sample = list(cases), None, None
    picked.sort(key=_sortkey)
    results = fx.replay('c13', 'execute', picked, procs=min(fx.NPROC, 8 if tier == 'quick' else 12),
                        chunksize=max(4, min(64, len(picked) // 64)))
    t2 = time.time()
    stats = judge(picked, results, verd)
    rc = verd.finish()
    nontriv = fx.nontrivial_count([{k: c[k] for k in ('kind', 'leaves', 'a', 'b', 'form')} for c in picked
                                   if _nontrivial(c)], lambda c: True)
    outcomes: dict = {}
    for c in picked:
        k = f"{c['kind']}:{_outcome(c)}"
        outcomes[k] = outcomes.get(k, 0) + 1
    emitted_outcomes: dict = {}
    for c in cases:
        k = f"{c['kind']}:{_outcome(c)}"
        emitted_outcomes[k] = emitted_outcomes.get(k, 0) + 1
    samples = []
    for want in ('move:ok', 'ravel:err', 'reshape:ok'):
        for c in picked:
            if f"{c['kind']}:{_outcome(c)}" == want and len(c['leaves']) == 2 and (
                    c['err'] or any(p != sorted(p) for p in c['perms']) or c['kind'] != 'move'):
                samples.append({k: c[k] for k in ('kind', 'leaves', 'a', 'b', 'form', 'err', 'shapes', 'perms', 'rid')})
                break
    fx.write_evidence(PROP, tier, seed, {
        'states': gen.distinct, 'transitions': gen.generated,
        'traces_validated_against_impl': stats['accepted'],
        'evaluations': len(picked), 'distinct_nontrivial': nontriv,
        'rule': 'cases = every configuration of MC_Axes (operator class x pytree of 1-2 leaf shapes of rank 1..3, '
                'dims 1..3 x arguments: source/destination tuples of length 1-2 over -3..2, first/last in -3..2, '
                'target shapes of length 0..3 over the divisors of the size, -1, -2, 0, 5; pairs of move-axis '
                'operators; pairs of ravel operators), enumerated exhaustively by TLC; replayed = all (thorough) '
                'or a seeded sample stratified by kind x leaf ranks x outcome x argument signs (quick); '
                'non-trivial = legal arguments whose operator changes a shape or moves an element, or a '
                'two-operator product; distinct by (kind, leaves, arguments, form)',
        'exhaustive': sample is None,
        'emitted_cases': emitted, 'replayed': len(picked), 'strata': strata,
        'accepted_illegal_arguments': stats.get('accepted_illegal'),
        'emitted_by_outcome': emitted_outcomes, 'replayed_by_outcome': outcomes,
        'rejections_as_predicted': stats['rejected_as_predicted'], 'rejections_raised_where': stats['where'],
        'result_classes': stats['classes'],
        'design_model': {'bounds': BOUNDS, 'distinct_states': gen.distinct, 'generated': gen.generated,
                         'depth': gen.depth, 'invariants': INVARIANTS, 'exhaustive_within_bounds': True},
        'timing_s': {'tlc': round(t1 - t0, 1), 'replay': round(t2 - t1, 1)},
        'samples': samples or [{k: picked[0][k] for k in ('kind', 'leaves', 'a', 'b', 'form', 'err')}],
    }, [
        'jnp.moveaxis / Array.reshape / lax.transpose are modelled in FxAxes by their documented semantics '
        '(the jnp.moveaxis algorithm is transcribed from jax 0.11); the replay compares the real results with '
        'NumPy on the same inputs as a second reference',
        'element maps are observed on float32 arange inputs with distinct integer entries (exact below 2^24); '
        'an axis operator built from reshape/transpose primitives is determined by its action on such a vector',
        'leaf shapes of rank 1..3 with dimensions 1..3; pytrees with one leaf or two leaves (list, tuple, dict)',
    ], time.time() - t0, len(verd.violations))
    return rc


def replay_file(path: str) -> int:
    """./check C13 --replay FILE : rebuild the recorded configuration on the real library and judge it
    against the prediction it carries."""
    doc = json.loads(open(path).read())
    case = doc['case'] if 'case' in doc else doc
    case.setdefault('id', 'replay')
    results = fx.replay('c13', 'execute', [case], procs=1)
    verd = fx.Verdicts(PROP)
    judge([case], results, verd)
    print(json.dumps({'case': {k: case[k] for k in ('kind', 'leaves', 'a', 'b', 'form', 'err', 'shapes')},
                      'observed': results[0]['obs'],
                      'bad': [{'key': k, 'clause': c, 'detail': d} for k, c, d in results[0]['bad']]},
                     indent=1, default=str)[:6000])
    return verd.finish()
