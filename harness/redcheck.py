"""Shared pipeline for reduce(): C01 (denotation/structures preserved, no raise) and C07
(normal form).  Stage 1 TLC (MC_Reduce / MC_Nested) -> stage 2 real reduce() under rule
wrappers -> stage 3 TLC trace validation (Trace_Reduce)."""
from __future__ import annotations

import json
import os
import random
import time

import fx

ALL_NAMES = ['A', 'B', 'C', 'D', 'Tz', 'D3', 'G', 'Pr', 'P', 'Pk', 'Pw', 'Mv', 'Mvi', 'Rs', 'Rv', 'Rn', 'Bd',
             'R1', 'R2', 'R3', 'Hw', 'Pl', 'R1i', 'Hwi', 'Pli', 'R1v', 'Hwv', 'Plv', 'A2', 'AI', 'BI', 'DI',
             'TzI', 'GT', 'CT', 'PrT', 'PT', 'PkT', 'PwT', 'MvT', 'RsT', 'RvT', 'BdT', 'R1T', 'R2T', 'R3T',
             'R1iT', 'R1vT', 'PlT', 'I2v', 'I3v', 'Iqu', 'Im', 'H2', 'Hh', 'H3', 'Hq', 'Hm', 'H6',
             'Dl', 'DlI', 'Prl', 'PrlT', 'BDl', 'BDi', 'BRl', 'BCl', 'Il', 'Hl', 'Mc', 'McT', 'Mn',
             'Mp', 'Mq', 'MpT', 'Ma', 'Mb', 'MaT', 'Ob', 'ObT', 'Pp', 'PpT', 'Pn', 'BRt', 'BCt']

# a smaller alphabet for longer chains: one representative per pattern of C07 plus contexts
CORE_NAMES = ['A', 'AI', 'D', 'DI', 'H2', 'Hh', 'I2v', 'G', 'GT', 'Pr', 'PrT', 'P', 'PT', 'Pk', 'PkT', 'Tz', 'H3',
              'R1', 'R2', 'R3', 'R1T', 'R2T', 'Hw', 'Pl', 'Hq', 'Iqu', 'Mv', 'MvT', 'Mvi', 'Rs', 'RsT', 'Rv', 'Hm', 'H6']


SMALL_NAMES = ['A', 'AI', 'B', 'BI', 'D', 'DI', 'H2', 'I2v']


def tla_set(names) -> str:
    return '{' + ', '.join(f'"{n}"' for n in names) + '}'


MC_CFG = """INIT Init
NEXT Next
CONSTANTS
  MaxLen = {maxlen}
  Names = {names}
  FirstNames = {first}
INVARIANT NoRaise
INVARIANT Sound
INVARIANT TypesKept
INVARIANT EmptyOnlyIfSquare
INVARIANT Terminates
INVARIANT ReachesNF
INVARIANT Emit
CHECK_DEADLOCK FALSE
"""

TRACE_CFG = """INIT TraceInit
NEXT TraceNext
INVARIANT Verdict
CHECK_DEADLOCK FALSE
"""


def generate_chains(maxlen: int, names: list[str], nshards: int) -> fx.TlcResult:
    shards = [names[i::nshards] for i in range(nshards)]
    shards = [s for s in shards if s]

    def cfg(i: int) -> str:
        return MC_CFG.format(maxlen=maxlen, names=tla_set(names), first=tla_set(shards[i]))

    res = fx.run_tlc_sharded('MC_Reduce', cfg, len(shards), workers=6, parallel=3)
    if res.violated:
        raise fx.MachineryError(f'MC_Reduce violates {res.violated} at design level:\n' + res.stdout[-3000:])
    return res


# ----------------------------------------------------------------------------- stage 2 (worker)

def execute(case: dict) -> dict:
    """Build the term, call reduce() on the real library with the rule wrappers installed,
    record firings / result / dense matrices."""
    import numpy as np
    import terms

    b = terms.Builder()
    log: list = []
    terms.install_rule_logger(log)
    out = {'id': case['id'], 'firings': [], 'exc': None}
    op = b.build(case['term'])
    want = terms.mat_to_float(case['den'])
    tol = 2e-4
    before = terms.dense_of(op)
    out['before_ok'], out['before_err'] = _close(before, want, tol)
    try:
        red = op.reduce()
    except Exception as exc:
        out['exc'] = f'{type(exc).__name__}: {str(exc)[:200]}'
        return out
    out['term'] = b.project(op)
    out['result'] = b.project(red)
    for name, left, right, new in log:
        out['firings'].append({'rule': name, 'l': b.project(left), 'r': b.project(right),
                               'new': [b.project(n) for n in new]})
    out['opaque'] = terms.has_opaque(out['result']) or any(
        terms.has_opaque(f['l']) or terms.has_opaque(f['r']) or any(terms.has_opaque(n) for n in f['new'])
        for f in out['firings'])
    try:
        after = terms.dense_of(red)
        out['after_ok'], out['after_err'] = _close(after, want, tol)
        out['structs_ok'] = bool(red.in_structure() == op.in_structure()
                                 and red.out_structure() == op.out_structure())
        # reduce() returns a new expression: the unreduced operator (and its operands) must be untouched
        if out['firings']:
            again = terms.dense_of(op)
            out['unchanged_ok'], _ = _close(again, before, tol)
    except Exception as exc:
        out['exc'] = f'apply-reduced {type(exc).__name__}: {str(exc)[:200]}'
    out['den'] = case['den']
    return out


def _close(got, want, tol):
    import numpy as np

    if got.shape != want.shape:
        return False, -1.0
    if got.size == 0:
        return True, 0.0
    if not np.all(np.isfinite(got)):
        return False, float('inf')
    scale = max(1.0, float(np.max(np.abs(want))))
    err = float(np.max(np.abs(got - want)))
    return bool(err <= tol * scale), err


# ----------------------------------------------------------------------------- stage 3

def validate(traces: list[dict]) -> tuple[dict, fx.TlcResult | None]:
    """TLC judges every recorded reduce(); returns id -> list of clauses."""
    verdicts: dict[str, list] = {}
    total = None
    batch = 1500
    todo = [t for t in traces if t.get('exc') is None and not t.get('opaque')]
    for i in range(0, len(todo), batch):
        path = fx.BUILD / f'red-traces-{os.getpid()}-{i}.json'
        fx.BUILD.mkdir(exist_ok=True)
        path.write_text(json.dumps([{k: t[k] for k in ('id', 'term', 'result', 'firings', 'den')}
                                    for t in todo[i:i + batch]]))
        try:
            res = fx.run_tlc('Trace_Reduce', TRACE_CFG, workers=8, env={'TRACE_FILE': str(path)}, tag='trace')
        finally:
            path.unlink(missing_ok=True)
        for kind, p in res.prints:
            if kind == 'VERDICT':
                verdicts[p['id']] = p['bad']
        total = res if total is None else (total.merge(res) or total)
    missing = [t['id'] for t in todo if t['id'] not in verdicts]
    if missing:
        raise fx.MachineryError(f'{len(missing)} traces without verdict, e.g. {missing[:3]}')
    return verdicts, total


def index_patterns(tier: str, seed: int, verd: fx.Verdicts) -> dict:
    """C07, the indexing patterns on every legal index expression of MC_Index (not only the 1-d index atoms of
    FxSigma): where FxIndex says IndexTransposeRule / TransposeIndexRule applies (duplicate-free indexing - whatever
    the number of indexed axes; a single indexed axis), (P @ P.T).reduce() must be the identity and (P.T @ P).reduce()
    a diagonal operator.  The soundness of those rewrites is C12's; a pattern left in place is C07's."""
    import c12

    gen = c12.generate(tier)
    cases = [c for c in gen.cases if (c['ppt'] or c['ptp'] or (len(c['items']) == 1 and c['items'][0]['t'] == 'mask'))
             and not c['reduce_id']]
    for c in cases:
        c['id'] = fx.case_id({'s': c['shape'], 'y': c['syms'], 'g': c['given']})
    if tier == 'quick':
        cases, _ = fx.stratified_sample(
            cases, lambda c: (len(c['shape']), tuple(s[0] for s in c['syms']), c['ptp'], c['ppt'], c['given']), 3, seed)
        if len(cases) > 700:
            cases = random.Random(seed).sample(cases, 700)
    for c in cases:
        c['all_trees'] = False
    cases.sort(key=lambda c: (c['shape'], c['outshape']))
    results = fx.replay('c12', 'execute', cases, procs=fx.NPROC, chunksize=max(4, len(cases) // 64))
    missed = 0
    for c, r in zip(cases, results):
        m = sorted({i.split('[')[0] for i in r.get('info', []) if i.startswith(('ppt_missed', 'ptp_missed', 'pack_unpack_missed'))})
        if m:
            missed += 1
            label = f"{''.join(map(str, c['shape']))}:{','.join(c['syms'])}:{'u' if c['given'] else 'd'}"
            verd.report(f"index_pattern_not_rewritten:{'+'.join(m)}:{label}", 'documented_pattern_not_rewritten',
                        dict(c, c12_case=True), r)
    return {'index_expressions': len(cases), 'not_rewritten': missed, 'states': gen.distinct, 'generated': gen.generated}


def binding_selftest(traces: list[dict], rng) -> list[dict]:
    """Corrupted copies of recorded traces (one recorded field changed) that the trace specification must
    reject: the demonstration that Trace_Reduce is bound to what was recorded and is not vacuous.
      unreduced  : the recorded result replaced by the recorded input term   -> not_normal_form expected
      dropped    : a firing's produced operands replaced by its left operand  -> firing_unsound / firing_structure
      swapped    : the recorded result replaced by another trace's result     -> den / structure"""
    import copy

    ok = [t for t in traces if t.get('exc') is None and not t.get('opaque') and t.get('firings')
          and t.get('after_ok', True) and t.get('term', {}).get('k') == 'comp']
    ok = rng.sample(ok, min(len(ok), 24))
    out = []
    for i, t in enumerate(ok):
        base = {k: copy.deepcopy(t[k]) for k in ('term', 'result', 'firings', 'den')}
        if fx.canon(t['result']) != fx.canon(t['term']):
            c = dict(copy.deepcopy(base), id=f'selftest-unreduced-{i}', expect=['not_normal_form'])
            c['result'] = copy.deepcopy(t['term'])
            out.append(c)
        f0 = t['firings'][0]
        if f0['r'].get('k') != 'id' and fx.canon(f0['new']) != fx.canon([f0['l']]):
            c = dict(copy.deepcopy(base), id=f'selftest-dropped-{i}', expect=['firing_unsound', 'firing_structure'])
            c['firings'][0]['new'] = [copy.deepcopy(f0['l'])]
            out.append(c)
        other = ok[(i + 1) % len(ok)]
        if fx.canon(other['den']) != fx.canon(t['den']):
            c = dict(copy.deepcopy(base), id=f'selftest-swapped-{i}', expect=['den', 'structure'])
            c['result'] = copy.deepcopy(other['result'])
            out.append(c)
    return out


C01_CLAUSES = {'firing_unsound', 'firing_structure', 'den', 'structure', 'input_projection'}
C07_CLAUSES = {'not_normal_form', 'less_reduced'}


def judge(prop: str, cases: list[dict], traces: list[dict], verdicts: dict, verd: fx.Verdicts) -> dict:
    by_id = {c['id']: c for c in cases}
    stats = {'accepted': 0, 'drift': 0, 'opaque': 0}
    for t in traces:
        case = by_id[t['id']]
        label = '@'.join(case.get('names', [])) or case['id']
        if prop == 'C01':
            if not t.get('before_ok', True):
                # the *unreduced* real operator already disagrees with the spec: not reduce()'s doing
                # (C04/C10 report it); here the reduced operator is still compared with the spec
                stats.setdefault('unreduced_mismatch', []).append(label)
            if t.get('exc'):
                verd.report(f'raise:{label}', 'raised', case, t['exc'])
                continue
            if not t.get('after_ok', True):
                verd.report(f'den:{label}', 'den(numeric)', case, {'err': t.get('after_err'), 'result': t['result']})
                continue
            if not t.get('structs_ok', True):
                verd.report(f'structure:{label}', 'structure', case, {'result': t['result']})
                continue
            if not t.get('unchanged_ok', True):
                verd.report(f'operand_mutated:{label}', 'reduce_mutated_its_operands', case, {'result': t['result']})
                continue
        elif t.get('exc'):
            continue      # C07 is about the shape of the result; exceptions are C01's
        if t.get('opaque'):
            stats['opaque'] += 1
            continue
        bad = verdicts.get(t['id'], [])
        clauses = {b['clause'] for b in bad}
        mine = clauses & (C01_CLAUSES if prop == 'C01' else C07_CLAUSES)
        if mine:
            verd.report(f"{'+'.join(sorted(mine))}:{label}", '+'.join(sorted(mine)), case,
                        {'bad': bad, 'result': t['result'], 'firings': t['firings']})
        else:
            stats['accepted'] += 1
        if any(c.startswith('drift') for c in clauses):
            stats['drift'] += 1
            stats.setdefault('drift_examples', [])
            if len(stats['drift_examples']) < 5:
                stats['drift_examples'].append({'case': label, 'clauses': sorted(clauses), 'result': t['result']})
    return stats


def nested_cases(tier: str) -> fx.TlcResult:
    import nested

    return nested.generate(tier)


def run(prop: str, tier: str, seed: int) -> int:
    t0 = time.time()
    verd = fx.Verdicts(prop)
    rng = random.Random(seed)
    from concurrent.futures import ThreadPoolExecutor

    with ThreadPoolExecutor(max_workers=4) as pool:
        jobs = [pool.submit(generate_chains, 3, ALL_NAMES, 2),
                # length 4 over one space: a cancelling pair in the middle whose neighbours become reducible
                pool.submit(generate_chains, 4, SMALL_NAMES, 1)]
        if tier != 'quick':
            jobs.append(pool.submit(generate_chains, 4, CORE_NAMES, 3))
        nest_job = pool.submit(nested_cases, tier)
        # behaviours beyond the exhaustive bound: random walks of TLC through chains of up to 8 (quick) / 10 operators
        sim_cfg = MC_CFG.format(maxlen=8 if tier == 'quick' else 10, names=tla_set(CORE_NAMES), first=tla_set(CORE_NAMES))
        sim_job = pool.submit(fx.run_tlc, 'MC_Reduce', sim_cfg, workers=1, simulate=f"num={250 if tier == 'quick' else 4000}",
                              depth=100, seed=seed + 7, tag='sim')
        gens = [j.result() for j in jobs]
        nest = nest_job.result()
        sim = sim_job.result()
        if sim.violated:
            raise fx.MachineryError(f'MC_Reduce (simulation) violates {sim.violated}')
        for c in sim.cases:
            c['simulated'] = True
        gens.append(sim)
    t1 = t2 = time.time()
    cases, seen = [], set()
    for g in gens + [nest]:
        for c in g.cases:
            c['id'] = fx.case_id({'t': c['term']})
            if c['id'] not in seen:
                seen.add(c['id'])
                cases.append(c)
    emitted = len(cases)
    if tier == 'quick':
        # every chain in which the specification's scan fires a rule is replayed; the others and the
        # nested terms are sampled, stratified by the set of operand kinds / by template and container
        firing = [c for c in cases if c.get('simulated') or c.get('fired', 0) >= 2 or (c.get('fired', 0) == 1 and len(c['names']) <= 3)
                  or ('fired' in c and len(c['names']) <= 2)]          # and every chain of one or two operators
        def repeated_pair(c):
            """two adjacent pairs with the same pair of classes: a rule decision about one must not be reused for the other"""
            ks = [t['k'] for t in c['term']['ch']]
            pairs = list(zip(ks, ks[1:]))
            return len(set(pairs)) < len(pairs)

        firing += [c for c in cases if not c.get('simulated') and c.get('fired', 0) == 1 and len(c['names']) > 3
                   and repeated_pair(c)]
        one4 = [c for c in cases if not c.get('simulated') and c.get('fired', 0) == 1 and len(c['names']) > 3
                and not repeated_pair(c)]
        firing += rng.sample(one4, min(len(one4), 300))
        quiet = [c for c in cases if 'fired' in c and c['fired'] == 0 and not c.get('simulated') and len(c['names']) > 2]
        nestd = [c for c in cases if 'fired' not in c]
        q, s1 = fx.stratified_sample(quiet, lambda c: '/'.join(sorted(set(_kinds(c['term'])))), 1, seed)
        if len(q) > 300:
            q = rng.sample(q, 300)
        n, s2 = fx.stratified_sample(nestd, lambda c: '/'.join(c['names'][:3] + sorted(set(c['names'][3:]))), 1, seed)
        if len(n) > 500:
            n = rng.sample(n, 500)
        picked = firing + q + n
        nstrata = {'firing_chains_all': len(firing), 'quiet_chain_strata': len(s1), 'nested_strata': len(s2)}
        sample = len(picked)
    else:
        picked, nstrata, sample = cases, None, None
    picked.sort(key=lambda c: (c.get('names') or [''])[0:2])
    traces = fx.replay('redcheck', 'execute', picked, procs=fx.NPROC, chunksize=max(4, len(picked) // (fx.NPROC * 3)))
    t3 = time.time()
    selftests = binding_selftest(traces, random.Random(seed + 1))
    verdicts, tv = validate(traces + selftests)
    t4 = time.time()
    st_rejected = {}
    for c in selftests:
        kind = c['id'].split('-')[1]
        got = {b['clause'] for b in verdicts.get(c['id'], [])}
        st = st_rejected.setdefault(kind, [0, 0])
        st[1] += 1
        st[0] += bool(got & set(c['expect']))
    # a trace specification that accepts corrupted recordings decides nothing: machinery failure, not a verdict
    for kind, (rej, tot) in st_rejected.items():
        floor = tot if kind != 'unreduced' else max(1, tot // 2)     # a firing inside an operand leaves the top-level chain normal
        if rej < floor:
            raise fx.MachineryError(f'binding self-test: only {rej} of {tot} corrupted traces ({kind}) rejected by Trace_Reduce')
    stats = judge(prop, picked, traces, verdicts, verd)
    idxpat = index_patterns(tier, seed, verd) if prop == 'C07' else None
    rc = verd.finish()
    states = sum(g.distinct for g in gens) + nest.distinct + (tv.distinct if tv else 0)
    trans = sum(g.generated for g in gens) + nest.generated + (tv.generated if tv else 0)
    nontriv = fx.nontrivial_count(
        [t for t in traces if t.get('firings')], lambda t: True)
    fx.write_evidence(prop, tier, seed, {
        'states': states, 'transitions': trans,
        'traces_validated_against_impl': stats['accepted'],
        'evaluations': len(picked), 'distinct_nontrivial': nontriv,
        'rule': 'cases = every well-typed chain over the alphabet up to the length bound (TLC, exhaustive) plus '
                'nested terms (blocks, sums, inverses of composites) plus TLC -simulate random walks through chains of up to 8-10 '
                'operators; replayed = all (thorough) or a sample '
                'stratified by chain length x set of operand kinds (quick); non-trivial = at least one rule fired '
                'in the real reduce(); distinct by canonical JSON of the recorded trace',
        'exhaustive': sample is None,
        'emitted_cases': emitted, 'replayed': len(picked), 'strata': nstrata,
        'timing_s': {'chains_tlc': round(t1 - t0, 1), 'nested_tlc': round(t2 - t1, 1), 'replay': round(t3 - t2, 1),
                     'trace_validation': round(t4 - t3, 1)},
        'unreduced_operator_disagrees_with_spec': stats.get('unreduced_mismatch', [])[:20],
        'index_patterns_MC_Index': idxpat,
        'binding_selftest': {k: {'corrupted': v[1], 'rejected': v[0]} for k, v in st_rejected.items()},
        'drift_traces': stats['drift'], 'drift_examples': stats.get('drift_examples', []), 'opaque_traces': stats['opaque'],
        'design_models': [{'distinct_states': g.distinct, 'generated': g.generated, 'depth': g.depth} for g in gens]
                         + [{'nested_distinct_states': nest.distinct}],
        'samples': [{k: traces[i][k] for k in ('id', 'firings', 'result') if k in traces[i]}
                    for i in (0, len(traces) // 2)] + [picked[0].get('names')],
    }, [
        'exact parameter domain (small integers, QU angles = multiples of pi/4 and a Pythagorean angle)',
        'dense matrices of the real operators obtained by applying mv to every basis vector (tolerance 2e-4 relative)',
        'rule firings observed through run-time wrappers on the rule instances (FURAX_VERIF=1)',
    ], time.time() - t0, len(verd.violations))
    return rc


def _kinds(t: dict):
    yield t['k']
    for c in t['ch']:
        yield from _kinds(c)


def replay_file(prop: str, path: str) -> int:
    doc = json.loads(open(path).read())
    case = doc['case'] if 'case' in doc else doc
    case.setdefault('id', 'replay')
    if case.get('c12_case'):
        verd = fx.Verdicts(prop)
        r = fx.replay('c12', 'execute', [case], procs=1)[0]
        print(json.dumps(r, indent=1)[:3000])
        if any(i.startswith(('ppt_missed', 'ptp_missed', 'pack_unpack_missed')) for i in r.get('info', [])):
            verd.report('index_pattern_not_rewritten:replay', 'documented_pattern_not_rewritten', case, r)
        return verd.finish()
    traces = fx.replay('redcheck', 'execute', [case], procs=1)
    verdicts, _ = validate(traces)
    verd = fx.Verdicts(prop)
    judge(prop, [case], traces, verdicts, verd)
    print(json.dumps({'trace': {k: v for k, v in traces[0].items() if k != 'den'},
                      'verdict': verdicts.get(case['id'])}, indent=1)[:6000])
    return verd.finish()
