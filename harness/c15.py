"""C15 - polarimetry operators realise their Mueller matrices.

Stage 1: MC_Polar (all chains over rotations / transposed rotations / HWP / polariser for the four
Stokes kinds; identities checked on exact matrices).  Stage 2: each chain on the real operators,
(a) with the exact angles, (b) with the spec's integer linear forms instantiated on arbitrary real
angle arrays, (c) through the factory methods where the chain is a factory product.  Stage 3: the
recorded reductions are validated by TLC (Trace_Reduce)."""
from __future__ import annotations

import json
import math
import random
import time

import fx
import redcheck

PROP = 'C15'

CFG = """INIT Init
NEXT Next
CONSTANTS
  Kinds = {kinds}
  MaxLen = {maxlen}
INVARIANT Sound
INVARIANT ReachesNF
INVARIANT Shape
INVARIANT Emit
CHECK_DEADLOCK FALSE
"""


def generate(tier: str) -> fx.TlcResult:
    kinds = ['I', 'QU', 'IQU', 'IQUV']
    maxlen = 3 if tier == 'quick' else 4

    def cfg(i: int) -> str:
        return CFG.format(kinds=redcheck.tla_set([kinds[i]]), maxlen=maxlen)

    res = fx.run_tlc_sharded('MC_Polar', cfg, 4, workers=4, parallel=4)
    if res.violated:
        raise fx.MachineryError(f'MC_Polar violates {res.violated}:\n' + res.stdout[-2000:])
    return res


# ----------------------------------------------------------------------------- worker side

def _mueller(kind: str, code: str, ang, m: int):
    """float64 Mueller matrix (acting on components, element-wise angles) of one chain element."""
    import numpy as np

    nc = len(kind)
    comps = list(kind)

    def blockdiag_per_element(fn):
        M = np.zeros((fn(0).shape[0] * m, nc * m))
        for e in range(m):
            B = fn(e)
            for i in range(B.shape[0]):
                for j in range(nc):
                    M[i * m + e, j * m + e] = B[i, j]
        return M

    if code == 'H':
        d = [1.0 if c in 'IQ' else -1.0 for c in comps]
        return blockdiag_per_element(lambda e: np.diag(d))
    if code == 'P':
        row = np.array([[0.5 if c in 'IQ' else 0.0 for c in comps]])
        if kind == 'QU':
            row = np.array([[0.5, 0.0]])
        return blockdiag_per_element(lambda e: row)
    sign = -1.0 if code.endswith('T') else 1.0
    a = np.broadcast_to(np.asarray(ang, dtype=np.float64), LEAFSHAPE[0]).ravel()

    def rot(e):
        B = np.eye(nc)
        if 'Q' in comps:
            q, u = comps.index('Q'), comps.index('U')
            c, s = math.cos(2 * a[e]), math.sin(2 * sign * a[e])
            B[q, q], B[q, u], B[u, q], B[u, u] = c, -s, s, c
        return B

    return blockdiag_per_element(rot)


ANGLE_FORMS = {1: [1, 0], 2: [0, 1], 3: [3, 0, 0, -1], 4: [1, 1]}
LEAFSHAPE = [(2,)]        # shape of the Stokes components of the current case (set by execute)


def _real_angles(form, alpha, beta):
    """The integer linear form(s) evaluated on the real generators.  One form: q*alpha + n*beta with its natural
    (broadcast) shape.  One form per element of the last axis: element e of the last axis uses form e."""
    import numpy as np

    vals = [form[2 * i] * alpha + form[2 * i + 1] * beta for i in range(len(form) // 2)]
    if len(vals) == 1:
        return np.asarray(vals[0], dtype=np.float64)
    shape = LEAFSHAPE[0]
    full = [np.broadcast_to(np.asarray(v, dtype=np.float64), shape) for v in vals]
    return np.stack([full[e][..., e] for e in range(len(vals))], axis=-1)


def execute(case: dict) -> dict:
    import jax
    import jax.numpy as jnp
    import numpy as np
    import terms
    from furax._base.core import CompositionOperator
    from furax.landscapes import StokesPyTree
    from furax.operators.hwp import HWPOperator
    from furax.operators.polarizers import LinearPolarizerOperator
    from furax.operators.qu_rotations import QURotationOperator, QURotationTransposeOperator

    out = redcheck.execute(case)           # (a) exact angles, recorded for trace validation
    kind, chain = case['names'][0], case['names'][1:]
    x64 = bool(jax.config.jax_enable_x64)
    dtype = jnp.float64 if (x64 and int(case['id'], 16) % 2 == 0) else jnp.float32
    if case.get('force_dtype'):
        dtype = {'f32': jnp.float32, 'f64': jnp.float64}[case['force_dtype']]
    tol = 1e-9 if dtype == jnp.float64 else 3e-5
    rng = np.random.default_rng(int(case['id'], 16) % (2 ** 32))
    # Stokes components of shape (2,) or (2, 2); angle generators of every shape that broadcasts to it (a (2,) array on
    # (2, 2) components must broadcast the NumPy way, along the last axis)
    leafshape = [(2,), (2, 2)][int(rng.integers(2))]
    LEAFSHAPE[0] = leafshape
    m = int(np.prod(leafshape))
    choices = [(), (2,), (1,)] if leafshape == (2,) else [(), (2,), (1,), (2, 1), (1, 2), (2, 2)]
    shape_a = choices[int(rng.integers(len(choices)))]
    shape_b = choices[int(rng.integers(len(choices)))]
    alpha = rng.uniform(-7.0, 7.0, size=shape_a)
    beta = rng.uniform(-7.0, 7.0, size=shape_b)
    struct = StokesPyTree.class_for(kind).structure_for(leafshape, dtype)
    rots = {}
    use_numpy = int(case['id'], 16) % 3 == 0
    ops, want = [], None
    angles_of = {}
    for code in chain:
        if code == 'H':
            op = HWPOperator(struct)
            M = _mueller(kind, 'H', None, m)
        elif code == 'P':
            op = LinearPolarizerOperator(struct)
            M = _mueller(kind, 'P', None, m)
        else:
            i = int(code[1])
            ang = _real_angles(ANGLE_FORMS[i], alpha, beta)
            angles_of[i] = ang
            if i not in rots:
                # the angles may be given as a NumPy array (mutable) or as a JAX array
                arr = np.asarray(ang, dtype=np.dtype(dtype)) if use_numpy else jnp.asarray(ang, dtype=dtype)
                rots[i] = QURotationOperator(arr, struct)
            op = QURotationTransposeOperator(rots[i]) if code.endswith('T') else rots[i]
            M = _mueller(kind, code, ang, m)
        ops.append(op)
        want = M if want is None else want @ M
    lifted = {'leaf_shape': list(leafshape), 'alpha_shape': list(shape_a), 'beta_shape': list(shape_b), 'dtype': str(np.dtype(dtype))}
    try:
        comp = CompositionOperator(ops) if len(ops) > 1 else ops[0]
        before = terms.dense_of(comp)
        red = comp.reduce()
        after = terms.dense_of(red)
        lifted['before_ok'], lifted['before_err'] = redcheck._close(before, want, tol)
        lifted['after_ok'], lifted['after_err'] = redcheck._close(after, want, tol)
        lifted['structs_ok'] = bool(red.in_structure() == comp.in_structure()
                                    and red.out_structure() == comp.out_structure())
        # reducing must not rewrite the operands of the unreduced chain
        lifted['unchanged_ok'], _ = redcheck._close(terms.dense_of(comp), want, tol)
        lifted['numpy_angles'] = use_numpy
        # the surviving rotation's angle array must be the spec's linear form on the real generators
        spec_chain = case['result']['ch'] if case['result']['k'] == 'comp' else [case['result']]
        real_chain = list(red.operands) if isinstance(red, CompositionOperator) else [red]
        kinds_spec = [t['k'] for t in spec_chain]
        kinds_real = [{'QURotationOperator': 'rot', 'QURotationTransposeOperator': 'rotT', 'HWPOperator': 'hwp',
                       'LinearPolarizerOperator': 'pol', 'IdentityOperator': 'id'}.get(type(o).__name__, '?')
                      for o in real_chain]
        lifted['same_shape_as_spec'] = kinds_spec == kinds_real
        lifted['angles_ok'] = True
        if kinds_spec == kinds_real and kind != 'I':
            for t, o in zip(spec_chain, real_chain):
                if t['k'] in ('rot', 'rotT'):
                    form = t['p'] if t['k'] == 'rot' else t['ch'][0]['p']
                    exp = np.asarray(_real_angles(form, alpha, beta))
                    got = np.asarray(o.angles if t['k'] == 'rot' else o.operator.angles, dtype=np.float64)
                    try:
                        diff = np.broadcast_to(got, np.broadcast_shapes(got.shape, exp.shape)) - exp
                    except ValueError:
                        lifted['angles_ok'] = False
                        continue
                    # rotation by 2a: angles are equivalent modulo pi
                    if not np.all(np.abs(np.sin(diff)) <= (1e-9 if dtype == jnp.float64 else 2e-5)):
                        lifted['angles_ok'] = False
                        lifted['angles'] = {'got': np.asarray(got).tolist(), 'expected': np.asarray(exp).tolist()}
    except Exception as exc:
        lifted['exc'] = f'{type(exc).__name__}: {str(exc)[:200]}'
    out['lifted'] = lifted
    # (c) factories
    fac = None

    def fang(i):
        # the angles handed to the factories: of the data dtype, or (64-bit mode, float32 data) float64 angles of a
        # spinning plate, whole turns away - (cos 2a, sin 2a) unchanged, but rounding them to float32 would be off
        # by 0.06 rad
        if x64 and dtype == jnp.float32:
            return jnp.asarray(np.asarray(angles_of[i], dtype=np.float64) + 2 * np.pi * 163841, dtype=jnp.float64)
        return jnp.asarray(angles_of[i], dtype=dtype)

    try:
        if len(chain) == 1 and chain[0] in ('R1', 'R2', 'R3', 'R4'):
            fac = QURotationOperator.create(leafshape, dtype, kind, angles=fang(int(chain[0][1])))
        elif len(chain) == 1 and chain[0] == 'H':
            fac = HWPOperator.create(leafshape, dtype, kind)
        elif len(chain) == 1 and chain[0] == 'P':
            fac = LinearPolarizerOperator.create(leafshape, dtype, kind)
        elif len(chain) == 2 and chain[0] == 'P' and chain[1] in ('R1', 'R2', 'R3', 'R4'):
            fac = LinearPolarizerOperator.create(leafshape, dtype, kind, angles=fang(int(chain[1][1])))
        elif len(chain) == 3 and chain[1] == 'H' and chain[0] == chain[2] + 'T':
            fac = HWPOperator.create(leafshape, dtype, kind, angles=fang(int(chain[2][1])))
        if fac is not None:
            f = {}
            f['before_ok'], f['before_err'] = redcheck._close(terms.dense_of(fac), want, tol)
            f['after_ok'], f['after_err'] = redcheck._close(terms.dense_of(fac.reduce()), want, tol)
            f['structs_ok'] = bool(fac.in_structure() == struct)
            f['wide_angles'] = bool(x64 and dtype == jnp.float32)
            out['factory'] = f
    except Exception as exc:
        out['factory'] = {'exc': f'{type(exc).__name__}: {str(exc)[:200]}'}
    return out


# ----------------------------------------------------------------------------- driver

def judge(cases, traces, verdicts, verd, mode):
    by_id = {c['id']: c for c in cases}
    acc = 0
    for t in traces:
        case = by_id[t['id']]
        label = f"{mode}:" + '@'.join(case['names'])
        ok = True
        if t.get('exc'):
            verd.report(f'raise:{label}', 'raised', case, t['exc'])
            continue
        if not t.get('before_ok', True):
            verd.report(f'mueller:{label}', 'mueller_matrix(exact angles)', case, {'err': t.get('before_err')})
            ok = False
        if not t.get('after_ok', True):
            verd.report(f'reduced:{label}', 'reduced_matrix(exact angles)', case, {'err': t.get('after_err')})
            ok = False
        lf = t.get('lifted', {})
        if lf.get('exc'):
            verd.report(f'lifted_raise:{label}', 'raised(real angles)', case, lf)
            ok = False
        else:
            for key, clause in (('before_ok', 'mueller_matrix(real angle arrays)'),
                                ('after_ok', 'reduced_matrix(real angle arrays)'),
                                ('structs_ok', 'structures'), ('angles_ok', 'angle_form'),
                                ('unchanged_ok', 'reduce_mutated_its_operands')):
                if not lf.get(key, True):
                    verd.report(f'{key}:{label}', clause, case, lf)
                    ok = False
        fc = t.get('factory')
        if fc is not None:
            if fc.get('exc'):
                verd.report(f'factory_raise:{label}', 'factory raised', case, fc)
                ok = False
            else:
                for key in ('before_ok', 'after_ok', 'structs_ok'):
                    if not fc.get(key, True):
                        verd.report(f'factory_{key}:{label}', 'factory product', case, fc)
                        ok = False
        bad = verdicts.get(t['id'], [])
        mine = {b['clause'] for b in bad} & (redcheck.C01_CLAUSES | redcheck.C07_CLAUSES)
        if mine:
            verd.report(f"{'+'.join(sorted(mine))}:{label}", '+'.join(sorted(mine)), case, {'bad': bad, 'result': t.get('result')})
            ok = False
        acc += ok
    return acc


def run(tier: str, seed: int) -> int:
    t0 = time.time()
    verd = fx.Verdicts(PROP)
    gen = generate(tier)
    cases = gen.cases
    for c in cases:
        c['id'] = fx.case_id({'t': c['term']})
    rng = random.Random(seed)
    if tier == 'quick' and len(cases) > 2400:
        picked, strata = fx.stratified_sample(cases, lambda c: (c['names'][0], len(c['names']), tuple(sorted(set(x[0] for x in c['names'][1:])))), 200, seed)
    else:
        picked = cases
    picked.sort(key=lambda c: c['names'])
    accepted = 0
    all_traces = []

    def factory_product(c):
        ch = c['names'][1:]
        return ((len(ch) == 1 and ch[0][0] in 'RHP' and not ch[0].endswith('T'))
                or (len(ch) == 2 and ch[0] == 'P' and ch[1][0] == 'R' and not ch[1].endswith('T'))
                or (len(ch) == 3 and ch[1] == 'H' and ch[0] == ch[2] + 'T'))

    # every chain that is the product a factory builds is always replayed, in 64-bit mode with both data dtypes
    facs = [c for c in cases if factory_product(c)]
    have = {c['id'] for c in picked}
    picked += [c for c in facs if c['id'] not in have]
    picked.sort(key=lambda c: c['names'])
    for x64 in (False, True):
        sub = picked if (tier != 'quick' or not x64) else picked[::3]
        if x64:
            ids = {c['id'] for c in sub}
            sub = [c for c in sub if not factory_product(c)] + [dict(c, force_dtype=d, id=fx.case_id({'t': c['term'], 'd': d})) for c in facs for d in ('f32', 'f64')]
        traces = fx.replay('c15', 'execute', sub, x64=x64, procs=fx.NPROC, chunksize=max(4, len(sub) // 48))
        verdicts, tv = redcheck.validate(traces)
        accepted += judge(sub, traces, verdicts, verd, 'x64' if x64 else 'x32')
        all_traces += traces
    rc = verd.finish()
    nfac = sum(1 for t in all_traces if t.get('factory') is not None)
    fx.write_evidence(PROP, tier, seed, {
        'states': gen.distinct, 'transitions': gen.generated,
        'traces_validated_against_impl': accepted,
        'evaluations': len(all_traces),
        'distinct_nontrivial': fx.nontrivial_count(picked, lambda c: len(c['names']) >= 3),
        'rule': 'cases = every chain of length <= MaxLen over {4 rotations, their transposes, HWP, polariser(leftmost)} per '
                'Stokes kind; each replayed with exact angles, with real angle arrays (linear forms instantiated on '
                'seeded random generators of shapes (), (2,), (1,)) and through the factory when it is a factory '
                'product; non-trivial = at least two operators; x64 on and off',
        'exhaustive': len(picked) == len(cases),
        'emitted_cases': len(cases), 'replayed': len(picked), 'factory_checks': nfac,
        'samples': [{'names': picked[0]['names'], 'lifted': all_traces[0].get('lifted')},
                    {'names': picked[-1]['names'], 'lifted': all_traces[len(picked) - 1].get('lifted')}],
    }, [
        'angle domain of the exact model: integer combinations of pi/4 and of the Pythagorean angle atan2(4,3)/2',
        'real-angle instantiation uses seeded uniform reals in [-7, 7]; tolerance 3e-5 (float32) / 1e-9 (float64)',
    ], time.time() - t0, len(verd.violations))
    return rc


def replay_file(path: str) -> int:
    doc = json.loads(open(path).read())
    case = doc['case'] if 'case' in doc else doc
    verd = fx.Verdicts(PROP)
    for x64 in (False, True):
        traces = fx.replay('c15', 'execute', [case], x64=x64, procs=1)
        verdicts, _ = redcheck.validate(traces)
        judge([case], traces, verdicts, verd, 'x64' if x64 else 'x32')
        print(json.dumps({k: traces[0].get(k) for k in ('lifted', 'factory', 'before_err', 'after_err', 'exc')}, indent=1))
    return verd.finish()
