"""C14 - the einsum block operator and its rewritten-subscript transpose agree.

Stage 1: TLC checks MC_Dense (spec/FxDense.tla + spec/MC_Dense.tla) over every subscript string
         `blocks,leaf->out` of the bounded family: the transcribed _get_transposed_subscripts raises
         or returns the subscripts of the exact adjoint under the reference einsum semantics (also
         when the summed / transposed letter is repeated in the blocks subscripts, the class of the
         defect O10 repaired by furax a5387e9), accepts exactly the characterised set of strings,
         is an involution, ...; every terminal state is
         emitted as a case carrying the specification's predictions (constructor outcome, einsum
         validity, output shapes, Error / transposed string, exact operator matrix).
Stage 2: every case (thorough) or a stratified seeded sample (quick) is executed on the real
         DenseBlockDiagonalOperator: construction, out_structure, mv on every basis vector, .T, .T.T.
Stage 3: the observations are compared with the predictions: op = spec matrix; op.T is the exact
         adjoint with swapped structures or is rejected (any exception) - and is NOT rejected where
         the specification proves the rewriting correct; op.T.T denotes op.
"""
from __future__ import annotations

import json
import random
import time

import fx

PROP = 'C14'
DEFAULT_SUB = 'ij...,j...->i...'

MC_CFG = """INIT Init
NEXT Next
CONSTANTS
  MaxB = {maxb}
  MaxX = {maxx}
  MaxO = {maxo}
  Family = "{family}"
  Modes = {{"distinct", "equal"}}
  ErrModes = {errmodes}
  DenAll = {denall}
  UseSeeds = TRUE
  BFirst = {bfirst}
INVARIANT RoundTrip
INVARIANT Parsing
INVARIANT AfterSum
INVARIANT AfterTranspose
INVARIANT AfterSwap
INVARIANT AcceptSet
INVARIANT Involution
INVARIANT AcceptedAreValid
INVARIANT AdjointOrError
INVARIANT RepeatedLetterIsAdjoint
INVARIANT Emit
CHECK_DEADLOCK FALSE
"""

# first token of the blocks subscripts ("" = empty blocks string and the injected docstring strings)
SHARDS = [['', '...'], ['i'], ['j'], ['k'], ['h']]


def tla_set(names) -> str:
    return '{' + ', '.join(f'"{n}"' for n in names) + '}'


def generate(tier: str) -> fx.TlcResult:
    family = 'trailing' if tier == 'quick' else 'all'
    denall = 'FALSE' if tier == 'quick' else 'TRUE'

    errmodes = tla_set(['equal'] if tier == 'quick' else ['distinct', 'equal'])

    def cfg(i: int) -> str:
        return MC_CFG.format(maxb=3, maxx=2, maxo=2, family=family, denall=denall, errmodes=errmodes,
                             bfirst=tla_set(SHARDS[i]))

    # deep (lazy) evaluation of the matrix expressions: give the TLC worker threads a larger stack
    res = fx.run_tlc_sharded('MC_Dense', cfg, len(SHARDS), workers=3, parallel=5,
                             env={'JAVA_TOOL_OPTIONS': '-Xss64m'})
    if res.violated:
        raise fx.MachineryError(f'MC_Dense violates {res.violated} at design level:\n' + res.stdout[-3000:])
    return res


# ----------------------------------------------------------------------------- case helpers

def sub_of(case: dict) -> str:
    return ''.join(case['sub'])


def label(case: dict) -> str:
    return f"{sub_of(case)}|{case['tree']}|{case['mode']}|eb{case['eb']}|ex{case.get('ex', 1)}" + ('|int32' if case.get('intleaf') else '')


def prepare(case: dict) -> dict:
    case['id'] = fx.case_id({k: case.get(k, 1) for k in ('sub', 'mode', 'eb', 'ex', 'tree')})
    return case


def stratum(case: dict) -> str:
    toks = case['b'] + case['x'] + case['o']
    letters = [t for t in toks if t != '...']
    rep = any(len(set(op)) < len(op) for op in (case['b'], case['x'], case['o']))
    ell = ''.join('e' if '...' in op else '-' for op in (case['b'], case['x'], case['o']))
    outcome = ('ctor:' + case['ctorwhy']) if not case['ctor'] else ('invalid' if not case['valid'] else
                                                                     ('T' if case['tok'] else 'E:' + case['twhy']))
    return f"{len(case['b'])}{len(case['x'])}{len(case['o'])}/{len(set(letters))}/{int(rep)}/{ell}/{outcome}/{case['mode']}{case['eb']}{case.get('ex', 1)}"


# ----------------------------------------------------------------------------- stage 2 (worker)

def _dense(op, jax, jnp, np):
    """Matrix of op between the flattened pytrees, by mv on every basis vector."""
    leaves, treedef = jax.tree.flatten(op.in_structure())
    sizes = [int(np.prod(leaf.shape, dtype=np.int64)) for leaf in leaves]
    n = sum(sizes)
    cols = []
    for c in range(n):
        flat = np.zeros(n, np.float32)
        flat[c] = 1.0
        parts, off = [], 0
        for leaf, sz in zip(leaves, sizes):
            parts.append(jnp.asarray(flat[off:off + sz].reshape(leaf.shape)).astype(leaf.dtype))
            off += sz
        y = op.mv(jax.tree.unflatten(treedef, parts))
        cols.append(np.concatenate([np.asarray(v, dtype=np.float64).ravel() for v in jax.tree.leaves(y)]))
    return np.stack(cols, 1)


def _shapes(struct, jax):
    return [list(leaf.shape) for leaf in jax.tree.leaves(struct)]


def _exc(exc: BaseException) -> str:
    return f'{type(exc).__name__}: {str(exc)[:160]}'


def _same(a, b, np) -> bool:
    return a.shape == b.shape and bool(np.all(np.abs(a - b) <= 1e-6 * max(1.0, float(np.max(np.abs(b), initial=0.0)))))


def execute(case: dict) -> dict:
    import jax
    import jax.numpy as jnp
    import numpy as np
    from furax._base.dense import DenseBlockDiagonalOperator

    out = {'id': case['id'], 'ctor_exc': None, 'use_exc': None, 'T_exc': None, 'T_stage': None, 'TT_exc': None}
    sub = sub_of(case)
    arrays = []
    for blk in case['blocks']:
        n = int(np.prod(blk['sh'], dtype=np.int64))
        arrays.append(jnp.arange(blk['off'] + 1, blk['off'] + 1 + n, dtype=jnp.float32).reshape(tuple(blk['sh'])))
    intleaf = bool(case.get('intleaf'))
    if intleaf:
        # integer leaves, half-integer float32 blocks: einsum promotes, the matrix is half the reference matrix
        arrays = [a / 2 for a in arrays]
    structs = [jax.ShapeDtypeStruct(tuple(sh), jnp.int32 if intleaf else jnp.float32) for sh in case['xs']]
    if case['tree'] == 'leaf':
        blocks, ins = arrays[0], structs[0]
    elif case['tree'] == 'shared2':
        blocks, ins = arrays[0], {'a': structs[0], 'b': structs[1]}
    else:
        blocks, ins = {'a': arrays[0], 'b': arrays[1]}, {'a': structs[0], 'b': structs[1]}
    # ---- construction
    try:
        if sub == DEFAULT_SUB:
            op = DenseBlockDiagonalOperator(blocks, ins)
        else:
            op = DenseBlockDiagonalOperator(blocks, ins, sub)
        out['stored_sub'] = op.subscripts
    except Exception as exc:
        out['ctor_exc'] = _exc(exc)
        return out
    # ---- first use: einsum itself accepts / rejects the string on these shapes
    try:
        outs = op.out_structure()
        out['outs'] = _shapes(outs, jax)
        out['outs_tree_ok'] = bool(jax.tree.structure(outs) == jax.tree.structure(ins))
    except Exception as exc:
        out['use_exc'] = _exc(exc)
        return out
    mat = None
    if not case.get('light'):
        try:
            mat = _dense(op, jax, jnp, np)
        except Exception as exc:
            out['use_exc'] = 'mv ' + _exc(exc)
            return out
        if case['hasden']:
            want = np.asarray(case['den'], dtype=np.float64) * (0.5 if intleaf else 1.0)
            out['den_ok'] = _same(mat, want, np)
            if not out['den_ok']:
                out['den_got'] = mat.tolist()
    if intleaf:
        return out       # the transpose of a dtype-changing operator does not swap the structures: only mv is judged
    # ---- transpose
    try:
        op_t = op.T
    except Exception as exc:
        out['T_exc'], out['T_stage'] = _exc(exc), 'transpose'
        return out
    out['T_sub'] = getattr(op_t, 'subscripts', None)
    try:
        t_in, t_out = op_t.in_structure(), op_t.out_structure()
        mat_t = _dense(op_t, jax, jnp, np)
    except Exception as exc:
        out['T_exc'], out['T_stage'] = _exc(exc), 'first use'
        return out
    if mat is None:
        try:
            mat = _dense(op, jax, jnp, np)
        except Exception as exc:
            out['use_exc'] = 'mv ' + _exc(exc)
            return out
    out['T_struct_ok'] = bool(t_in == outs and t_out == op.in_structure())
    out['T_adj_ok'] = _same(mat_t, mat.T, np)
    if not out['T_adj_ok']:
        out['T_got'] = mat_t.tolist()
        out['op_mat'] = mat.tolist()
    # ---- transpose of the transpose denotes the operator
    try:
        op_tt = op_t.T
        mat_tt = _dense(op_tt, jax, jnp, np)
        out['TT_ok'] = bool(_same(mat_tt, mat, np) and op_tt.in_structure() == op.in_structure()
                            and op_tt.out_structure() == outs)
    except Exception as exc:
        out['TT_exc'] = _exc(exc)
    return out


# ----------------------------------------------------------------------------- stage 3

def judge(case: dict, obs: dict, verd: fx.Verdicts, stats: dict) -> None:
    sub = sub_of(case)
    lab = label(case)

    def count(k):
        stats[k] = stats.get(k, 0) + 1

    # ---- construction
    if obs['ctor_exc']:
        if case['ctor'] and case['valid']:
            verd.report(f'ctor_rejects:{lab}', 'construction of a valid einsum operator raised', case, obs)
        else:
            count('ctor_rejected_as_predicted' if not case['ctor'] else 'ctor_rejected_invalid_einsum')
        return
    if not case['ctor']:
        count('drift_ctor_accepts')     # not part of the property: what follows is still judged
    # ---- mv
    if obs['use_exc']:
        if case['valid']:
            verd.report(f'mv_rejects:{lab}', 'einsum of a valid string raised', case, obs)
        else:
            count('einsum_rejected_as_predicted')
        return
    if case['valid']:
        if obs['outs'] != case['outs'] or not obs.get('outs_tree_ok', True):
            verd.report(f'out_structure:{lab}', 'out_structure differs from the reference', case, obs)
            return
        if obs.get('den_ok') is False:
            verd.report(f'mv_wrong:{lab}', 'mv differs from the reference einsum matrix', case, obs)
            return
        if 'den_ok' in obs:
            count('mv_matrix_equal_spec')
        if case.get('intleaf'):
            return
    else:
        count('drift_einsum_accepts')   # jnp accepts a string the reference calls invalid: only .T is judged
    # ---- transpose: the adjoint, or rejected
    must = case['valid'] and case['tok'] and case['adj'] == 'ok'
    if obs['T_exc']:
        if must:
            verd.report(f'rejects_transposable:{lab}',
                        f"transpose raised ({obs['T_stage']}) for a string whose rewriting is proved correct",
                        case, obs)
        else:
            count('T_rejected' if obs['T_stage'] == 'transpose' else 'T_rejected_at_first_use')
        return
    if not (obs['T_struct_ok'] and obs['T_adj_ok']):
        # the class of O10 (repaired by furax a5387e9) keeps its own key: reported again if it ever returns
        cls = 'repeated_letter' if case['dev'] else 'other'
        what = 'structures not swapped' if not obs['T_struct_ok'] else 'matrix is not the transpose'
        verd.report(f'wrong_transpose:{cls}:{sub}', f'op.T is not the adjoint ({what})', case,
                    {k: obs.get(k) for k in ('T_sub', 'T_struct_ok', 'T_adj_ok', 'T_got', 'op_mat')}
                    | {'shapes': lab})
        return
    if obs.get('TT_exc') or not obs.get('TT_ok'):
        verd.report(f'double_transpose:{lab}', 'op.T.T does not denote op', case, obs)
        return
    count('T_adjoint')
    if not case['tok']:
        count('drift_transposes_more_than_spec')
    elif obs.get('T_sub') is not None and obs['T_sub'] != ''.join(case['tsub']):
        count('drift_other_subscripts')


def select(cases: list[dict], tier: str, seed: int):
    """thorough: every case; quick: a stratified sample of the predicted transpositions and of the rest."""
    pos = [c for c in cases if c['tok']]
    rest = [c for c in cases if not c['tok']]
    if tier == 'quick':
        pos, spos = fx.stratified_sample(pos, stratum, 40, seed)
        rest, srest = fx.stratified_sample(rest, stratum, 2, seed + 1)
        rng = random.Random(seed)
        if len(rest) > 2500:
            rest = rng.sample(rest, 2500)
        strata = {'transposed_strata': len(spos), 'rejected_strata': len(srest)}
        probe = {c['id'] for c in rest}
    else:
        # every case is replayed; the (compiling) matrix probe of the strings the algorithm rejects is
        # done on a stratified sample of those that carry a matrix
        sample, sprobe = fx.stratified_sample([c for c in rest if c['hasden']], stratum, 80, seed + 2, cap=30000)
        probe = {c['id'] for c in sample}
        strata = {'matrix_probe_strata_of_rejected_strings': len(sprobe), 'matrix_probes_of_rejected_strings': len(probe)}
    for c in rest:
        c['light'] = not (c['hasden'] and c['id'] in probe)
    picked = pos + rest
    picked.sort(key=lambda c: (sub_of(c), c['mode'], c['eb'], c['tree']))
    return picked, strata


def run(tier: str, seed: int) -> int:
    t0 = time.time()
    verd = fx.Verdicts(PROP)
    gen = generate(tier)
    t1 = time.time()
    cases, seen = [], set()
    for c in gen.cases:     # the injected docstring strings that are also in the family come from two shards
        c = prepare(c)
        if c['id'] not in seen:
            seen.add(c['id'])
            cases.append(c)
    strings = {tuple(c['sub']) for c in cases}
    picked, strata = select(cases, tier, seed)
    # the valid strings with a reference matrix once more on int32 leaves with half-integer float32 blocks
    ints = [dict(c, intleaf=True, id=fx.case_id({'i': c['id']})) for c in picked
            if c['valid'] and c['ctor'] and c.get('hasden') and not c.get('light')]
    if tier == 'quick':
        ints = ints[::2]
    picked = picked + ints
    obs = fx.replay('c14', 'execute', picked, procs=fx.NPROC, chunksize=max(4, min(64, len(picked) // (fx.NPROC * 6))))
    t2 = time.time()
    stats: dict = {}
    accepted = 0
    for c, ob in zip(picked, obs):
        if ob['id'] != c['id']:
            raise fx.MachineryError('replay results out of order')
        before = len(verd.violations) + sum(verd.known_hits.values())
        judge(c, ob, verd, stats)
        accepted += before == len(verd.violations) + sum(verd.known_hits.values())
    rc = verd.finish()
    spec = {
        'strings': len(strings),
        'cases': len(cases),
        'algorithm_returns': len({tuple(c['sub']) for c in cases if c['tok']}),
        'of_which_repeated_letter_class_O10': len({tuple(c['sub']) for c in cases if c['tok'] and c['dev']}),
        'valid_einsum_cases': sum(c['valid'] for c in cases),
        'cases_with_exact_matrix': sum(c['hasden'] for c in cases),
    }
    nontriv = fx.nontrivial_count(picked, lambda c: c['valid'])
    samples = [{k: v for k, v in c.items() if k not in ('den',)} | {'sub': sub_of(c), 'tsub': ''.join(c['tsub'])}
               for c in ([c for c in picked if c['tok']][:2] + [c for c in picked if not c['tok'] and c['valid']][:1])]
    fx.write_evidence(PROP, tier, seed, {
        'states': gen.distinct, 'transitions': gen.generated,
        'traces_validated_against_impl': accepted,
        'evaluations': len(picked), 'distinct_nontrivial': nontriv,
        'rule': 'cases = every terminal state of MC_Dense: subscript string (blocks <= 3 tokens, leaf/out <= 2 tokens over '
                'i,j,k,h and one ellipsis per operand; quick: ellipsis last only) x letter sizes (pairwise different / '
                'all 2) x ellipsis rank of the blocks x pytree mode, plus 12 longer strings (from the docstrings, and with two batch items in equal / different order); replayed '
                '= all (thorough) or every stratum of (operand lengths, letters, repetition, ellipsis placement, '
                'predicted outcome, sizes) (quick); non-trivial = the string is a valid einsum on the shapes, so the '
                'operator exists and its transpose is judged; distinct by canonical JSON of the case',
        'exhaustive': tier != 'quick',
        'spec': spec, 'replayed': len(picked), 'strata': strata, 'outcomes': dict(sorted(stats.items())),
        'timing_s': {'tlc': round(t1 - t0, 1), 'replay': round(t2 - t1, 1)},
        'samples': samples,
    }, [
        'reference einsum = jnp.einsum explicit mode on exact integers (labels absent from the output are summed, '
        'ellipsis = broadcast dimensions aligned right); bound to the real einsum by comparing mv with the matrix '
        'computed by TLC wherever one is carried by the case',
        'letter sizes 2,3,4,5 or all 2, ellipsis = one dimension of size 2 (or none for the blocks); float32, '
        'integer-valued, exact',
        'a transposition rejected at first use of op.T (einsum error) counts as rejected',
        'dense matrices of the real operators by mv on every basis vector of the flattened pytrees',
    ], time.time() - t0, len(verd.violations))
    return rc


def replay_file(path: str) -> int:
    doc = json.loads(open(path).read())
    case = doc['case'] if 'case' in doc else doc
    case = prepare(dict(case))
    case.pop('light', None)
    obs = fx.replay('c14', 'execute', [case], procs=1)
    verd = fx.Verdicts(PROP)
    stats: dict = {}
    judge(case, obs[0], verd, stats)
    ob = {k: (json.dumps(v) if isinstance(v, list) else v) for k, v in obs[0].items()}
    print(json.dumps({'case': label(case), 'predicted': {k: case[k] for k in ('ctor', 'valid', 'outs', 'tok', 'twhy', 'dev', 'adj')},
                      'predicted_transposed_subscripts': ''.join(case['tsub']),
                      'predicted_matrix': json.dumps(case['den']) if case['hasden'] else None,
                      'observed': ob, 'outcome': stats}, indent=1)[:8000])
    return verd.finish()
