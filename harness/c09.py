"""C09 - all Toeplitz evaluation methods compute the same banded product.

Stage 1: TLC checks MC_Toeplitz (FxToeplitz = reference + literal transcription of toeplitz.py) over every
         configuration of the bound: constructor verdict, dense / direct / fft as functions, overlap_save as a
         loop (one action per block) with its loop invariants, as_matrix, symmetry; every configuration is emitted
         as a case with the exact expected outputs on the bilinear basis and on two integer probes.
Stage 2: every case (a stratified seeded sample in the quick tier) is executed on the real
         SymmetricBandToeplitzOperator in float32 / float64, 64-bit mode off / on, and compared with the
         predictions carried by the case: constructor verdict, values, shape, dtype, as_matrix(), symmetric tag.
Stage 3: verdicts; violations are keyed by what failed (e.g. `overlap_save:f32:x64`), a few smallest cases per key.
"""
from __future__ import annotations

import json
import os
import time
from concurrent.futures import ThreadPoolExecutor

import fx

PROP = 'C09'

INVARIANTS = [
    'InQuantifier', 'MethodsAgree', 'SteppedIsLoop', 'CtorSound', 'CtorComplete',
    'CtorExact', 'FftSizeAdmissible', 'LoopLenY', 'NoClamp', 'BlocksTile', 'PrefixCorrect',
    'FinalSliceInRange', 'AsMatrixOK', 'RefSymmetric', 'ScatterDropsOnlyOutside', 'DtypeFlow', 'Emit',
]

MC_CFG = """SPECIFICATION Spec
CONSTANTS
  NMax = {nmax}
  KMax = {kmax}
  FMax = {fmax}
  ErrN = {{1, {nmax}}}
  Rank2 = {rank2}
""" + ''.join(f'INVARIANT {i}\n' for i in INVARIANTS) + 'CHECK_DEADLOCK FALSE\n'

BOUNDS = {
    'quick': dict(nmax=6, kmax=5, fmax=9, rank2='FALSE'),
    'thorough': dict(nmax=8, kmax=5, fmax=12, rank2='TRUE'),
}

RTOL_EPS = 64.0          # tolerance = RTOL_EPS * eps(dtype) * scale
PER_KEY = 3              # violations reported per key (the smallest cases)


# ----------------------------------------------------------------------------- worker side

def _size(shape) -> int:
    out = 1
    for s in shape:
        out *= s
    return out


def _exc(e: BaseException) -> dict:
    return {'type': type(e).__name__, 'msg': str(e)[:300]}


def execute(case: dict) -> dict:
    """Run one TLC case on the real operator for the dtypes listed in case['dts'] (the 64-bit mode is the
    one of this worker process).  Returns, per dtype, the constructor outcome and the list of failed checks."""
    import jax
    import jax.numpy as jnp
    import lineax as lx
    import numpy as np
    from furax.operators.toeplitz import SymmetricBandToeplitzOperator as Toeplitz

    import warnings

    warnings.filterwarnings('ignore', message='Explicitly requested dtype')   # float64 asked for in 32-bit mode
    x64 = bool(jax.config.jax_enable_x64)
    n, K, method, fft = case['n'], case['K'], case['method'], case['fft']
    xs, bs = tuple(case['xs']), tuple(case['bs'])
    kw = {'method': method}
    if fft != -1:
        kw['fft_size'] = fft
    out = {'id': case['id'], 'x64': x64, 'res': []}
    for dt in case['dts']:
        npdt = np.float32 if dt == 'f32' else np.float64
        mode = f"{dt}:{'x64' if x64 else 'x32'}"
        eps = float(np.finfo(np.float32 if (dt == 'f32' or not x64) else np.float64).eps)
        want_dtype = str(jnp.zeros(1, npdt).dtype) if (dt == 'f32' or x64) else 'float32'
        res = {'mode': mode, 'dt': dt, 'ctor': 'ok', 'ctor_exc': None, 'fft_size': None, 'fails': [],
               'nchecks': 0, 'napply': 0, 'maxerr': 0.0}
        out['res'].append(res)

        def fail(clause, what, **detail):
            res['fails'].append({'clause': clause, 'what': what, 'detail': detail})

        def arr(rows, shape, last):
            return np.asarray(rows, dtype=npdt).reshape(tuple(shape) + (last,))

        struct = jax.ShapeDtypeStruct(xs + (n,), npdt)
        probes = case['probes']
        band0 = arr(probes[-2]['b'], bs, K) if probes else np.ones(bs + (K,), npdt)
        # ---- constructor
        try:
            op = Toeplitz(jnp.asarray(band0), struct, **kw)
        except Exception as e:  # any exception class = rejected
            res['ctor'], res['ctor_exc'] = 'Error', _exc(e)
            op = None
        res['nchecks'] += 1
        if res['ctor'] != case['ref']:
            fail('constructor', 'rejects_admissible' if case['ref'] == 'ok' else 'accepts_illegal',
                 exc=res['ctor_exc'])
        if op is None or case['ref'] != 'ok':
            continue
        res['fft_size'] = None if op.fft_size is None else int(op.fft_size)
        # ---- tags, structures, as_matrix
        try:
            res['nchecks'] += 4
            if lx.is_symmetric(op) is not True:
                fail('symmetric', 'is_symmetric_tag')
            if op.T is not op:
                fail('symmetric', 'transpose_is_not_self')
            if op.in_structure() != struct or op.out_structure() != struct:
                fail('structure', 'in_out_structure', got=str((op.in_structure(), op.out_structure())))
            mat = np.asarray(op.as_matrix())
            want = np.asarray(case['mat'], dtype=np.float64)
            if mat.shape != want.shape:
                fail('as_matrix', 'shape', got=list(mat.shape), want=list(want.shape))
            else:
                scale = max(1.0, float(np.max(np.abs(want))))
                err = float(np.max(np.abs(mat.astype(np.float64) - want))) if want.size else 0.0
                if not np.all(np.isfinite(mat)) or err > eps * scale:
                    fail('as_matrix', 'values', maxerr=err)
                if not np.allclose(mat, mat.T, rtol=0.0, atol=eps * scale):
                    fail('symmetric', 'as_matrix_not_symmetric')
        except Exception as e:
            fail('as_matrix', 'raises', exc=_exc(e))
        # ---- mv on the probes
        nbasis = len(probes) - 2
        jitted = None
        if method == 'overlap_save':
            # eager fori_loop recompiles at every call: the basis probes go through one jitted function that
            # builds the operator from the (traced) band values; the integer probes are applied eagerly
            jitted = jax.jit(lambda band, x: Toeplitz(band, struct, **kw)(x))
        dead = set()
        cur_band, cur_op = None, None
        for ip, pr in enumerate(probes):
            path = 'jit' if (jitted is not None and ip < nbasis) else 'eager'
            if path in dead:
                continue
            band = arr(pr['b'], bs, K)
            x = arr(pr['x'], xs, n)
            want = np.asarray(pr['y'], dtype=np.float64).reshape(xs + (n,))
            try:
                if path == 'jit':
                    y = jitted(band, x)
                else:
                    if cur_band is None or not np.array_equal(cur_band, band):
                        cur_op, cur_band = Toeplitz(jnp.asarray(band), struct, **kw), band
                    y = cur_op(jnp.asarray(x)) if ip % 2 == 0 else cur_op.mv(jnp.asarray(x))
                y = jax.block_until_ready(y)
            except Exception as e:
                fail('apply', 'raises', path=path, probe=ip, exc=_exc(e))
                dead.add(path)
                continue
            res['napply'] += 1
            res['nchecks'] += 3
            got = np.asarray(y)
            if tuple(got.shape) != tuple(x.shape):
                fail('shape', 'output_shape', path=path, probe=ip, got=list(got.shape), want=list(x.shape))
                continue
            if str(y.dtype) != want_dtype:
                fail('dtype', 'output_dtype', path=path, probe=ip, got=str(y.dtype), want=want_dtype)
            b2 = band.astype(np.float64).reshape(-1, K)
            knorm = np.sqrt(b2[:, 0] ** 2 + 2.0 * np.sum(b2[:, 1:] ** 2, axis=1)).max()
            xnorm = np.sqrt(np.sum(x.astype(np.float64).reshape(-1, n) ** 2, axis=1)).max()
            scale = max(1.0, float(knorm * xnorm))
            err = float(np.max(np.abs(got.astype(np.float64) - want))) if np.all(np.isfinite(got)) else float('inf')
            res['maxerr'] = max(res['maxerr'], err / scale / eps)
            if err > RTOL_EPS * eps * scale:
                fail('values', 'banded_product', path=path, probe=ip, maxerr=err, tol=RTOL_EPS * eps * scale,
                     got=got.tolist(), want=want.tolist())
    return out


# ----------------------------------------------------------------------------- judgment

def _fft_name(case) -> str:
    return 'default' if case['fft'] == -1 else str(case['fft'])


def judge(case: dict, result: dict) -> tuple[list[tuple[str, str, dict]], dict]:
    """-> (violations [(key, clause, detail)], stats) for one executed case."""
    viol = []
    stats = {'runs': 0, 'accepted': 0, 'drift': []}
    for res in result['res']:
        stats['runs'] += 1
        mode = res['mode']
        for f in res['fails']:
            clause, what = f['clause'], f['what']
            if clause == 'constructor' and what == 'rejects_admissible':
                # defect repaired by furax c737545 (number of bands taken from band_values.size): same key if it returns
                if _size(case['bs']) > 1 and case['method'] == 'overlap_save' \
                        and 2 * case['K'] - 1 <= case['fft'] < 2 * _size(case['bs']) * case['K'] - 1:
                    key = 'ctor:fft_size_rejected:batched_band'
                else:
                    key = f"ctor:rejects:{case['method']}:fft={_fft_name(case)}:bs={case['bs']}"
            elif clause == 'constructor':
                key = f"ctor:accepts:{case['method']}:fft={_fft_name(case)}:bs={case['bs']}"
            elif clause == 'apply':
                exc = f['detail']['exc']['type']
                if exc == 'TypeError' and case['method'] == 'overlap_save' and mode == 'f32:x64':
                    # defect repaired by furax 9d095d9 (default-dtype buffer): same key if it returns
                    key = f"{case['method']}:{mode}"
                else:
                    key = f"apply_raises:{case['method']}:{mode}:{exc}"
            else:
                key = f"{clause}:{what}:{case['method']}:{mode}"
            viol.append((key, clause, {'mode': mode, **f}))
        if not res['fails']:
            stats['accepted'] += 1
        if res['ctor'] == 'ok' and case['impl'] == 'ok' and res['fft_size'] is not None \
                and res['fft_size'] != case['F']:
            stats['drift'].append({'id': case['id'], 'fft_size_real': res['fft_size'], 'fft_size_spec': case['F']})
    return viol, stats


def _weight(case: dict):
    return (case['n'] * case['K'] * _size(case['xs']), case['n'], case['K'], case['fft'], len(case['bs']))


def _slim(case: dict, mode: str) -> dict:
    c = {k: v for k, v in case.items() if k != 'dts'}
    c['mode'] = mode
    return c


# ----------------------------------------------------------------------------- run

def generate(tier: str) -> fx.TlcResult:
    res = fx.run_tlc('MC_Toeplitz', MC_CFG.format(**BOUNDS[tier]), workers=6, tag=tier)
    if res.violated:
        raise fx.MachineryError(f'FxToeplitz violates {res.violated} at design level:\n' + res.stdout[-3000:])
    return res


def _stratum(c: dict) -> str:
    if c['ref'] != 'ok':
        return 'reject'
    fcls = 'default' if c['fft'] == -1 else ('min' if c['fft'] == 2 * c['K'] - 1 else 'mid')
    if c['method'] != 'overlap_save':
        fcls = ''
    rel = 'K>=n+2,n>=3' if (c['K'] >= c['n'] + 2 and c['n'] >= 3) else ('K>n' if c['K'] > c['n'] else 'K<=n')
    return f"{c['method']}/{c['xs']}{c['bs']}/K{c['K']}/{fcls}/{rel}"


def _order(c: dict):
    return (c['method'], str(c['xs']), str(c['bs']), c['n'], c['K'], c['fft'])


def _replay_all(cases32: list, cases64: list, procs: int) -> list:
    """The two 64-bit modes need different worker processes: both pools run concurrently."""
    def go(args):
        cases, x64 = args
        return fx.replay('c09', 'execute', cases, x64=x64, procs=procs,
                         chunksize=max(1, min(8, len(cases) // (procs * 4) or 1)))

    with ThreadPoolExecutor(max_workers=2) as pool:
        r32, r64 = list(pool.map(go, [(cases32, False), (cases64, True)]))
    return r32 + r64


def run(tier: str, seed: int) -> int:
    t0 = time.time()
    verd = fx.Verdicts(PROP)
    gen = generate(tier)
    t1 = time.time()
    cases = gen.cases
    for c in cases:
        c['id'] = fx.case_id({k: c[k] for k in ('n', 'K', 'method', 'fft', 'xs', 'bs')})
    emitted = len(cases)
    rejects = [c for c in cases if c['ref'] != 'ok']
    accepts = [c for c in cases if c['ref'] == 'ok']
    if tier == 'quick':
        picked, strata = fx.stratified_sample(accepts, _stratum, 1, seed)
        # overlap_save is the method with a loop: its block arithmetic depends on how n relates to the step, so every
        # unbatched configuration (all n, K, fft sizes) is replayed, not one per stratum
        ids = {c['id'] for c in picked}
        picked += [c for c in accepts if c['method'] == 'overlap_save' and c['xs'] == [c['n']] and c['id'] not in ids]
        picked += rejects
        sampled = True
    else:
        picked, strata, sampled = list(cases), None, False
    # float64 requested in 32-bit mode (numpy's default dtype): a small stratified sample in both tiers
    f64req, _ = fx.stratified_sample(accepts, lambda c: f"{c['method']}/{c['xs']}{c['bs']}", 1, seed + 1)
    picked.sort(key=_order)
    by_id = {c['id']: c for c in cases}
    cases32 = [dict(c, dts=['f32']) for c in picked] + [dict(c, dts=['f64']) for c in sorted(f64req, key=_order)]
    cases64 = [dict(c, dts=['f32', 'f64']) for c in picked]
    procs = max(1, int(os.environ.get('VERIF_PROCS') or fx.NPROC) // 2)
    results = _replay_all(cases32, cases64, procs)
    t2 = time.time()
    # ---- verdicts
    per_key: dict[str, list] = {}
    runs = accepted = napply = nchecks = 0
    drift = []
    maxerr = 0.0
    for r in results:
        case = by_id[r['id']]
        viol, st = judge(case, r)
        runs += st['runs']
        accepted += st['accepted']
        drift += st['drift']
        for res in r['res']:
            napply += res['napply']
            nchecks += res['nchecks']
            maxerr = max(maxerr, res['maxerr'])
        seen = set()
        for key, clause, detail in viol:
            if (key, detail['mode']) in seen:
                continue
            seen.add((key, detail['mode']))
            per_key.setdefault(key, []).append((case, clause, detail))
    key_counts = {k: len(v) for k, v in per_key.items()}
    for key in sorted(per_key):
        hits = sorted(per_key[key], key=lambda h: _weight(h[0]))
        for case, clause, detail in hits[:PER_KEY]:
            verd.report(key, clause, _slim(case, detail['mode']),
                        dict(detail, cases_with_this_key=key_counts[key]))
    rc = verd.finish()
    replayed_ids = {c['id'] for c in picked}
    nontrivial = fx.nontrivial_count(
        [{k: c[k] for k in ('n', 'K', 'method', 'fft', 'xs', 'bs')} for c in picked],
        lambda c: c['K'] >= 2 and c['n'] >= 2 and c['method'] in ('dense', 'direct', 'fft', 'overlap_save'))
    spec_dtype_defects = sum(1 for c in accepts for k, v in c['dt'].items() if v != k[:3])
    spec_ctor_overreject = sum(1 for c in accepts if c['impl'] != 'ok')
    osc = [c for c in picked if c['ref'] == 'ok' and c['method'] == 'overlap_save']
    sample = max(osc, key=lambda c: (c['impl'] == 'ok', min(c['nblock'], 3), min(c['n'], 4), min(c['K'], 3), -len(c['xs'])))
    fx.write_evidence(PROP, tier, seed, {
        'states': gen.distinct, 'transitions': gen.generated,
        'traces_validated_against_impl': accepted,
        'evaluations': runs, 'distinct_nontrivial': nontrivial,
        'rule': 'cases = every configuration (n, K, method, fft_size incl. default, input batch, band batch) of the '
                'bound, enumerated and checked by TLC, plus the configurations the constructor must reject; each '
                'replayed case is executed once per (dtype, 64-bit mode) = evaluations; replayed = all (thorough) or '
                'one per stratum method x batch shapes x K x fft class (default / 2K-1 / other) x (K>n) (quick) '
                '+ every rejection case; '
                'non-trivial = accepted configuration with n >= 2 and K >= 2, distinct by configuration',
        'exhaustive': not sampled,
        'bounds': BOUNDS[tier], 'emitted_cases': emitted, 'replayed_cases': len(replayed_ids),
        'rejection_cases': len(rejects), 'strata': None if strata is None else len(strata),
        'operator_applications': napply, 'checks': nchecks,
        'max_error_in_eps_units_of_scale': round(maxerr, 3), 'tolerance_in_eps_units': RTOL_EPS,
        'violation_keys': key_counts,
        'design_level': {
            'invariants': INVARIANTS, 'distinct_states': gen.distinct, 'depth': gen.depth,
            'transcribed_dtype_flow_differs_from_input_dtype_in_(config,mode)s': spec_dtype_defects,
            'transcribed_constructor_rejects_admissible_configs': spec_ctor_overreject,
        },
        'default_fft_size_drift': drift[:10],
        'timing_s': {'tlc': round(t1 - t0, 1), 'replay': round(t2 - t1, 1)},
        'samples': [
            {k: sample[k] for k in ('n', 'K', 'method', 'fft', 'F', 'nblock', 'xs', 'bs', 'ref', 'impl')}
            | {'probe': sample['probes'][-2]},
            {k: rejects[0][k] for k in ('n', 'K', 'method', 'fft', 'xs', 'bs', 'ref', 'impl', 'why')},
        ],
    }, [
        'exact integer arithmetic in the specification: an FFT product is the cyclic convolution it computes; '
        f'rounding of the real FFTs is only bounded by the tolerance {RTOL_EPS:g} * eps * |kernel|_2 * |x|_2',
        'band values broadcast to the input shape (band batch () / (1,) / (2,) / (2,1) against input batch () / '
        '(2,) / (2,3)); a band batch that would enlarge the input is outside the property',
        'band values and input have the same dtype; float64 requested in 32-bit mode is only sampled',
        'overlap_save basis probes run under jax.jit (operator built inside the jitted function), integer probes '
        'and all other methods eagerly',
    ], time.time() - t0, len(verd.violations))
    return rc


def replay_file(path: str) -> int:
    """./check C09 --replay FILE : re-execute the recorded configuration in the recorded mode."""
    doc = json.loads(open(path).read())
    case = doc['case'] if 'case' in doc else doc
    mode = case.get('mode', 'f32:x32')
    dt, xm = mode.split(':')
    case = dict(case, dts=[dt])
    case.setdefault('id', 'replay')
    results = fx.replay('c09', 'execute', [case], x64=(xm == 'x64'), procs=1)
    viol, _ = judge(case, results[0])
    print(json.dumps({'result': results[0], 'violations': [(k, c) for k, c, _ in viol]}, indent=1)[:6000])
    if viol:
        print(f'VIOLATION property={PROP} replay={path}')
        return 1
    return 0
