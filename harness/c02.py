"""C02 - operator arithmetic is matrix arithmetic, whatever the grouping.

Stage 1: MC_Arith.tla (sessions of at most two dunder calls over every operand kind; dunder-built term vs
ghost matrix arithmetic; associativity over all triples).  Stage 2: the same Python expressions on the real
operators (a @ b, a + b, a - b, -a, +a, k * a, a * k, a / k with python / NumPy / JAX scalars).  Stage 3:
raised <=> the ghost says refused; dense matrix = ghost matrix; structures."""
from __future__ import annotations

import json
import random
import time

import fx
from redcheck import tla_set

PROP = 'C02'
OPERANDS = ['A', 'B', 'G', 'P', 'Tz', 'D', 'AcB', 'GcA', 'ApB', 'I2v', 'I3v', 'H2', 'H3', 'AI', 'DI', 'R1', 'R1T', 'Hq']
THIRDS_Q = ['A', 'AcB', 'ApB', 'I2v', 'H2', 'AI', 'G', 'Tz']
THIRDS_T = THIRDS_Q + ['B', 'D', 'DI', 'I3v', 'H3', 'P']

CFG = """INIT Init
NEXT Next
CONSTANTS
  Operands = {operands}
  Thirds = {thirds}
  Ops1 = {{"matmul","add","sub","neg","pos","lmul","rmul","div"}}
  Ops2 = {ops2}
INVARIANT Meaning
INVARIANT Structures
INVARIANT Emit
CHECK_DEADLOCK FALSE
"""


def generate(tier: str) -> fx.TlcResult:
    thirds = THIRDS_Q if tier == 'quick' else THIRDS_T
    ops2 = '{"matmul","add","neg","lmul"}' if tier == 'quick' else '{"matmul","add","sub","neg","lmul","div"}'
    res = fx.run_tlc('MC_Arith', CFG.format(operands=tla_set(OPERANDS), thirds=tla_set(thirds), ops2=ops2), workers=6)
    if res.violated:
        raise fx.MachineryError(f'MC_Arith violates {res.violated}:\n' + res.stdout[-3000:])
    return res


def _scalar(n: int, d: int, kind: str):
    import jax.numpy as jnp
    import numpy as np

    v = n / d
    if kind == 'int':
        return int(n) if d == 1 else v
    if kind == 'float':
        return float(v)
    if kind == 'np':
        return np.float32(v)
    if kind == 'jax0d':
        return jnp.asarray(v, dtype=jnp.float32)
    if kind == 'vec':
        return jnp.asarray([v, v], dtype=jnp.float32)
    raise ValueError(kind)


def _apply(op, a, b):
    if op == 'matmul':
        return a @ b
    if op == 'add':
        return a + b
    if op == 'sub':
        return a - b
    if op == 'neg':
        return -a
    if op == 'pos':
        return +a
    if op == 'lmul':
        return b * a
    if op == 'rmul':
        return a * b
    if op == 'div':
        return a / b
    raise ValueError(op)


def execute(case: dict) -> dict:
    import numpy as np
    import terms

    b = terms.Builder()
    objs = {name: b.build(t) for name, t in case['operands'].items()}
    e = case['expr']
    out = {'id': case['id'], 'raised': None}
    try:
        op = e[0]
        if op in ('matmul', 'add', 'sub'):
            r = _apply(op, objs[e[1]], objs[e[2]])
            rest = e[3:]
        else:
            r = _apply(op, objs[e[1]], _scalar(int(e[2]), int(e[3]), e[4]))
            rest = e[5:]
        if rest:
            op = rest[0]
            if op in ('matmul', 'add', 'sub'):
                z = objs[rest[1]]
                r = _apply(op, r, z) if rest[2] == 'L' else _apply(op, z, r)
            else:
                r = _apply(op, r, _scalar(int(rest[1]), int(rest[2]), rest[3]))
    except Exception as exc:
        out['raised'] = f'{type(exc).__name__}: {str(exc)[:160]}'
        return out
    out['type'] = type(r).__name__
    try:
        M = terms.dense_of(r)
        want = terms.mat_to_float(case['den'])
        if case['err']:
            out['dense_shape'] = list(M.shape)
        else:
            from redcheck import _close
            out['ok'], out['err'] = _close(M, want, 3e-4)
            out['sizes_ok'] = (int(r.out_size()), int(r.in_size())) == (want.shape[0], want.shape[1])
    except Exception as exc:
        out['apply_raised'] = f'{type(exc).__name__}: {str(exc)[:160]}'
    return out


def judge(cases, results, verd, mode):
    by_id = {c['id']: c for c in cases}
    acc = 0
    for r in results:
        c = by_id[r['id']]
        label = f"{mode}:" + ' '.join(c['expr'])
        if c['err']:
            if r['raised'] is None:
                verd.report(f'accepted_incompatible:{label}', 'incompatible_operands_accepted', c, r)
            else:
                acc += 1
            continue
        if r['raised'] is not None:
            verd.report(f'raised:{label}', 'valid_expression_raised', c, r)
        elif 'apply_raised' in r:
            verd.report(f'apply_raised:{label}', 'result_cannot_be_applied', c, r)
        elif not r.get('ok', True):
            verd.report(f'matrix:{label}', 'matrix', c, r)
        elif not r.get('sizes_ok', True):
            verd.report(f'sizes:{label}', 'structures', c, r)
        else:
            acc += 1
    return acc


def run(tier: str, seed: int) -> int:
    t0 = time.time()
    verd = fx.Verdicts(PROP)
    gen = generate(tier)
    cases = gen.cases
    for c in cases:
        c['id'] = fx.case_id({'e': c['expr']})
    rng = random.Random(seed)
    if tier == 'quick':
        one = [c for c in cases if len(c['expr']) <= 5 and (len(c['expr']) == 3 or c['expr'][0] in ('neg', 'pos', 'lmul', 'rmul', 'div'))]
        ids = {c['id'] for c in one}
        two = [c for c in cases if c['id'] not in ids]
        pick2, strata = fx.stratified_sample(two, lambda c: (c['expr'][0], c['expr'][-3] if len(c['expr']) > 5 else '', c['err']), 60, seed)
        if len(pick2) > 1500:
            pick2 = rng.sample(pick2, 1500)
        picked = one + pick2
    else:
        picked = cases
    picked.sort(key=lambda c: c['expr'][1])
    acc = 0
    n = 0
    for x64 in (False, True):
        sub = picked if (tier != 'quick' or not x64) else picked[::4]
        res = fx.replay('c02', 'execute', sub, x64=x64, procs=fx.NPROC, chunksize=max(4, len(sub) // 48))
        acc += judge(sub, res, verd, 'x64' if x64 else 'x32')
        n += len(res)
    rc = verd.finish()
    fx.write_evidence(PROP, tier, seed, {
        'states': gen.distinct, 'transitions': gen.generated, 'traces_validated_against_impl': acc,
        'evaluations': n,
        'distinct_nontrivial': fx.nontrivial_count(picked, lambda c: not c['err']),
        'rule': 'sessions = one or two dunder calls (@, +, -, unary -, +, k*, *k, /k) over 18 operands of every kind '
                '(plain, composition, sum, identity, scalar operator, lazy inverse next to its operand, incompatible '
                'structures) and 5 scalar kinds; all one-call sessions replayed, two-call sessions all (thorough) or '
                'stratified by operations and refusal (quick); non-trivial = the expression is accepted; x64 off and on',
        'exhaustive': len(picked) == len(cases), 'emitted_sessions': len(cases), 'replayed': len(picked),
        'samples': [picked[0]['expr'], picked[len(picked) // 2]['expr'], picked[-1]['expr']],
    }, ['singular operands of lazy inverses excluded; NumPy ndarray left factors are handled by NumPy itself',
        'associativity is checked by TLC on all triples (ASSUME) and on the replayed two-call sessions of both groupings'],
        time.time() - t0, len(verd.violations))
    return rc


def replay_file(path: str) -> int:
    doc = json.loads(open(path).read())
    case = doc['case'] if 'case' in doc else doc
    verd = fx.Verdicts(PROP)
    for x64 in (False, True):
        res = fx.replay('c02', 'execute', [case], x64=x64, procs=1)
        judge([case], res, verd, 'x64' if x64 else 'x32')
        print(json.dumps(res[0], indent=1))
    return verd.finish()
