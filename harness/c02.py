"""C02 - operator arithmetic is matrix arithmetic, whatever the grouping.

Stage 1: MC_Arith.tla (sessions of at most two dunder calls over every operand kind; dunder-built term vs
ghost matrix arithmetic; associativity over all triples).  Stage 2: the same Python expressions on the real
operators (a @ b, a + b, a - b, -a, +a, k * a, a * k, a / k with python / NumPy / JAX scalars).  Stage 3:
raised <=> the ghost says refused; dense matrix = ghost matrix; structures."""
from __future__ import annotations

import json
import random
import time

import fx
from redcheck import tla_set

PROP = 'C02'
OPERANDS = ['A', 'B', 'G', 'P', 'Tz', 'D', 'AcB', 'GcA', 'ApB', 'I2v', 'I3v', 'H2', 'H3', 'AI', 'DI', 'R1', 'R1T', 'Hq', 'Pr', 'PrT', 'Bd', 'BdT', 'HHA']
# operands whose parameters are integers (they can be built on int32 data)
INT_OK = {'A', 'B', 'G', 'P', 'D', 'AcB', 'GcA', 'ApB', 'I2v', 'I3v', 'H2', 'H3'}
THIRDS_Q = ['A', 'AcB', 'ApB', 'I2v', 'H2', 'AI', 'G', 'Tz']
THIRDS_T = THIRDS_Q + ['B', 'D', 'DI', 'I3v', 'H3', 'P']

CFG = """INIT Init
NEXT Next
CONSTANTS
  Operands = {operands}
  Thirds = {thirds}
  Ops1 = {{"matmul","add","sub","neg","pos","lmul","rmul","div"}}
  Ops2 = {ops2}
INVARIANT Meaning
INVARIANT Structures
INVARIANT Emit
CHECK_DEADLOCK FALSE
"""


def generate(tier: str) -> fx.TlcResult:
    thirds = THIRDS_Q if tier == 'quick' else THIRDS_T
    ops2 = '{"matmul","add","neg","lmul"}' if tier == 'quick' else '{"matmul","add","sub","neg","lmul","div"}'
    res = fx.run_tlc('MC_Arith', CFG.format(operands=tla_set(OPERANDS), thirds=tla_set(thirds), ops2=ops2), workers=6)
    if res.violated:
        raise fx.MachineryError(f'MC_Arith violates {res.violated}:\n' + res.stdout[-3000:])
    return res


SESSION_CFG = """INIT Init
NEXT Next
CONSTANTS
  Operands = {operands}
  MaxAtoms = {atoms}
  MaxOps = {ops}
INVARIANT HeapMeaning
INVARIANT HeapSizes
INVARIANT HeapAsMatrix
INVARIANT InversesInvert
INVARIANT ReducedNormal
INVARIANT Emit
CHECK_DEADLOCK FALSE
"""
SESSION_OPERANDS_Q = ['A', 'D', 'DI', 'AI', 'H2', 'I2v', 'G', 'R1']
SESSION_OPERANDS_T = ['A', 'B', 'D', 'DI', 'AI', 'H2', 'I2v', 'G', 'GT', 'R1', 'R1T', 'Hw', 'Pr', 'PrT', 'Tz']


def generate_sessions(tier: str) -> fx.TlcResult:
    """MC_Session.tla: histories of API calls (arithmetic, .T, .I, reduce()) on a heap of operators."""
    if tier == 'quick':
        cfg = SESSION_CFG.format(operands=tla_set(SESSION_OPERANDS_Q), atoms=2, ops=2)
    else:
        cfg = SESSION_CFG.format(operands=tla_set(SESSION_OPERANDS_T), atoms=2, ops=2)     # three derived objects: > 3e6 states
    res = fx.run_tlc('MC_Session', cfg, workers=6)
    if res.violated:
        raise fx.MachineryError(f'MC_Session violates {res.violated}:\n' + res.stdout[-3000:])
    return res


def execute_session(case: dict) -> dict:
    import terms
    from redcheck import _close

    b = terms.Builder()
    out = {'id': case['id'], 'raised': None}
    heap = []
    atoms = iter(case['atoms'])
    last_raised = None
    for e in case['hist']:
        op = e['op']
        try:
            if op == 'new':
                heap.append(b.build(next(atoms)))
                continue
            a = heap[e['i'] - 1]
            if op in ('matmul', 'add', 'sub'):
                r = _apply(op, a, heap[e['j'] - 1])
            elif op == 'neg':
                r = -a
            elif op == 'scale':
                r = -1.5 * a
            elif op == 'T':
                r = a.T
            elif op == 'I':
                r = a.I
            elif op == 'reduce':
                r = a.reduce()
            else:
                raise ValueError(op)
            heap.append(r)
        except Exception as exc:
            heap.append(None)
            last_raised = f'{type(exc).__name__}: {str(exc)[:160]}'
    r = heap[-1]
    if r is None:
        out['raised'] = last_raised
        return out
    out['type'] = type(r).__name__
    try:
        M = terms.dense_of(r)
        want = terms.mat_to_float(case['den'])
        if not case['err']:
            tol = 3e-4 if not any(e['op'] == 'I' for e in case['hist']) else 2e-3
            out['ok'], out['err'] = _close(M, want, tol)
            out['sizes_ok'] = (int(r.out_size()), int(r.in_size())) == (want.shape[0], want.shape[1])
            import numpy as np
            am_ok, _ = _close(np.asarray(r.as_matrix(), dtype=np.float64), want, tol)
            if not am_ok:
                out['ok'] = False
                out['as_matrix_differs'] = True
        # every earlier object must still denote its own meaning: operations never mutate their operands
        for k, obj in enumerate(heap[:-1]):
            if obj is None or case['errs'][k]:
                continue
            okk, _ = _close(terms.dense_of(obj), terms.mat_to_float(case['dens'][k]), 2e-3)
            if not okk:
                out['ok'] = False
                out['mutated_object'] = k + 1
                break
    except Exception as exc:
        out['apply_raised'] = f'{type(exc).__name__}: {str(exc)[:160]}'
    return out


def _scalar(n: int, d: int, kind: str):
    import jax.numpy as jnp
    import numpy as np

    v = n / d
    if kind == 'int':
        return int(n) if d == 1 else v
    if kind == 'float':
        return float(v)
    if kind == 'np':
        return np.float32(v)
    if kind == 'jax0d':
        return jnp.asarray(v, dtype=jnp.float32)
    if kind == 'vec':
        return jnp.asarray([v, v], dtype=jnp.float32)
    raise ValueError(kind)


def _apply(op, a, b):
    if op == 'matmul':
        return a @ b
    if op == 'add':
        return a + b
    if op == 'sub':
        return a - b
    if op == 'neg':
        return -a
    if op == 'pos':
        return +a
    if op == 'lmul':
        return b * a
    if op == 'rmul':
        return a * b
    if op == 'div':
        return a / b
    raise ValueError(op)


def execute(case: dict) -> dict:
    import numpy as np
    import terms

    b = terms.Builder()
    operands = case['operands']
    if case.get('dt'):
        # the same session on integer data: every parameter of the operands involved is an integer, the scalar
        # factor is not - k * A, A * k and A / k must still be the exact scalar multiples
        from termcheck import _retype
        operands = {name: _retype(t, case['dt']) for name, t in operands.items() if name in INT_OK}
    objs = {name: b.build(t) for name, t in operands.items()}
    e = case['expr']
    out = {'id': case['id'], 'raised': None}
    try:
        op = e[0]
        if op in ('matmul', 'add', 'sub'):
            r = _apply(op, objs[e[1]], objs[e[2]])
            rest = e[3:]
        else:
            r = _apply(op, objs[e[1]], _scalar(int(e[2]), int(e[3]), e[4]))
            rest = e[5:]
        if rest:
            op = rest[0]
            if op in ('matmul', 'add', 'sub'):
                z = objs[rest[1]]
                r = _apply(op, r, z) if rest[2] == 'L' else _apply(op, z, r)
            else:
                r = _apply(op, r, _scalar(int(rest[1]), int(rest[2]), rest[3]))
    except Exception as exc:
        out['raised'] = f'{type(exc).__name__}: {str(exc)[:160]}'
        return out
    out['type'] = type(r).__name__
    try:
        M = terms.dense_of(r)
        want = terms.mat_to_float(case['den'])
        if case['err']:
            out['dense_shape'] = list(M.shape)
        else:
            from redcheck import _close
            out['ok'], out['err'] = _close(M, want, 3e-4)
            out['sizes_ok'] = (int(r.out_size()), int(r.in_size())) == (want.shape[0], want.shape[1])
    except Exception as exc:
        out['apply_raised'] = f'{type(exc).__name__}: {str(exc)[:160]}'
    return out


def judge(cases, results, verd, mode):
    by_id = {c['id']: c for c in cases}
    acc = 0
    for r in results:
        c = by_id[r['id']]
        label = f"{mode}:" + (' '.join(c['expr']) if 'expr' in c else
                              'session ' + ' '.join(f"{e['op']}({e['n'] or e['i']}{',' + str(e['j']) if e['j'] else ''})" for e in c['hist']))
        if c['err']:
            if r['raised'] is None:
                verd.report(f'accepted_incompatible:{label}', 'incompatible_operands_accepted', c, r)
            else:
                acc += 1
            continue
        if r['raised'] is not None:
            verd.report(f'raised:{label}', 'valid_expression_raised', c, r)
        elif 'apply_raised' in r:
            verd.report(f'apply_raised:{label}', 'result_cannot_be_applied', c, r)
        elif not r.get('ok', True):
            clause = 'operand_mutated' if 'mutated_object' in r else 'matrix'
            verd.report(f'{clause}:{label}', clause, c, r)
        elif not r.get('sizes_ok', True):
            verd.report(f'sizes:{label}', 'structures', c, r)
        else:
            acc += 1
    return acc


def run(tier: str, seed: int) -> int:
    t0 = time.time()
    verd = fx.Verdicts(PROP)
    from concurrent.futures import ThreadPoolExecutor

    with ThreadPoolExecutor(max_workers=2) as pool:
        j1, j2 = pool.submit(generate, tier), pool.submit(generate_sessions, tier)
        gen, ses = j1.result(), j2.result()
    cases = gen.cases
    for c in cases:
        c['id'] = fx.case_id({'e': c['expr']})
    rng = random.Random(seed)
    if tier == 'quick':
        one = [c for c in cases if len(c['expr']) <= 5 and (len(c['expr']) == 3 or c['expr'][0] in ('neg', 'pos', 'lmul', 'rmul', 'div'))]
        ids = {c['id'] for c in one}
        two = [c for c in cases if c['id'] not in ids]
        pick2, strata = fx.stratified_sample(two, lambda c: (c['expr'][0], c['expr'][-3] if len(c['expr']) > 5 else '', c['err']), 60, seed)
        if len(pick2) > 1500:
            pick2 = rng.sample(pick2, 1500)
        # two-call sessions in which the third operand is a view (inverse / transpose) of one of the first two, or the
        # other way round: the construction-time shortcuts look at exactly these neighbours, in either grouping
        views = {('A', 'AI'), ('D', 'DI'), ('R1', 'R1T'), ('Pr', 'PrT'), ('Bd', 'BdT')}
        views |= {(b, a) for a, b in views}
        have = {c['id'] for c in pick2}
        rel = [c for c in two if c['id'] not in have and len(c['expr']) == 6
               and any((c['expr'][i], c['expr'][4]) in views for i in (1, 2))]
        picked = one + pick2 + rel
    else:
        picked = cases
    picked.sort(key=lambda c: c['expr'][1])
    sessions = ses.cases
    for c in sessions:
        c['id'] = fx.case_id({'h': c['hist']})
    if tier == 'quick':
        spick, _ = fx.stratified_sample(sessions, lambda c: tuple(e['op'] for e in c['hist'] if e['op'] != 'new') + (c['err'],), 25, seed)
        if len(spick) > 1500:
            spick = rng.sample(spick, 1500)
    else:
        spick = sessions
    spick.sort(key=lambda c: [e['n'] for e in c['hist'] if e['op'] == 'new'])
    acc = 0
    n = 0
    sres = fx.replay('c02', 'execute_session', spick, x64=False, procs=fx.NPROC, chunksize=max(4, len(spick) // 48))
    acc += judge(spick, sres, verd, 'x32')
    n += len(sres)
    for x64 in (False, True):
        sub = picked if (tier != 'quick' or not x64) else picked[::4]
        res = fx.replay('c02', 'execute', sub, x64=x64, procs=fx.NPROC, chunksize=max(4, len(sub) // 48))
        acc += judge(sub, res, verd, 'x64' if x64 else 'x32')
        n += len(res)
    # one-call sessions over integer-parameter operands once more on int32 data (the scalar may be fractional)
    ints = [dict(c, dt='i32', id=c['id'] + '-i32') for c in cases
            if (len(c['expr']) == 3 or (len(c['expr']) == 5 and c['expr'][0] in ('neg', 'pos', 'lmul', 'rmul', 'div')))
            and all(nm in INT_OK for nm in c['expr'][1:(3 if len(c['expr']) == 3 else 2)])]
    ires = fx.replay('c02', 'execute', ints, x64=False, procs=fx.NPROC, chunksize=max(4, len(ints) // 48))
    acc += judge(ints, ires, verd, 'x32:i32')
    n += len(ires)
    rc = verd.finish()
    fx.write_evidence(PROP, tier, seed, {
        'states': gen.distinct + ses.distinct, 'transitions': gen.generated + ses.generated, 'traces_validated_against_impl': acc,
        'evaluations': n,
        'distinct_nontrivial': fx.nontrivial_count(picked, lambda c: not c['err']),
        'rule': 'sessions = one or two dunder calls (@, +, -, unary -, +, k*, *k, /k) over 18 operands of every kind '
                '(plain, composition, sum, identity, scalar operator, lazy inverse next to its operand, incompatible '
                'structures) and 5 scalar kinds; all one-call sessions replayed, two-call sessions all (thorough) or '
                'stratified by operations and refusal (quick); non-trivial = the expression is accepted; x64 off and on',
        'exhaustive': len(picked) == len(cases) and len(spick) == len(sessions), 'emitted_sessions': len(cases), 'replayed': len(picked),
        'heap_sessions': {'emitted': len(sessions), 'replayed': len(spick), 'distinct_states': ses.distinct,
                          'note': 'MC_Session.tla: histories of new / @ / + / - / neg / scale / .T / .I / reduce() on a heap'},
        'int32_data_sessions': len(ints),
        'samples': [picked[0]['expr'], picked[len(picked) // 2]['expr'], picked[-1]['expr']],
    }, ['singular operands of lazy inverses excluded; NumPy ndarray left factors are handled by NumPy itself',
        'associativity is checked by TLC on all triples (ASSUME) and on the replayed two-call sessions of both groupings'],
        time.time() - t0, len(verd.violations))
    return rc


def replay_file(path: str) -> int:
    doc = json.loads(open(path).read())
    case = doc['case'] if 'case' in doc else doc
    verd = fx.Verdicts(PROP)
    for x64 in (False, True):
        fn = 'execute_session' if 'hist' in case else 'execute'
        res = fx.replay('c02', fn, [case], x64=x64, procs=1)
        judge([case], res, verd, 'x64' if x64 else 'x32')
        print(json.dumps(res[0], indent=1))
    return verd.finish()
