"""Shared pipeline for the "every operator" properties: C03 (transpose), C04 (as_matrix / linearity),
C05 (structures), C06 (inverses), C08 (tags), C10 (blocks).

Stage 1: MC_Terms.tla enumerates the subjects (templates over the atoms of FxSigma, optionally
transposed / inverted), checks the matrix-level statements and emits each subject with the
specification's predictions.  Stage 2: every subject is built on the real library and the
observations of the requested groups are recorded.  Stage 3: verdicts (numeric against the exact
predictions; structures compared as projected terms)."""
from __future__ import annotations

import json
import random
import time

import fx
from redcheck import tla_set

NAMES = ['A', 'B', 'C', 'D', 'D0', 'Tz', 'D3', 'G', 'Pr', 'P', 'Pk', 'Pw', 'Mv', 'Mvi', 'Rs', 'Rv', 'Rn', 'Bd',
         'R1', 'R2', 'R3', 'Hw', 'Pl', 'R1i', 'Hwi', 'Pli', 'R1v', 'Hwv', 'Plv', 'AI', 'DI', 'D0I', 'D3I', 'TzI', 'GT',
         'CT', 'PrT', 'PT', 'PkT', 'MvT', 'RsT', 'RvT', 'BdT', 'R1T', 'R3T', 'R1iT', 'PlT', 'I2v', 'Iqu', 'Im',
         'H2', 'Hh', 'Hq', 'Hm', 'AB', 'Mc', 'McT', 'Mn',
         'Dl', 'DlI', 'Prl', 'PrlT', 'BDl', 'BRl', 'BCl', 'Il', 'Hl', 'Mp', 'Mq', 'Ma', 'Mb', 'Ob', 'ObT', 'Pp', 'PpT', 'Pn', 'BRt', 'BCt', 'Tn']
# products of two in the quick tier: one or two representatives per class and per space
PAIRS_QUICK = ['A', 'C', 'CT', 'D', 'D0', 'Tz', 'D3', 'G', 'GT', 'Pr', 'PrT', 'P', 'PT', 'Pk', 'PkT', 'Mv', 'MvT', 'Mvi', 'Rs', 'RsT', 'Rv', 'Rn', 'Bd',
               'R1', 'R3', 'R1T', 'Hw', 'Pl', 'R1i', 'Hwi', 'Pli', 'AI', 'DI', 'I2v', 'Iqu', 'H2', 'Hq', 'Mc', 'McT', 'Ma', 'Mb', 'Mp', 'Mq',
               'Dl', 'Prl', 'PrlT', 'DlI', 'BDl', 'BRl', 'BCl', 'Hl', 'Ob', 'Pp', 'Pn', 'BRt', 'BCt']
SOLO = ['Dq', 'DqI', 'Dh', 'Dw', 'DwI']       # extreme parameter values (tiny / huge diagonal entries): used alone only
POOL_QUICK = ['A', 'D', 'AI', 'DI', 'I2v', 'H2', 'G', 'GT', 'Pr', 'R1', 'R1T', 'Hw', 'Pl', 'Tz', 'D0']
POOL2_EXTRA = ['BCl', 'BCt', 'BRl', 'BRt']      # pytree-valued blocks over different containers: one- and two-slot templates only
POOL_THOROUGH = POOL_QUICK + ['B', 'C', 'PrT', 'P', 'R2', 'Mv', 'Rs', 'D3', 'Hh']

CFG = """INIT Init
NEXT Next
CONSTANTS
  Names = {names}
  PairNames = {pairs}
  Solo = {solo}
  Pool = {pool2}
  Pool3 = {pool}
  PoolBig = {{"A", "D", "G", "GT", "R1", "D0", "BCt"}}
  First = {first}
  Templates = {{{tpl}}}
INVARIANT TransposeIsAdjoint
INVARIANT AsMatrixFaithful
INVARIANT ShapesConsistent
INVARIANT TagsHold
INVARIANT InverseInverts
INVARIANT NonSquareRefused
INVARIANT BlocksAreBlockMatrices
INVARIANT Emit
INVARIANT EmitRefused
CHECK_DEADLOCK FALSE
"""


def generate(tier: str, templates=None) -> fx.TlcResult:
    pool = POOL_QUICK if tier == 'quick' else POOL_THOROUGH
    tpls = templates or [1, 2, 3, 4, 5, 6, 7, 8, 9, 10, 11]
    everything = sorted(set(NAMES) | set(SOLO) | set(pool) | set(POOL2_EXTRA))
    fifths = [pool[i::5] for i in range(5)]
    thirds = [pool[i::3] for i in range(3)]
    # shards: (templates, atoms allowed in the first slot); the three-slot templates are split over the first slot
    groups = [(g, f) for g, f in
              [([x for x in tpls if x in (1, 2, 3, 4, 5, 7)], everything), ([x for x in tpls if x == 6], everything),
               ([x for x in tpls if x == 10], everything), ([x for x in tpls if x == 11], everything)]
              + [([x for x in tpls if x == 8], f) for f in fifths] + [([x for x in tpls if x == 9], f) for f in thirds] if g]

    def cfg(i: int) -> str:
        return CFG.format(names=tla_set(NAMES), pairs=tla_set(PAIRS_QUICK if tier == 'quick' else NAMES), solo=tla_set(SOLO),
                          pool=tla_set(pool), pool2=tla_set(pool + POOL2_EXTRA), first=tla_set(groups[i][1]), tpl=', '.join(map(str, groups[i][0])))

    res = fx.run_tlc_sharded('MC_Terms', cfg, len(groups), workers=2, parallel=12, xmx='2g')
    if res.violated:
        raise fx.MachineryError(f'MC_Terms violates {res.violated}:\n' + res.stdout[-3000:])
    return res


# ----------------------------------------------------------------------------- worker side

LEAFWISE_KINDS = {'diag', 'diagq', 'dinv', 'index', 'T', 'hom', 'id', 'mvax', 'comp', 'add'}


def _retype_mixed(obj):
    """A mixed-dtype pytree: inside every list / tuple / dict structure the leaves at odd positions become float64
    (the same rule for the term, its expected input and output structures)."""
    if isinstance(obj, dict):
        if obj.get('k') in ('list', 'tuple', 'dict') and 'ch' in obj and 'keys' in obj and 'sh' in obj:
            ch = [(_retype(c, 'f64') if (i % 2 == 1 and c.get('k') == 'leaf') else _retype_mixed(c)) for i, c in enumerate(obj['ch'])]
            return dict(obj, ch=ch)
        return {k: _retype_mixed(v) for k, v in obj.items()}
    if isinstance(obj, list):
        return [_retype_mixed(v) for v in obj]
    return obj


def mixed_tree_ok(case) -> bool:
    """Subjects replayed on a pytree with float32 and float64 leaves: leaf-wise operators on a list of leaves and their
    products / sums (block operators combine leaves of different dtypes and are left out)."""
    def kinds(t):
        return {t.get('k')} | {k for c in t.get('ch', []) for k in kinds(c)}
    return (not case.get('refused') and case['ins'].get('k') == 'list' and case['outs'].get('k') == 'list'
            and kinds(case['term']) <= LEAFWISE_KINDS)


def _retype(obj, dt: str):
    """Uniformly replace the leaf dtype f32 by `dt` in a term / structure (JSON)."""
    if isinstance(obj, dict):
        return {k: (dt if (k == 'dt' and v == 'f32') else _retype(v, dt)) for k, v in obj.items()}
    if isinstance(obj, list):
        return [_retype(v, dt) for v in obj]
    return obj


# float-parameter classes whose declared output structure follows the promotion (the classes declared square -
# scalar, diagonal - keep the input dtype: parameters wider than the data are outside C05's quantifier)
FLOAT_PARAM_KINDS = {'dense', 'bdiagb'}
RELABEL_KINDS = {'index', 'pack', 'mvax', 'reshape', 'ravel', 'id'}


def _has_kind(term, kinds) -> bool:
    return term.get('k') in kinds or any(_has_kind(c, kinds) for c in term.get('ch', []))


def mixed_ok(case) -> bool:
    """Subjects replayed on int32 data with float32 parameters: an atom of a dtype-agnostic class alone, or such an
    atom applied after a relabelling operator (whose output keeps the integer dtype)."""
    if case.get('refused') or case['names'][3] != 'plain':
        return False
    term = case['term']
    if case['names'][0] == '1':
        return term['k'] in FLOAT_PARAM_KINDS | RELABEL_KINDS
    if case['names'][0] == '2' and term['k'] == 'comp' and len(term['ch']) == 2:
        return term['ch'][0]['k'] in FLOAT_PARAM_KINDS | RELABEL_KINDS and term['ch'][1]['k'] in RELABEL_KINDS
    return False


def _ones(struct, scale=1.0):
    import jax
    import jax.numpy as jnp

    return jax.tree.map(lambda l: jnp.full(l.shape, scale, l.dtype), struct)


def _rand_int_tree(struct, rng):
    import jax
    import jax.numpy as jnp
    import numpy as np

    leaves, treedef = jax.tree.flatten(struct)
    arrs = [jnp.asarray(rng.integers(-4, 5, size=l.shape).astype(np.float64), dtype=l.dtype) for l in leaves]
    return jax.tree.unflatten(treedef, arrs)


def _close(got, want, tol, rel=False):
    """rel=True: error relative to the magnitude of the expected (spec) matrix, however small;
    otherwise relative to max(1, magnitude) - for vectors computed from O(1) inputs."""
    import numpy as np

    got = np.asarray(got, dtype=np.float64)
    if got.shape != want.shape:
        return False, -1.0
    if got.size == 0:
        return True, 0.0
    if not np.all(np.isfinite(got)):
        return False, float('inf')
    scale = (float(np.max(np.abs(want))) or 1.0) if rel else max(1.0, float(np.max(np.abs(want))))
    err = float(np.max(np.abs(got - want)))
    return bool(err <= tol * scale), err


def _struct_of_value(y):
    import jax
    import terms

    return terms.project_struct(jax.tree.map(lambda a: jax.ShapeDtypeStruct(a.shape, a.dtype), y))


def execute(case: dict) -> dict:
    import jax
    import jax.numpy as jnp
    import lineax as lx
    import numpy as np
    import terms
    from furax import tree as ftree
    from furax._base.core import AbstractLinearOperator

    groups = case['groups']
    x64 = bool(jax.config.jax_enable_x64)
    dt = case.get('dt', 'f32')
    tol = 2e-4 if dt == 'f32' else 1e-9
    out = {'id': case['id'], 'obs': {}, 'x64': x64, 'dt': dt}
    o = out['obs']
    term = _retype(case['term'], dt) if dt not in ('f32', 'mix') else case['term']
    if dt == 'mix':
        term = _retype_mixed(case['term'])
    b = terms.Builder()
    mixed = dt == 'i32'
    if mixed:
        # integer data, floating-point parameters: the operator maps int32 leaves to float32 leaves (dtype promotion);
        # only the clauses that do not relate an operator to its transpose / inverse are judged in this mode
        b.float_params = True
        b.param_scale = 0.5           # non-integer parameter values: a cast to the data dtype would show
        tol = 2e-4
    if case.get('refused'):
        try:
            b.build(term)
            o['ctor_refused'] = False
        except Exception as exc:
            o['ctor_refused'] = True
            o['ctor_exc'] = type(exc).__name__
        return out
    try:
        op = b.build(term)
        if (case['names'][0] == '5' and case['names'][3] == 'plain' and term['k'] == 'comp' and len(term['ch']) == 2
                and term['ch'][0]['k'] == 'hom' and not mixed and (int(case['id'], 16) % 2 == 0 or 'S' in groups)):
            # k * x written by the user with a Python float (a weakly typed scalar): half of the scaled subjects are
            # built through the dunder, so that reduce() has weak scalars to merge and move
            hp = term['ch'][0]['p']
            op = (hp[0] / hp[1]) * b.build(term['ch'][1])
            out['weak_scalar'] = True
    except Exception as exc:
        out['build_exc'] = f'{type(exc).__name__}: {str(exc)[:300]}'
        return out
    want = terms.mat_to_float(case['den'])
    ins = _retype(case['ins'], dt) if dt != 'mix' else _retype_mixed(case['ins'])
    outs = _retype(case['outs'], dt) if dt != 'mix' else _retype_mixed(case['outs'])
    if mixed and _has_kind(case['term'], FLOAT_PARAM_KINDS):
        outs = _retype(case['outs'], 'f32')          # promote(int32 data, float32 parameters)
        want = want * 0.5                            # exactly one float-parameter factor (mixed_ok)
    rng = np.random.default_rng(int(case['id'], 16) % (2 ** 32))

    def guarded(name, fn):
        try:
            fn()
        except Exception as exc:
            o[name + '_exc'] = f'{type(exc).__name__}: {str(exc)[:300]}'

    M = None
    try:
        M = terms.dense_of(op)
        o['dense_ok'], o['dense_err'] = _close(M, want, tol, rel=True)
    except Exception as exc:
        o['dense_exc'] = f'{type(exc).__name__}: {str(exc)[:300]}'

    if 'S' in groups:
        def s_group():
            o['in_decl'] = terms.project_struct(op.in_structure()) == ins
            o['out_decl'] = terms.project_struct(op.out_structure()) == outs
            x = _ones(op.in_structure())
            y = op.mv(x)
            o['out_actual'] = _struct_of_value(y) == terms.project_struct(op.out_structure())
            o['out_actual_detail'] = [_struct_of_value(y), terms.project_struct(op.out_structure())] \
                if not o['out_actual'] else None
            o['eval_shape'] = terms.project_struct(jax.eval_shape(op.mv, op.in_structure())) == \
                terms.project_struct(op.out_structure())
            o['in_size'] = int(op.in_size()) == terms.struct_size(ins)
            o['out_size'] = int(op.out_size()) == terms.struct_size(outs)
            leaves_in = jax.tree.leaves(op.in_structure())
            leaves_out = jax.tree.leaves(op.out_structure())
            o['in_promoted'] = np.dtype(op.in_promoted_dtype) == np.dtype(jnp.result_type(*leaves_in))
            o['out_promoted'] = np.dtype(op.out_promoted_dtype) == np.dtype(jnp.result_type(*leaves_out))
            # derived operators report the structures implied by their parts
            if case.get('solverfree') and not mixed:
                t = op.T
                o['T_structs'] = (t.in_structure() == op.out_structure()) and (t.out_structure() == op.in_structure())
                yt = t.mv(_ones(t.in_structure()))
                o['T_out_actual'] = _struct_of_value(yt) == terms.project_struct(t.out_structure())
            r = op.reduce()
            o['reduce_structs'] = (r.in_structure() == op.in_structure()) and (r.out_structure() == op.out_structure())
            yr = r.mv(x)
            o['reduce_out_actual'] = _struct_of_value(yr) == terms.project_struct(r.out_structure())
        guarded('S', s_group)

    if 'M' in groups and M is not None:
        def m_group():
            am = np.asarray(op.as_matrix(), dtype=np.float64)
            o['as_matrix_ok'], o['as_matrix_err'] = _close(am, want, tol, rel=True)
            o['as_matrix_vs_basis'], _ = _close(am, M, tol)
            if case.get('generic'):
                gm = np.asarray(AbstractLinearOperator.as_matrix(op), dtype=np.float64)
                o['generic_ok'], o['generic_err'] = _close(gm, want, tol, rel=True)
            # linearity witnesses: integer combinations with mixed signs
            lin_ok = True
            for (a, c) in (((2, -3), (-1, 1), (3, 4)) if mixed else ((2.0, -3.0), (-1.0, 1.0), (0.5, 4.0))):
                x = _rand_int_tree(op.in_structure(), rng)
                y = _rand_int_tree(op.in_structure(), rng)
                lhs = op(jax.tree.map(lambda u, v: a * u + c * v, x, y))
                rhs = jax.tree.map(lambda u, v: a * u + c * v, op(x), op(y))
                ok, _ = _close(terms.flatten_value(lhs), terms.flatten_value(rhs), tol * 20)
                # op(x) = as_matrix @ flat(x)
                ok2, _ = _close(terms.flatten_value(op(x)), am @ terms.flatten_value(x), tol * 20)
                lin_ok = lin_ok and ok and ok2
            o['linear_ok'] = lin_ok
            zero = op(jax.tree.map(lambda l: jnp.zeros(l.shape, l.dtype), op.in_structure()))
            o['zero_ok'] = bool(np.all(terms.flatten_value(zero) == 0))
        guarded('M', m_group)

    if 'T' in groups and case.get('solverfree') and M is not None:
        def t_group():
            t = op.T
            o['T_is_self'] = t is op
            o['claims_symmetric'] = bool(lx.is_symmetric(op))
            Mt = terms.dense_of(t)
            o['T_ok'], o['T_err'] = _close(Mt, want.T, tol, rel=True)
            o['T_structs'] = (t.in_structure() == op.out_structure()) and (t.out_structure() == op.in_structure())
            tt = t.T
            o['TT_ok'], o['TT_err'] = _close(terms.dense_of(tt), want, tol, rel=True)
            o['TT_structs'] = (tt.in_structure() == op.in_structure()) and (tt.out_structure() == op.out_structure())
            if type(op).__name__ == 'DenseBlockDiagonalOperator' and not jax.tree.leaves(op.blocks)[0].dtype.kind == 'c':
                # the same einsum operator with complex blocks: the transpose is the plain transpose (no conjugation)
                cdt = jnp.complex128 if x64 else jnp.complex64
                blocks_c = jax.tree.map(lambda b: b.astype(cdt) * (1 + 2j), op.blocks)
                struct_c = jax.tree.map(lambda l: jax.ShapeDtypeStruct(l.shape, cdt), op.in_structure())
                opc = type(op)(blocks_c, struct_c, op.subscripts)

                def cdense(o):
                    cols = []
                    for xb in terms.basis_inputs(o.in_structure()):
                        cols.append(np.concatenate([np.asarray(l).ravel() for l in jax.tree.leaves(o.mv(xb))]))
                    return np.stack(cols, axis=1)

                Mc, Mct = cdense(opc), cdense(opc.T)
                o['complex_T_ok'] = bool(Mct.shape == Mc.T.shape and np.allclose(Mct, Mc.T, rtol=1e-5, atol=1e-5))
            x = _rand_int_tree(op.in_structure(), rng)
            y = _rand_int_tree(op.out_structure(), rng)
            lhs = float(ftree.dot(op(x), y))
            rhs = float(ftree.dot(x, t(y)))
            o['adjoint_ok'] = abs(lhs - rhs) <= tol * 50 * max(1.0, abs(lhs))
        guarded('T', t_group)

    if 'G' in groups and M is not None:
        def g_group():
            tags = {
                'sym': bool(lx.is_symmetric(op)), 'diag': bool(lx.is_diagonal(op)),
                'lower': bool(lx.is_lower_triangular(op)), 'upper': bool(lx.is_upper_triangular(op)),
                'tridiag': bool(lx.is_tridiagonal(op)), 'psd': bool(lx.is_positive_semidefinite(op)),
                'nsd': bool(lx.is_negative_semidefinite(op)),
            }
            o['tags'] = tags
            sq = M.shape[0] == M.shape[1]
            sym = sq and np.allclose(M, M.T, atol=tol * max(1.0, np.abs(M).max()))
            offd = sq and np.allclose(M - np.diag(np.diag(M)), 0, atol=tol)
            eig = np.linalg.eigvalsh((M + M.T) / 2) if sq and M.size else np.zeros(0)
            truth = {
                'sym': sym, 'diag': offd,
                'lower': sq and np.allclose(np.triu(M, 1), 0, atol=tol),
                'upper': sq and np.allclose(np.tril(M, -1), 0, atol=tol),
                'tridiag': sq and np.allclose(np.triu(M, 2), 0, atol=tol) and np.allclose(np.tril(M, -2), 0, atol=tol),
                'psd': sym and bool(np.all(eig >= -tol * 10)), 'nsd': sym and bool(np.all(eig <= tol * 10)),
            }
            o['untruthful'] = [k for k in tags if tags[k] and not truth[k]]
            o['sym_T_is_self'] = (not tags['sym']) or (op.T is op)
            # furax's own decorators: orthogonal => inverse is transpose; square => out_structure is in_structure
            cls = type(op)
            o['claims_orthogonal'] = cls.inverse is cls.transpose and cls.__name__ != 'MoveAxisOperator'
            o['orthogonal_true'] = (not o['claims_orthogonal']) or (
                sq and np.allclose(M.T @ M, np.eye(M.shape[0]), atol=tol * 10))
            if o['claims_orthogonal']:
                o['orth_I_is_T'], _ = _close(terms.dense_of(op.I), want.T, tol)
            o['claims_square'] = cls.out_structure is cls.in_structure
            o['square_true'] = (not o['claims_square']) or (op.in_structure() == op.out_structure() and sq)
        guarded('G', g_group)

    if 'I' in groups and M is not None:
        def i_group():
            square = case['square']
            is_mvax = case['term']['k'] == 'mvax'
            try:
                inv = op.I
                o['I_raised'] = False
            except Exception as exc:
                o['I_raised'] = True
                o['I_exc'] = type(exc).__name__
                return
            if not square and not is_mvax:
                return
            o['I_kind'] = type(inv).__name__
            if case['invertible'] or is_mvax or case['term']['k'] == 'diag':
                closed = case['inv_closed']
                wanti = terms.mat_to_float(case['invden']) if case['invden']['r'] else None
                if is_mvax:
                    wanti = want.T
                itol = tol if closed else 5e-4
                Mi = terms.dense_of(inv)
                o['I_finite'] = bool(np.all(np.isfinite(Mi)))
                if wanti is not None:
                    o['I_ok'], o['I_err'] = _close(Mi, wanti, itol, rel=True)
                    ami = np.asarray(inv.as_matrix(), dtype=np.float64)
                    o['I_as_matrix_ok'], _ = _close(ami, wanti, itol, rel=True)
                    o['I_as_matrix_finite'] = bool(np.all(np.isfinite(ami)))
                if case['invertible'] or is_mvax:
                    x = _rand_int_tree(op.in_structure(), rng)
                    o['I_left'], _ = _close(terms.flatten_value(inv(op(x))), terms.flatten_value(x), itol * 20)
                    y = _rand_int_tree(op.out_structure(), rng)
                    o['I_right'], _ = _close(terms.flatten_value(op(inv(y))), terms.flatten_value(y), itol * 20)
                    ii = inv.I
                    o['II_ok'], o['II_err'] = _close(terms.dense_of(ii), want, itol, rel=True)
                if not closed and case.get('spd'):
                    # the iterative solver under other solver settings: A z = y to the configured tolerance
                    from furax import Config
                    ok = True
                    for rtol_, steps in ((1e-3, 60), (1e-5, 200)):
                        with Config(solver=lx.CG(rtol=rtol_, atol=rtol_, max_steps=steps), solver_callback=lambda s: None):
                            inv2 = op.I
                        y = _rand_int_tree(op.out_structure(), rng)
                        z = inv2(y)
                        res = terms.flatten_value(op(z)) - terms.flatten_value(y)
                        ynorm = max(1.0, float(np.linalg.norm(terms.flatten_value(y))))
                        cond = float(np.linalg.cond(want))
                        if not (np.linalg.norm(res) <= 20 * rtol_ * cond * ynorm):
                            ok = False
                            o['solver_residual'] = [rtol_, float(np.linalg.norm(res)), ynorm, cond]
                    o['solver_settings_ok'] = ok
        guarded('I', i_group)
    return out


# ----------------------------------------------------------------------------- verdict tables

CLAUSES = {
    'C03': [('T_ok', 'transpose_matrix'), ('T_structs', 'transpose_structures'), ('TT_ok', 'double_transpose'),
            ('TT_structs', 'double_transpose_structures'), ('adjoint_ok', 'inner_product'),
            ('complex_T_ok', 'transpose_of_complex_blocks')],
    'C04': [('as_matrix_ok', 'as_matrix'), ('as_matrix_vs_basis', 'as_matrix_vs_basis'), ('generic_ok', 'generic_as_matrix'),
            ('linear_ok', 'linearity'), ('zero_ok', 'zero_maps_to_zero'), ('dense_ok', 'basis_matrix')],
    'C05': [('in_decl', 'declared_in_structure'), ('out_decl', 'declared_out_structure'),
            ('out_actual', 'out_structure_vs_result'), ('eval_shape', 'out_structure_vs_eval_shape'),
            ('in_size', 'in_size'), ('out_size', 'out_size'), ('in_promoted', 'in_promoted_dtype'),
            ('out_promoted', 'out_promoted_dtype'), ('T_structs', 'transpose_structures'),
            ('T_out_actual', 'transpose_out_structure_vs_result'), ('reduce_structs', 'reduced_structures'),
            ('reduce_out_actual', 'reduced_out_structure_vs_result')],
    'C06': [('I_ok', 'inverse_matrix'), ('I_finite', 'inverse_finite'), ('I_as_matrix_ok', 'inverse_as_matrix'),
            ('I_as_matrix_finite', 'inverse_as_matrix_finite'), ('I_left', 'inverse_left'), ('I_right', 'inverse_right'),
            ('II_ok', 'double_inverse'), ('solver_settings_ok', 'solver_tolerance')],
    'C08': [('sym_T_is_self', 'symmetric_T_is_self'), ('orthogonal_true', 'orthogonal'), ('orth_I_is_T', 'orthogonal_inverse'),
            ('square_true', 'square')],
    'C10': [('dense_ok', 'block_matrix'), ('as_matrix_ok', 'as_matrix'), ('T_ok', 'transpose_matrix'),
            ('T_structs', 'transpose_structures'), ('I_ok', 'inverse_matrix'), ('I_left', 'inverse_left'),
            ('I_right', 'inverse_right'), ('out_decl', 'declared_out_structure'), ('in_decl', 'declared_in_structure'),
            ('out_actual', 'out_structure_vs_result')],
}
GROUPS = {'C03': 'T', 'C04': 'M', 'C05': 'S', 'C06': 'I', 'C08': 'GT', 'C10': 'MTIS'}
EXC_KEYS = {'C03': ['T_exc'], 'C04': ['M_exc', 'dense_exc'], 'C05': ['S_exc'], 'C06': ['I_exc_group'],
            'C08': ['G_exc'], 'C10': ['M_exc', 'T_exc', 'I_exc', 'S_exc', 'dense_exc']}


TAGS_CFG = 'INIT Init\nNEXT Next\nINVARIANT Emit\nCHECK_DEADLOCK FALSE\n'


def execute_custom_tags(case: dict) -> dict:
    """C08 on user-defined operators: a class decorated with `case['dec']` carrying the witness matrix of MC_Tags;
    every tag the library claims for op / op.T / op.T.T / op.I / op.I.I / op.T.I must hold for the matrix the object denotes."""
    import equinox
    import jax
    import jax.numpy as jnp
    import lineax as lx
    import numpy as np
    from furax import operators as fo

    W = np.array(case['witness']['e'], dtype=np.float32) / case['witness']['d']

    class _Mat(fo.AbstractLinearOperator):
        matrix: jax.Array

        def mv(self, x):
            return self.matrix @ x

        def in_structure(self):
            return jax.ShapeDtypeStruct((self.matrix.shape[1],), jnp.float32)

    cls = getattr(fo, case['dec'])(type('Decorated_' + case['dec'], (_Mat,), {}))
    op = cls(jnp.asarray(W))
    form = case['form']
    out = {'id': case['id'], 'claims': {}, 'bad': []}
    try:
        obj = {'op': lambda: op, 'T': lambda: op.T, 'TT': lambda: op.T.T, 'I': lambda: op.I, 'II': lambda: op.I.I,
               'TI': lambda: op.T.I}[form]()
    except Exception as exc:
        out['construct_exc'] = f'{type(exc).__name__}: {str(exc)[:120]}'      # a refusal is always allowed
        return out
    out['class'] = type(obj).__name__
    queries = {'sym': lx.is_symmetric, 'diag': lx.is_diagonal, 'lower': lx.is_lower_triangular,
               'upper': lx.is_upper_triangular, 'tridiag': lx.is_tridiagonal, 'psd': lx.is_positive_semidefinite,
               'nsd': lx.is_negative_semidefinite}
    for name, fn in queries.items():
        try:
            claim = bool(fn(obj))
        except Exception as exc:
            claim = False
            out.setdefault('query_exc', {})[name] = type(exc).__name__
        out['claims'][name] = claim
        if claim and not case['holds'][name]:
            out['bad'].append(name)
    if out['claims'].get('sym') and form in ('op', 'TT', 'II') and obj.T is not obj:
        out['bad'].append('symmetric_T_not_self')
    return out


def judge(prop: str, cases: list[dict], results: list[dict], verd: fx.Verdicts) -> int:
    by_id = {c['id']: c for c in cases}
    accepted = 0
    for r in results:
        case = by_id[r['id']]
        label = ':'.join(case['names']) + f":{r.get('dt', 'f32')}:{'x64' if r.get('x64') else 'x32'}"
        o = r['obs']
        bad = []
        if case.get('refused'):
            if prop == 'C10' and not o.get('ctor_refused', True):
                bad.append('mismatching_blocks_accepted')
        elif 'build_exc' in r:
            bad.append('construction_raised')
        else:
            for key, clause in CLAUSES[prop]:
                if key in o and o[key] is False:
                    bad.append(clause)
            for key in o:
                if key.endswith('_exc') and key not in ('I_exc', 'ctor_exc'):
                    bad.append('raised:' + key[:-4])
            if prop == 'C03':
                # "symmetric operators return themselves": judged on what the real operator declares, not on the
                # class table of the spec (a class may legitimately stop being declared symmetric)
                if o.get('claims_symmetric') and o.get('T_is_self') is False:
                    bad.append('symmetric_operator_T_not_self')
            if prop == 'C08':
                if o.get('untruthful'):
                    bad.append('untruthful_tag:' + ','.join(o['untruthful']))
            if prop in ('C06', 'C10'):
                square = case['square']
                is_mvax = case['term']['k'] == 'mvax'
                if 'I_raised' in o:
                    if not square and not is_mvax and not o['I_raised']:
                        bad.append('non_square_inverse_accepted')
                    if square and o['I_raised'] and case['iterm']['k'] != 'error':
                        bad.append('inverse_raised')
        if bad:
            verd.report(f"{'+'.join(sorted(set(bad)))}:{label}", '+'.join(sorted(set(bad))), case, r)
        else:
            accepted += 1
    return accepted


def select(prop: str, cases: list[dict]) -> list[dict]:
    if prop == 'C10':
        return [c for c in cases if c.get('refused') or c['term']['k'] in ('brow', 'bdiag', 'bcol')  # incl. arity 6 and 7
                or any(ch['k'] in ('brow', 'bdiag', 'bcol') for ch in c['term']['ch'])]
    sel = [c for c in cases if not c.get('refused')]
    if prop == 'C03':
        sel = [c for c in sel if c['solverfree']]
    if prop == 'C06':
        sel = [c for c in sel if c['square'] or c['names'][3] == 'plain']
    return sel


def run(prop: str, tier: str, seed: int) -> int:
    t0 = time.time()
    verd = fx.Verdicts(prop)
    gen = generate(tier)
    cases = gen.cases
    for c in cases:
        c['id'] = fx.case_id({'t': c['term'], 'n': c['names']})
    sel = select(prop, cases)
    rng = random.Random(seed)
    if tier == 'quick':
        cap = {'C03': 1800, 'C04': 1500, 'C05': 1200, 'C06': 1200, 'C08': 1600, 'C10': 900}[prop]
        picked, strata = fx.stratified_sample(
            sel, lambda c: (c['names'][0], c['names'][2], c['names'][3], c.get('term', {}).get('k')), 40, seed)
        # products, sums and differences of two operands: all of them (a shortcut keyed on a property shared by both
        # operands - both symmetric, both diagonal, same class - shows only on particular pairs of classes)
        have = {c['id'] for c in picked}
        two = [c for c in sel if c['names'][0] in ('2', '3', '4', '5') and c['id'] not in have]      # and every scaled subject
        atoms = [c for c in sel if c['names'][0] == '1']          # every atom alone, every mode
        # every product of two operators of rule-related kinds (the pairs a binary rule may look at)
        ruley = {'mvax', 'reshape', 'ravel', 'RT', 'T', 'index', 'pack', 'rot', 'rotT', 'brow', 'bdiag', 'bcol', 'inv', 'dinv'}
        atoms += [c for c in sel if c['names'][0] == '2' and c['names'][3] == 'plain' and c['term']['k'] == 'comp'
                  and all(ch['k'] in ruley for ch in c['term']['ch'])]
        atoms += two
        atoms += [c for c in sel if c.get('refused') and c.get('near')]     # refusals decided by the tree structure alone
        atoms = list({c['id']: c for c in atoms}.values())
        ids = {c['id'] for c in atoms}
        rest = [c for c in picked if c['id'] not in ids]
        if len(atoms) + len(rest) > cap:
            rest = rng.sample(rest, max(0, cap - len(atoms)))
        picked = atoms + rest
    else:
        picked = sel
    groups = GROUPS[prop]
    jobs = []
    for i, c in enumerate(picked):
        c = dict(c)
        c['groups'] = groups
        c['generic'] = (prop == 'C04') and (tier != 'quick' or c['names'][0] == '1' or i % 8 == 0)
        jobs.append(c)
    jobs.sort(key=lambda c: c['names'][4:])
    results = []
    modes = [(False, 'f32')]
    if prop == 'C05':
        modes = [(False, 'f32'), (True, 'f32'), (True, 'f64')]
    elif tier != 'quick':
        modes = [(False, 'f32'), (True, 'f64')]
    accepted = 0
    nrun = 0
    if prop == 'C04':
        modes = modes + [(False, 'i32')]
    if prop == 'C05':
        modes = modes + [(True, 'mix')]       # float32 and float64 leaves in one pytree (64-bit mode)
    for x64, dt in modes:
        sub = [dict(c, dt=dt) for c in jobs]
        if dt == 'mix':
            sub = [dict(c, dt=dt, groups=groups, id=c['id']) for c in sel if mixed_tree_ok(c)]
        if dt == 'i32':
            # integer data with floating-point parameters: every suitable subject TLC emitted, not only the sample
            sub = [dict(c, dt=dt, groups=groups, generic=(prop == 'C04'), id=c['id']) for c in sel if mixed_ok(c)]
        if tier == 'quick' and (x64 or dt == 'f64') and prop != 'C05':
            sub = sub[::3]
        res = fx.replay('termcheck', 'execute', sub, x64=x64, procs=fx.NPROC,
                        chunksize=max(4, len(sub) // (fx.NPROC * 3)))
        accepted += judge(prop, sub, res, verd)
        nrun += len(res)
        results += res[:2]
    extra_states = 0
    custom = {}
    if prop == 'C08':
        tg = fx.run_tlc('MC_Tags', TAGS_CFG, workers=1, tag='tags')
        if tg.violated:
            raise fx.MachineryError(f'MC_Tags violates {tg.violated}')
        extra_states = tg.distinct
        tcases = tg.cases
        for c in tcases:
            c['id'] = fx.case_id({'d': c['dec'], 'f': c['form']})
        tres = fx.replay('termcheck', 'execute_custom_tags', tcases, procs=4)
        by = {c['id']: c for c in tcases}
        for r in tres:
            c = by[r['id']]
            if r['bad']:
                verd.report(f"untruthful_tag_on_decorated_operator:{c['dec']}:{c['form']}:{','.join(r['bad'])}",
                            'untruthful_tag', c, r)
            else:
                accepted += 1
        nrun += len(tres)
        custom = {'decorated_user_classes': len(tcases),
                  'claims': {f"{by[r['id']]['dec']}.{by[r['id']]['form']}": [k for k, v in r['claims'].items() if v] for r in tres}}
    rc = verd.finish()
    fx.write_evidence(prop, tier, seed, {
        'states': gen.distinct + extra_states, 'transitions': gen.generated + extra_states,
        'traces_validated_against_impl': accepted,
        'evaluations': nrun,
        'distinct_nontrivial': fx.nontrivial_count(picked, lambda c: not c.get('refused') and c['term']['k'] != 'id'),
        'rule': 'subjects = templates {atom, x@y, x+y, x-y, k*x, block row/diag/column over list/tuple/dict of 2, '
                'single-block containers, nested container, x@y@z} over the atoms of FxSigma, each also transposed and '
                'inverted (TLC, exhaustive in the bound); replayed = all (thorough) or every atom in every mode plus a '
                'sample stratified by template x block kind x mode x class (quick); non-trivial = subject is not an '
                'identity operator; distinct by canonical JSON',
        'exhaustive': len(picked) == len(sel),
        'emitted_subjects': len(cases), 'in_scope_for_property': len(sel), 'replayed': len(picked),
        'modes': [f"{'x64' if m[0] else 'x32'}/{m[1]}" for m in modes], 'observation_groups': groups, **custom,
        'samples': [{'names': picked[0]['names'], 'obs': results[0]['obs'] if results else None},
                    {'names': picked[-1]['names']}],
    }, [
        'exact parameter domain of FxSigma; real matrices by basis probes, tolerance 2e-4 (f32) / 1e-9 (f64) relative',
        'iterative inverses only on symmetric positive-definite subjects of size <= 4 (tolerance 5e-4)',
        'linearity is witnessed on three integer combinations with mixed signs per subject',
    ], time.time() - t0, len(verd.violations))
    return rc


def replay_file(prop: str, path: str) -> int:
    doc = json.loads(open(path).read())
    case = doc['case'] if 'case' in doc else doc
    verd = fx.Verdicts(prop)
    detail = doc.get('detail') or {}
    x64, dt = bool(detail.get('x64', False)), detail.get('dt', 'f32')
    c = dict(case, groups=GROUPS[prop], generic=(prop == 'C04'), dt=dt)
    res = fx.replay('termcheck', 'execute', [c], x64=x64, procs=1)
    judge(prop, [c], res, verd)
    print(json.dumps(res[0], indent=1, default=str)[:5000])
    return verd.finish()
