"""C11 - diagonal operators multiply along the requested axes.

Stage 1: TLC (MC_Diagonal over FxDiagonal) enumerates every configuration of the bounded domain
         (input structure x values shape x axis specification x class), checks that the
         transcription of furax/_base/diagonal.py agrees with the reference index formula, and
         emits each configuration with the reference prediction: Error, or per leaf the output
         shape and the element map  out[f] = values[vmap[f]] * x[xmap[f]].
Stage 2: the configurations (all in thorough, a stratified seeded sample in quick) are built on the
         real BroadcastDiagonalOperator / DiagonalOperator with values = distinct primes and
         x = further distinct primes, so that every output entry identifies the pair of entries it
         was computed from; constructor errors, output structure, every element, dense matrices
         (DiagonalOperator.as_matrix, the generic as_matrix on a subset), the pseudo-inverse with
         zero entries and independence from anything but (values, axes, input) are compared with
         the prediction carried by the case.
"""
from __future__ import annotations

import itertools
import json
import random
import time

import fx

PROP = 'C11'

CFG = """INIT Init
NEXT Next
CONSTANTS
  TreeCodes = {trees}
  ValueCodes = {values}
  Value3Codes = {values3}
  V3TreeCodes = {v3trees}
  DegTreeCodes = {deg}
  NegAxes = 4
  AxisHi = 3
INVARIANT TypeOK
INVARIANT InitAgrees
INVARIANT PrefixAgrees
INVARIANT Agree
INVARIANT StrictRejectsExactly
INVARIANT StrictIsDiagonal
INVARIANT DenseAgrees
INVARIANT MoorePenrose
INVARIANT Emit
CHECK_DEADLOCK FALSE
"""

DIMS = (1, 2, 3)
# 27 primes for the values (at most 3x3x3 entries), the following ones for the inputs
_PRIMES: list[int] = []


def primes(n: int) -> list[int]:
    k = _PRIMES[-1] + 1 if _PRIMES else 2
    while len(_PRIMES) < n:
        if all(k % p for p in _PRIMES if p * p <= k):
            _PRIMES.append(k)
        k += 1
    return _PRIMES[:n]


# ----------------------------------------------------------------------------- domain

def shape_code(sh) -> int:
    return int(''.join(str(d) for d in sh)) if len(sh) else 0      # a 0-d leaf: code 0 (alone, or as the second leaf)


def tree_code(tree) -> int:
    return shape_code(tree[0]) if len(tree) == 1 else 1000 * shape_code(tree[0]) + shape_code(tree[1])


def shapes(rank: int, dims=DIMS) -> list[tuple]:
    return list(itertools.product(dims, repeat=rank))


VALUES3 = ((2, 2, 2), (2, 3, 2), (1, 2, 3), (2, 1, 3), (3, 2, 1), (3, 3, 3))


def full_domain() -> dict:
    """The bounded domain of the check (thorough tier)."""
    singles = [(s,) for r in (1, 2, 3) for s in shapes(r)]
    # two leaves of different rank: extents in {2, 3}, one leaf a prefix or a suffix of the other
    # (so that non-negative / negative axes can be accepted by both), the smaller leaf first ...
    pairs = []
    for r in (2, 3):
        for b in shapes(r, (2, 3)):
            for a in sorted({b[:1], b[-1:], b[:2], b[-2:]}):
                if len(a) != len(b):
                    pairs.append((a, b))
                    if len(b) == 3 and len(set(b)) > 1 and len(a) == 2:
                        pairs.append((b, a))          # ... and the larger leaf first
    # ... unrelated leaves, and leaves with unit extents
    pairs += [((2,), (3, 3)), ((3, 2), (2,)), ((2, 2), (3, 3, 3)), ((3,), (2, 2, 3))]
    for b in [(1, 3), (3, 1), (1, 2, 3), (2, 1, 3), (3, 2, 1)]:
        pairs += [(b[-1:], b), (b, b[:1])]
    pairs += [((1, 3), (2, 1, 3)), ((3, 2, 1), (3, 2)), ((1,), (1, 1))]
    values = [s for r in (1, 2) for s in shapes(r)]
    deg = [((3,),), ((2,), (3, 2))]
    # leaves of rank 0 (a scalar offset next to an array): the values always have at least one dimension
    pairs += [((2, 3), ()), ((3,), ()), ((2, 2, 3), ())]
    singles = singles + [((),)]
    pairs = sorted(set(pairs))
    # values of rank 3 (every ordered triple of distinct axes: sorted, swapped and cyclic orders):
    # a family of shapes, on every single leaf and on a few two-leaf structures
    pairs3 = [((2,), (3, 2)), ((2, 2), (2, 2, 2)), ((2, 3, 2), (3, 2)), ((3,), (1, 2, 3)), ((1, 3), (2, 1, 3)),
              ((3, 2, 1), (3, 2)), ((2,), (2, 3, 2)), ((3, 3), (3, 3, 3))]
    assert all(t in pairs for t in pairs3)
    return {'singles': singles, 'pairs': pairs, 'values': values, 'deg': deg,
            'values3': list(VALUES3), 'v3trees': singles + pairs3}


def domain(tier: str, seed: int) -> tuple[dict, bool]:
    full = full_domain()
    if tier != 'quick':
        return full, True
    rng = random.Random(seed)
    low = [t for t in full['singles'] if len(t[0]) <= 2]
    r3 = [t for t in full['singles'] if len(t[0]) == 3]
    asym = [t for t in r3 if len(set(t[0])) == 3]          # all extents different: 6 shapes
    pick3 = rng.sample(asym, 2) + rng.sample([t for t in r3 if t not in asym], 1)
    deg2 = [t for t in full['deg'] if len(t) == 2]
    pairs = rng.sample([t for t in full['pairs'] if t not in deg2 and () not in t], 3) + deg2 + [((2, 3), ()), ((3,), ())]
    # values of rank 3 in quick: the cube, one seeded shape with different extents, one with a unit extent,
    # on a leaf of each rank (the rank-3 one with different extents) and one two-leaf structure
    v3 = [(2, 2, 2), rng.choice([(2, 3, 2), (3, 3, 3)]), rng.choice([(1, 2, 3), (2, 1, 3), (3, 2, 1)])]
    p3 = rng.choice([t for t in full['v3trees'] if len(t) == 2])
    if p3 not in pairs:
        pairs.append(p3)
    v3trees = [((3,),), rng.choice([((2, 3),), ((3, 2),), ((2, 2),)]), pick3[0], ((2, 2, 2),), p3]
    singles = low + pick3 + [t for t in v3trees if len(t) == 1 and t not in low + pick3]
    return {'singles': singles, 'pairs': pairs, 'values': full['values'], 'deg': full['deg'],
            'values3': v3, 'v3trees': v3trees}, False


def tla_set(xs) -> str:
    return '{' + ', '.join(str(x) for x in sorted(set(xs))) + '}'


def generate(dom: dict, nshards: int = 2, workers: int = 3) -> fx.TlcResult:
    trees = dom['singles'] + dom['pairs']
    # expensive structures first, dealt round-robin
    trees = sorted(trees, key=lambda t: -sum(len(s) for s in t))
    shards = [trees[i::nshards] for i in range(nshards)]
    shards = [s for s in shards if s]

    def cfg(i: int) -> str:
        return CFG.format(trees=tla_set(tree_code(t) for t in shards[i]),
                          values=tla_set(shape_code(v) for v in dom['values']),
                          values3=tla_set(shape_code(v) for v in dom['values3']),
                          v3trees=tla_set(tree_code(t) for t in dom['v3trees'] if t in shards[i]),
                          deg=tla_set(tree_code(t) for t in dom['deg'] if t in shards[i]))

    res = fx.run_tlc_sharded('MC_Diagonal', cfg, len(shards), workers=workers, parallel=len(shards))
    if res.violated:
        raise fx.MachineryError(f'MC_Diagonal violates {res.violated} at design level:\n' + res.stdout[-3000:])
    return res


# ----------------------------------------------------------------------------- case helpers

def axes_of(case: dict):
    return case['a'] if case['scalar'] else tuple(case['t'])


def key_of(case: dict) -> str:
    cls = 'Diagonal' if case['strict'] else 'BroadcastDiagonal'
    leaves = '+'.join('x'.join(map(str, s)) for s in case['leaves'])
    vals = 'pytree' if case['vtree'] else ('scalar' if not case['vsh'] else 'x'.join(map(str, case['vsh'])))
    return f"{cls}:leaves={leaves}:values={vals}:axes={axes_of(case)}"


def order_class(case: dict) -> str:
    """Order of an explicit tuple of axes after the per-leaf normalisation: 'sorted', 'swap' (an
    involution: the permutation equals its inverse) or 'cyclic' (not an involution: ranks and argsort
    differ); the least symmetric class over the leaves; 'dup' if some leaf sees a duplicate."""
    worst = 0
    for s in case['leaves']:
        n = [a + len(s) if a < 0 else a for a in case['t']]
        if len(set(n)) < len(n):
            return 'dup'
        rank = [sorted(n).index(a) for a in n]
        inv = [rank.index(k) for k in range(len(n))]
        worst = max(worst, 0 if rank == sorted(rank) else (1 if rank == inv else 2))
    return ('sorted', 'swap', 'cyclic')[worst]


def stratum(case: dict) -> str:
    m = len(case['vsh'])
    if len(case['leaves']) == 1:
        r = len(case['leaves'][0])
        rel = 'lt' if m < r else ('eq' if m == r else 'gt')
    else:
        rel = 'pair'
    if case['scalar']:
        form = 's-' if case['a'] < 0 else 's+'
    elif m == 3:
        form = f"t3:{order_class(case)}:neg{sum(a < 0 for a in case['t'])}"
    else:
        form = 't' + ''.join('-' if a < 0 else '+' for a in case['t'])
    if case['err']:
        cls = case['why']
    else:
        pads = [len(o['osh']) - len(s) for o, s in zip(case['out'], case['leaves'])]
        cls = 'ok' + ('' if max(pads) == 0 else ':pad')
    return f"{rel}|{form}|{cls}|{'D' if case['strict'] else 'B'}|{'T' if case['vtree'] else 'A'}"


def sort_key(case: dict):
    return (case['leaves'], case['vsh'], case['strict'], case['scalar'], case['a'], case['t'])


def nontrivial(case: dict) -> bool:
    """Accepted by the specification, or rejected because of the axes (duplicate, not
    broadcastable, shape-changing for the strict class); not the scalar / pytree rejections."""
    if case['err']:
        return case['why'] in ('duplicate', 'broadcast', 'strict')
    return True


# ----------------------------------------------------------------------------- stage 2 (worker)

def _expected_leaf(vals, xflat, out):
    import numpy as np

    v = np.asarray(vals, dtype=np.float64)[np.asarray(out['vmap'], dtype=np.int64)]
    x = np.asarray(xflat, dtype=np.float64)[np.asarray(out['xmap'], dtype=np.int64)]
    return (v * x).reshape(tuple(out['osh']))


def _decode(got, vals, xflat):
    """which (values entry, input entry) pair a product of two distinct primes came from"""
    for i, v in enumerate(vals):
        for j, x in enumerate(xflat):
            if float(v) * float(x) == float(got):
                return [i, j]
    return None


def _first_diff(got, want, vals, xflat, out):
    import numpy as np

    g = np.asarray(got, dtype=np.float64).ravel()
    w = np.asarray(want, dtype=np.float64).ravel()
    bad = np.nonzero(g != w)[0]
    f = int(bad[0])
    return {'flat_index': f, 'got': float(g[f]), 'want': float(w[f]),
            'want_pair(values,input)': [out['vmap'][f], out['xmap'][f]],
            'got_pair(values,input)': _decode(g[f], vals, xflat), 'n_wrong': int(len(bad))}


def execute(case: dict) -> dict:
    """Build the configuration on the real library and compare with the prediction of the case.
    Returns {'id', 'fails': [[clause, detail], ...], 'exc': constructor exception or None, ...}."""
    import jax
    import jax.numpy as jnp
    import numpy as np
    from furax._base.diagonal import BroadcastDiagonalOperator, DiagonalOperator

    # most configurations are rejections: skip JAX's (slow) filtering of their tracebacks
    jax.config.update('jax_traceback_filtering', 'off')
    fails: list = []
    obs: dict = {'id': case['id'], 'fails': fails, 'exc': None, 'checked': []}
    cls = DiagonalOperator if case['strict'] else BroadcastDiagonalOperator
    leaves = [tuple(s) for s in case['leaves']]
    vsh = tuple(case['vsh'])
    variety = int(case['id'][:4], 16)

    def structure():
        ls = [jax.ShapeDtypeStruct(s, jnp.float32) for s in leaves]
        if len(ls) == 1:
            return ls[0]
        return {'p': ls[0], 'q': ls[1]} if variety % 2 else [ls[0], ls[1]]

    def pack(arrs):
        if len(arrs) == 1:
            return arrs[0]
        return {'p': arrs[0], 'q': arrs[1]} if variety % 2 else [arrs[0], arrs[1]]

    def unpack(tree):
        if len(leaves) == 1:
            return [tree]
        return [tree['p'], tree['q']] if variety % 2 else [tree[0], tree[1]]

    def values_of(flat):
        arr = jnp.asarray(np.asarray(flat, dtype=np.float32).reshape(vsh))
        if not case['vtree']:
            return arr
        return [[arr], {'v': arr}, (arr, arr)][variety % 3]

    def axes():
        a = axes_of(case)
        if case['scalar']:
            return a
        return list(a) if variety % 4 == 1 else a      # any Sequence[int] is accepted

    def build(flat):
        return cls(values_of(flat), axis_destination=axes(), in_structure=structure())

    nv = int(np.prod(vsh)) if vsh else 1
    vals = case['vals'] if not case['vtree'] else primes(nv)
    nx = sum(int(np.prod(s)) for s in leaves)
    xprimes = primes(27 + nx)[27:]
    xflats, off = [], 0
    for s in leaves:
        n = int(np.prod(s))
        xflats.append(xprimes[off:off + n])
        off += n
    xs = [jnp.asarray(np.asarray(xf, dtype=np.float32).reshape(s)) for xf, s in zip(xflats, leaves)]
    x = pack(xs)

    # ---- construction
    op = None
    try:
        op = build(vals)
    except Exception as exc:
        obs['exc'] = f'{type(exc).__name__}: {str(exc)[:160]}'
    if case['err']:
        obs['checked'].append('rejection')
        if op is not None:
            detail = {'spec': case['why'], 'constructor': 'accepted'}
            try:
                y = op.mv(x)
                detail['mv'] = [list(np.shape(l)) for l in jax.tree.leaves(y)]
            except Exception as exc:
                detail['mv'] = f'{type(exc).__name__}: {str(exc)[:160]}'
            fails.append(['accepts_invalid:' + case['why'], detail])
        return obs
    if op is None:
        fails.append(['rejects_valid', {'exc': obs['exc']}])
        return obs

    # ---- output structure
    want = [_expected_leaf(vals, xf, o) for xf, o in zip(xflats, case['out'])]
    try:
        outs = unpack(op.out_structure())
        got_struct = [[list(o.shape), str(o.dtype)] for o in outs]
        want_struct = [[list(o['osh']), 'float32'] for o in case['out']]
        obs['checked'].append('out_structure')
        if got_struct != want_struct:
            fails.append(['out_structure', {'got': got_struct, 'want': want_struct}])
    except Exception as exc:
        fails.append(['out_structure', {'exc': f'{type(exc).__name__}: {str(exc)[:160]}'}])

    # ---- every element of mv, twice, and on a second instance with equal parameters
    def apply(o, label):
        try:
            ys = [np.asarray(l) for l in unpack(o(x) if label != 'mv' else o.mv(x))]
        except Exception as exc:
            fails.append([label + ':raised', {'exc': f'{type(exc).__name__}: {str(exc)[:160]}'}])
            return None
        for i, (g, w) in enumerate(zip(ys, want)):
            if list(g.shape) != list(w.shape):
                fails.append([label + ':shape', {'leaf': i, 'got': list(g.shape), 'want': list(w.shape)}])
                return None
            if g.dtype != np.float32:
                fails.append([label + ':dtype', {'leaf': i, 'got': str(g.dtype)}])
            if not np.array_equal(g.astype(np.float64), w):
                d = _first_diff(g, w, vals, xflats[i], case['out'][i])
                d['leaf'] = i
                fails.append([label + ':elements', d])
                return None
        return ys

    first = apply(op, 'mv')
    obs['checked'].append('mv')
    if first is not None:
        apply(op, 'again')
        try:
            apply(build(list(vals)), 'second_instance')
        except Exception as exc:
            fails.append(['second_instance:raised', {'exc': f'{type(exc).__name__}: {str(exc)[:160]}'}])
        obs['checked'].append('independence')
        if case.get('jit'):
            try:
                ys = unpack(jax.jit(lambda o, v: o(v))(op, x))
                if not all(np.array_equal(np.asarray(g).astype(np.float64), w) for g, w in zip(ys, want)):
                    fails.append(['jit:elements', {}])
            except Exception as exc:
                fails.append(['jit:raised', {'exc': f'{type(exc).__name__}: {str(exc)[:160]}'}])
            obs['checked'].append('jit')

    # ---- dense matrix: rows = flattened outputs, columns = flattened inputs
    if case['strict'] or case.get('dense'):
        rows = sum(len(o['vmap']) for o in case['out'])
        dense = np.zeros((rows, nx))
        ro = co = 0
        for o, xf in zip(case['out'], xflats):
            for f, (vi, xi) in enumerate(zip(o['vmap'], o['xmap'])):
                dense[ro + f, co + xi] = vals[vi]
            ro += len(o['vmap'])
            co += len(xf)
        try:
            got = np.asarray(op.as_matrix()).astype(np.float64)
            if got.shape != dense.shape or not np.array_equal(got, dense):
                fails.append(['as_matrix', {'got': got.tolist(), 'want': dense.tolist()}])
        except Exception as exc:
            fails.append(['as_matrix:raised', {'exc': f'{type(exc).__name__}: {str(exc)[:160]}'}])
        obs['checked'].append('as_matrix')

    # ---- pseudo-inverse of the strict variant, values with zeros and negative entries
    if case['strict']:
        valz = case['valz']
        pinv = np.array([n / d for n, d in case['inv']], dtype=np.float64)
        dz = np.array([valz[vi] for o in case['out'] for vi in o['vmap']], dtype=np.float64)
        try:
            opz = build(valz)
            inv = opz.I
            got = np.asarray(inv.as_matrix()).astype(np.float64)
            fwd = np.asarray(opz.as_matrix()).astype(np.float64)
            detail = None
            if not np.all(np.isfinite(got)):
                detail = 'non-finite entries'
            elif got.shape != (nx, nx) or not np.array_equal(got - np.diag(np.diag(got)), np.zeros((nx, nx))):
                detail = 'not diagonal'
            elif not np.allclose(np.diag(got), pinv, rtol=1e-6, atol=0):
                detail = 'values'
            elif not np.array_equal(fwd, np.diag(dz)):
                detail = 'forward matrix with zeros'
            elif not (np.allclose(fwd @ got @ fwd, fwd, rtol=1e-5, atol=1e-6)
                      and np.allclose(got @ fwd @ got, got, rtol=1e-5, atol=1e-6)):
                detail = 'Moore-Penrose'
            if detail:
                fails.append(['inverse:as_matrix', {'what': detail, 'got_diag': np.diag(got).tolist()
                              if got.ndim == 2 else None, 'want_diag': pinv.tolist()}])
            ys = [np.asarray(l).astype(np.float64).ravel() for l in unpack(inv(x))]
            gotv = np.concatenate(ys)
            wantv = pinv * np.concatenate([np.asarray(xf, dtype=np.float64) for xf in xflats])
            if not (np.all(np.isfinite(gotv)) and np.allclose(gotv, wantv, rtol=1e-6, atol=0)):
                fails.append(['inverse:mv', {'got': gotv.tolist(), 'want': wantv.tolist()}])
        except Exception as exc:
            fails.append(['inverse:raised', {'exc': f'{type(exc).__name__}: {str(exc)[:160]}'}])
        obs['checked'].append('inverse')
    return obs


# ----------------------------------------------------------------------------- driver

def _prepare(cases: list[dict], seed: int, dense_every: int, jit_every: int) -> None:
    rng = random.Random(seed + 11)
    for c in cases:
        c['id'] = fx.case_id({k: c[k] for k in ('leaves', 'vsh', 'vtree', 'strict', 'scalar', 'a', 't')})
        if not c['err']:
            small = sum(len(o['vmap']) for o in c['out']) <= 54
            c['dense'] = bool(small and rng.randrange(dense_every) == 0)
            c['jit'] = bool(rng.randrange(jit_every) == 0)


def _judge(cases: list[dict], results: list[dict], verd: fx.Verdicts) -> dict:
    by_id = {c['id']: c for c in cases}
    stats = {'agree': 0, 'checked': {}}
    for r in results:
        case = by_id[r['id']]
        for what in r['checked']:
            stats['checked'][what] = stats['checked'].get(what, 0) + 1
        if not r['fails']:
            stats['agree'] += 1
        for clause, detail in r['fails']:
            verd.report(f'{clause}:{key_of(case)}', clause, case,
                        {'detail': detail, 'constructor_exception': r['exc'],
                         'spec': 'Error(' + case['why'] + ')' if case['err'] else
                                 {'output_shapes': [o['osh'] for o in case['out']]}})
    return stats


def _order_counts(cases: list[dict]) -> dict:
    out: dict[str, int] = {}
    for c in cases:
        if len(c['vsh']) == 3 and not c['scalar']:
            k = order_class(c) + (':accepted' if not c['err'] else ':rejected')
            out[k] = out.get(k, 0) + 1
    return out


def run(tier: str, seed: int) -> int:
    t0 = time.time()
    verd = fx.Verdicts(PROP)
    dom, full = domain(tier, seed)
    gen = generate(dom, nshards=2, workers=3)
    t1 = time.time()
    cases = gen.cases
    _prepare(cases, seed, dense_every=6 if tier == 'quick' else 12, jit_every=8 if tier == 'quick' else 16)
    if len({c['id'] for c in cases}) != len(cases):
        raise fx.MachineryError('duplicate configurations emitted by TLC')
    if tier == 'quick':
        picked, strata = fx.stratified_sample([c for c in cases if len(c['vsh']) < 3], stratum, 3, seed)
        if len(picked) > 1000:
            picked = random.Random(seed).sample(picked, 1000)
        # values of rank 3: every stratum (order class x rank relation x signs x outcome x class) is
        # replayed, so cyclic orders always are
        picked3, strata3 = fx.stratified_sample([c for c in cases if len(c['vsh']) == 3], stratum, 2, seed)
        picked += picked3
        nstrata = len(strata) + len(strata3)
    else:
        picked, nstrata = cases, len({stratum(c) for c in cases})
    picked.sort(key=sort_key)
    nproc = min(fx.NPROC, 12)
    chunk = max(8, min(200, len(picked) // (nproc * 4) or 8))
    results = fx.replay('c11', 'execute', picked, procs=nproc, chunksize=chunk)
    t2 = time.time()
    stats = _judge(picked, results, verd)
    rc = verd.finish()
    by_class: dict[str, int] = {}
    for c in cases:
        k = ('Error:' + c['why']) if c['err'] else 'accepted'
        by_class[k] = by_class.get(k, 0) + 1
    samples = []
    for want, nl in (('accepted', 1), ('accepted', 2), ('strict', 1), ('duplicate', 2)):
        for c in picked:
            if ((c['why'] or 'accepted') == want and len(c['leaves']) == nl and len(c['vsh']) == 2
                    and min(len(s) for s in c['leaves']) >= nl and 20 < len(json.dumps(c)) < 1200
                    and min(max(s) for s in c['leaves']) > 1 and max(c['vsh']) > 1
                    and (c['err'] or len(c['out'][0]['osh']) > len(c['leaves'][0]))):
                samples.append({k: v for k, v in c.items() if k not in ('id',)})
                break
    fx.write_evidence(PROP, tier, seed, {
        'states': gen.distinct, 'transitions': gen.generated,
        'traces_validated_against_impl': stats['agree'],
        'evaluations': len(picked),
        'distinct_nontrivial': fx.nontrivial_count(
            [{k: c[k] for k in ('leaves', 'vsh', 'strict', 'scalar', 'a', 't', 'err', 'why')} for c in picked
             if nontrivial(c)], lambda c: True),
        'rule': 'cases = every configuration (input structure of one or two leaves x values shape x axis '
                'specification: each int in -4..3 and each tuple over -4..3 of the right length x class) of the '
                'bounded domain, enumerated by TLC; replayed = all (thorough) or a seeded sample stratified by '
                '(rank relation, form and signs of the axes - for triples: sorted / swap / cyclic order class -, predicted outcome, class) (quick); non-trivial = '
                'accepted by the specification, or rejected for duplicate / non-broadcastable / shape-changing '
                'axes (not the scalar / pytree rejections); distinct by canonical JSON of the configuration',
        'exhaustive': bool(full and len(picked) == len(cases)),
        'emitted_cases': len(cases), 'replayed': len(picked), 'strata': nstrata,
        'domain': {'single_leaf_structures': len(dom['singles']), 'two_leaf_structures': len(dom['pairs']),
                   'values_shapes': len(dom['values']), 'values_shapes_rank3': [list(v) for v in dom['values3']],
                   'structures_with_rank3_values': len(dom['v3trees']),
                   'rank3_cases': {'emitted': sum(len(c['vsh']) == 3 for c in cases),
                                   'replayed': sum(len(c['vsh']) == 3 for c in picked),
                                   'replayed_by_order_class': _order_counts(picked)},
                   'axes': 'ints -4..3, tuples over -4..3 (rank 3: ordered triples of distinct axes)',
                   'complete_bounded_domain': full},
        'predicted_outcomes': by_class,
        'clauses_checked': stats['checked'],
        'timing_s': {'tlc': round(t1 - t0, 1), 'replay': round(t2 - t1, 1)},
        'design_model': {'distinct_states': gen.distinct, 'generated': gen.generated, 'depth': gen.depth,
                         'invariants': ['TypeOK', 'InitAgrees', 'PrefixAgrees', 'Agree', 'StrictRejectsExactly',
                                        'StrictIsDiagonal', 'DenseAgrees', 'MoorePenrose']},
        'samples': samples,
    }, [
        'extents 1..3, leaf rank 1..3, values rank 1..2 (all shapes) and rank 3 (a family of shapes, ordered triples of distinct axes), rank 0 for the rejection of scalars; float32 leaves and values',
        'jnp.moveaxis / jnp.broadcast_shapes / reshape are transcribed from their documented NumPy algorithms',
        'products of two distinct primes < 2^24 are exact in float32, so every output entry identifies its operands',
        'any exception class raised by the constructor counts as a rejection',
    ], time.time() - t0, len(verd.violations))
    return rc


def replay_file(path: str) -> int:
    doc = json.loads(open(path).read())
    case = doc['case'] if 'case' in doc else doc
    case.setdefault('id', fx.case_id({k: case[k] for k in ('leaves', 'vsh', 'vtree', 'strict', 'scalar', 'a', 't')}))
    results = fx.replay('c11', 'execute', [case], procs=1)
    verd = fx.Verdicts(PROP)
    _judge([case], results, verd)
    print(json.dumps({'configuration': key_of(case), 'spec': 'Error(' + case['why'] + ')' if case['err'] else
                      [o['osh'] for o in case['out']], 'observed': results[0]}, indent=1, default=str)[:6000])
    return verd.finish()
