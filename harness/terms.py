"""The two places where real furax objects and abstract terms (spec/FxTerms.tla) meet:
build(term) -> real operator, project(op) -> term.  Kept dumb on purpose."""
from __future__ import annotations

import math
from fractions import Fraction

import jax
import jax.numpy as jnp
import numpy as np

from furax._base import axes, blocks, core, dense, diagonal, indices, linear
from furax.landscapes import (
    StokesIPyTree,
    StokesIQUPyTree,
    StokesIQUVPyTree,
    StokesPyTree,
    StokesQUPyTree,
)
from furax.operators import hwp, polarizers, qu_rotations, toeplitz

DT = {'f32': jnp.float32, 'f64': jnp.float64, 'i32': jnp.int32, 'i64': jnp.int64}
DT_REV = {'float32': 'f32', 'float64': 'f64', 'int32': 'i32', 'int64': 'i64'}
STOKES_CLS = {'I': StokesIPyTree, 'QU': StokesQUPyTree, 'IQU': StokesIQUPyTree, 'IQUV': StokesIQUVPyTree}
PHI = math.atan2(4.0, 3.0)


class Unbuildable(Exception):
    pass


# ----------------------------------------------------------------------------- structures

def build_struct(s: dict):
    k = s['k']
    if k == 'leaf':
        return jax.ShapeDtypeStruct(tuple(s['sh']), DT[s['dt']])
    ch = [build_struct(c) for c in s['ch']]
    if k == 'list':
        return ch
    if k == 'tuple':
        return tuple(ch)
    if k == 'dict':
        # insertion order deliberately reversed: JAX sorts the keys
        return {key: c for key, c in reversed(list(zip(s['keys'], ch)))}
    if k in STOKES_CLS:
        return STOKES_CLS[k](*ch)
    raise Unbuildable(f'structure kind {k}')


def project_struct(x) -> dict:
    if isinstance(x, jax.ShapeDtypeStruct) or hasattr(x, 'shape') and hasattr(x, 'dtype') and not isinstance(x, StokesPyTree):
        return {'k': 'leaf', 'sh': [int(d) for d in x.shape], 'dt': DT_REV.get(str(np.dtype(x.dtype)), str(x.dtype)),
                'ch': [], 'keys': []}
    if isinstance(x, StokesPyTree):
        comps = [getattr(x, c.lower()) for c in x.stokes]
        return {'k': x.stokes, 'sh': [], 'dt': '', 'ch': [project_struct(c) for c in comps], 'keys': []}
    if isinstance(x, list):
        return {'k': 'list', 'sh': [], 'dt': '', 'ch': [project_struct(c) for c in x], 'keys': []}
    if isinstance(x, tuple):
        return {'k': 'tuple', 'sh': [], 'dt': '', 'ch': [project_struct(c) for c in x], 'keys': []}
    if isinstance(x, dict):
        keys = sorted(x)
        return {'k': 'dict', 'sh': [], 'dt': '', 'ch': [project_struct(x[k]) for k in keys], 'keys': keys}
    return {'k': 'unknown:' + type(x).__name__, 'sh': [], 'dt': '', 'ch': [], 'keys': []}


NOS = {'k': 'leaf', 'sh': [], 'dt': '', 'ch': [], 'keys': []}


def struct_size(s: dict) -> int:
    if s['k'] == 'leaf':
        return int(np.prod(s['sh'], dtype=int))
    return sum(struct_size(c) for c in s['ch'])


# ----------------------------------------------------------------------------- angles

def angle_value(q: int, n: int) -> float:
    """2a = q*pi/2 + n*phi"""
    return 0.5 * (q * math.pi / 2 + n * PHI)


def angles_array(p: list[int], dtype=jnp.float32):
    vals = [angle_value(p[2 * i], p[2 * i + 1]) for i in range(len(p) // 2)]
    if len(vals) == 1:
        return jnp.asarray(vals[0], dtype=dtype)
    return jnp.asarray(vals, dtype=dtype)


def project_angle(a: float):
    best = None
    for q in range(4):
        for n in range(-8, 9):
            t = 2 * angle_value(q, n)
            err = abs(complex(math.cos(2 * a) - math.cos(t), math.sin(2 * a) - math.sin(t)))
            if best is None or err < best[0]:
                best = (err, q, n)
    if best[0] > 2e-4:
        return None
    return [best[1], best[2]]


# ----------------------------------------------------------------------------- build

class Builder:
    """Builds real operators from terms.  Terms with the same non-zero id are the same
    Python object (the rules test `left.operator is right`)."""

    def __init__(self, toeplitz_method: str = 'dense') -> None:
        self.by_id: dict[int, object] = {}
        self.ids: dict[int, int] = {}     # id(python object) -> term id
        self.keep: list = []
        self.toeplitz_method = toeplitz_method
        self.fresh = 1000

    def container(self, tree: dict, ops: list):
        if tree['k'] == 'leaf':
            return ops[tree['sh'][0] - 1]
        ch = [self.container(c, ops) for c in tree['ch']]
        if tree['k'] == 'list':
            return ch
        if tree['k'] == 'tuple':
            return tuple(ch)
        if tree['k'] == 'dict':
            return {key: c for key, c in reversed(list(zip(tree['keys'], ch)))}
        raise Unbuildable(tree['k'])

    param_scale = 1.0         # factor applied to dense / broadcast-diagonal parameters (non-integer values on integer data)
    float_params = False      # True: parameters of float kinds are float32 even when the data are integers

    def pdt(self, dt):
        """dtype of an operator's numeric parameters for data of dtype `dt`"""
        if self.float_params and np.issubdtype(np.dtype(dt), np.integer):
            return jnp.float32
        return dt

    def build(self, t: dict):
        tid = t['id']
        if tid and tid in self.by_id:
            return self.by_id[tid]
        op = self._build(t)
        self.keep.append(op)
        if tid:
            self.by_id[tid] = op
            self.ids[id(op)] = tid
        return op

    def _build(self, t: dict):
        k, p = t['k'], t['p']
        ch = t['ch']
        if k == 'id':
            return core.IdentityOperator(build_struct(t['s']))
        if k == 'hom':
            s = build_struct(t['s'])
            # parameter no wider than the data (C05's quantifier): a weakly typed python scalar becomes a
            # strong float64 inside lineax's jitted solve when x64 is on
            return core.HomothetyOperator(jnp.asarray(p[0] / p[1], dtype=self.pdt(jax.tree.leaves(s)[0].dtype)), s)
        if k == 'dense':
            r, c = p[0], p[1]
            s = build_struct(t['s'])
            blk = jnp.asarray(np.array(p[2:], dtype=np.float64).reshape(r, c) * self.param_scale, dtype=self.pdt(s.dtype))
            return dense.DenseBlockDiagonalOperator(blk, s, 'ij,j->i')
        if k == 'obs':
            # a small CSR .npz file in the format ToastObservationMatrixOperator reads
            import tempfile

            import scipy.sparse as sp
            from furax.toast.obs_matrix import ToastObservationMatrixOperator

            dt = np.dtype(build_struct(t['s']).dtype)          # the file decides the dtype of the operator
            m = sp.csr_matrix(np.array(p[2:], dtype=dt).reshape(p[0], p[1]))
            with tempfile.NamedTemporaryFile(suffix='.npz', delete=False) as f:
                np.savez(f, data=m.data, indices=m.indices, indptr=m.indptr, shape=np.array(m.shape), format='csr')
                path = f.name
            try:
                return ToastObservationMatrixOperator(path)
            finally:
                import os
                os.unlink(path)
        if k == 'toep':
            s = build_struct(t['s'])
            return toeplitz.SymmetricBandToeplitzOperator(
                jnp.asarray(p, dtype=s.dtype), s, method=self.toeplitz_method)
        if k == 'diag':
            s = build_struct(t['s'])
            dt = self.pdt(jax.tree.leaves(s)[0].dtype)
            return diagonal.DiagonalOperator(jnp.asarray(p, dtype=dt), in_structure=s)
        if k == 'diagq':
            s = build_struct(t['s'])
            dt = self.pdt(jax.tree.leaves(s)[0].dtype)
            return diagonal.DiagonalOperator(jnp.asarray([v / p[0] for v in p[1:]], dtype=dt), in_structure=s)
        if k == 'dinv':
            return diagonal.DiagonalInverseOperator(self.build(ch[0]))
        if k == 'bdiagb':
            s = build_struct(t['s'])
            vals = jnp.asarray(np.array(p[2:], dtype=np.float64).reshape(p[0], p[1]) * self.param_scale, dtype=self.pdt(s.dtype))
            return diagonal.BroadcastDiagonalOperator(vals, in_structure=s)
        if k == 'index':
            s = build_struct(t['s'])
            idx = jnp.asarray(p[1:], dtype=jnp.int32)
            out = jax.tree.map(lambda l: jax.ShapeDtypeStruct((len(p) - 1,), l.dtype), s)
            return indices.IndexOperator(idx, in_structure=s, out_structure=out,
                                         unique_indices=bool(p[0]))
        if k == 'pack':
            return linear.PackOperator(jnp.asarray([bool(b) for b in p]), build_struct(t['s']))
        if k == 'mvax':
            h = len(p) // 2
            if h == 1:
                return axes.MoveAxisOperator(p[0], p[1], in_structure=build_struct(t['s']))
            return axes.MoveAxisOperator(tuple(p[:h]), tuple(p[h:]), in_structure=build_struct(t['s']))
        if k == 'reshape':
            return axes.ReshapeOperator(tuple(p), in_structure=build_struct(t['s']))
        if k == 'ravel':
            return axes.RavelOperator(p[0], p[1], in_structure=build_struct(t['s']))
        if k == 'rot':
            s = build_struct(t['s'])
            dt = jax.tree.leaves(s)[0].dtype
            return qu_rotations.QURotationOperator(angles_array(p, dt), s)
        if k == 'rotT':
            return qu_rotations.QURotationTransposeOperator(self.build(ch[0]))
        if k == 'hwp':
            return hwp.HWPOperator(build_struct(t['s']))
        if k == 'pol':
            return polarizers.LinearPolarizerOperator(build_struct(t['s']))
        if k == 'T':
            if ch[0]['k'] == 'obs':
                return self.build(ch[0]).T        # the hand-written ToastObservationMatrixTransposeOperator
            return core.TransposeOperator(self.build(ch[0]))
        if k == 'RT':
            return axes.ReshapeTransposeOperator(self.build(ch[0]))
        if k == 'inv':
            return core.InverseOperator(self.build(ch[0]))
        if k == 'comp':
            return core.CompositionOperator([self.build(c) for c in ch])
        if k == 'add':
            return core.AdditionOperator([self.build(c) for c in ch])
        if k in ('brow', 'bdiag', 'bcol'):
            ops = [self.build(c) for c in ch]
            cls = {'brow': blocks.BlockRowOperator, 'bdiag': blocks.BlockDiagonalOperator,
                   'bcol': blocks.BlockColumnOperator}[k]
            return cls(self.container(t['s'], ops))
        raise Unbuildable(f'kind {k}')

    # ------------------------------------------------------------------------- project
    def oid(self, op) -> int:
        key = id(op)
        if key not in self.ids:
            self.fresh += 1
            self.ids[key] = self.fresh
            self.keep.append(op)
        return self.ids[key]

    def project(self, op) -> dict:
        """real operator -> term.  Unknown classes become opaque atoms (k = 'opaque:<Class>')."""
        cls = type(op).__name__

        def term(k, s=NOS, p=(), ch=()):
            return {'k': k, 'id': self.oid(op), 's': s, 'p': [int(x) for x in p], 'ch': list(ch)}

        try:
            if cls == 'IdentityOperator':
                return term('id', project_struct(op.in_structure()))
            if cls == 'HomothetyOperator':
                fr = Fraction(float(op.value)).limit_denominator(10000)
                if abs(float(fr) - float(op.value)) > 1e-6 * max(1.0, abs(float(op.value))):
                    return term('opaque:offgrid-hom', project_struct(op.in_structure()))
                return term('hom', project_struct(op.in_structure()), (fr.numerator, fr.denominator))
            if cls == 'DenseBlockDiagonalOperator':
                blk = np.asarray(op.blocks)
                if blk.ndim == 2 and op.subscripts in ('ij,j->i', 'ji,j->i'):
                    m = blk if op.subscripts == 'ij,j->i' else blk.T
                    if np.allclose(m, np.round(m)):
                        return term('dense', project_struct(op.in_structure()),
                                    [m.shape[0], m.shape[1]] + [int(round(v)) for v in m.ravel()])
                return term('opaque:dense', project_struct(op.in_structure()))
            if cls == 'SymmetricBandToeplitzOperator':
                b = np.asarray(op.band_values)
                if b.ndim == 1 and np.allclose(b, np.round(b)):
                    return term('toep', project_struct(op.in_structure()), [int(round(v)) for v in b])
                return term('opaque:toep', project_struct(op.in_structure()))
            if cls == 'DiagonalOperator':
                v = np.asarray(op._diagonal)
                if v.ndim == 1 and np.allclose(v, np.round(v)) and tuple(op.axis_destination) in ((-1,), (0,)):
                    return term('diag', project_struct(op.in_structure()), [int(round(x)) for x in v])
                return term('opaque:diag', project_struct(op.in_structure()))
            if cls == 'DiagonalInverseOperator':
                return term('dinv', ch=[self.project(op.operator)])
            if cls == 'BroadcastDiagonalOperator':
                v = np.asarray(op._diagonal)
                if v.ndim == 2 and tuple(op.axis_destination) == (-2, -1) and np.allclose(v, np.round(v)):
                    return term('bdiagb', project_struct(op.in_structure()),
                                [v.shape[0], v.shape[1]] + [int(round(x)) for x in v.ravel()])
                return term('opaque:bdiagb', project_struct(op.in_structure()))
            if cls == 'IndexOperator':
                idx = op.indices
                if len(idx) == 1 and hasattr(idx[0], 'dtype') and idx[0].ndim == 1 and idx[0].dtype != bool:
                    return term('index', project_struct(op.in_structure()),
                                [int(bool(op.unique_indices))] + [int(i) for i in np.asarray(idx[0])])
                return term('opaque:index', project_struct(op.in_structure()))
            if cls == 'PackOperator':
                return term('pack', project_struct(op.in_structure()), [int(b) for b in np.asarray(op.mask).ravel()])
            if cls == 'MoveAxisOperator':
                return term('mvax', project_struct(op.in_structure()), list(op.source) + list(op.destination))
            if cls == 'ReshapeOperator':
                return term('reshape', project_struct(op.in_structure()), list(op.shape))
            if cls == 'RavelOperator':
                return term('ravel', project_struct(op.in_structure()), [op.first_axis, op.last_axis])
            if cls == 'QURotationOperator':
                ang = np.atleast_1d(np.asarray(op.angles, dtype=np.float64)).ravel()
                p = []
                for a in ang:
                    qa = project_angle(float(a))
                    if qa is None:
                        return term('opaque:offgrid-rot', project_struct(op.in_structure()))
                    p += qa
                return term('rot', project_struct(op.in_structure()), p)
            if cls == 'QURotationTransposeOperator':
                return term('rotT', ch=[self.project(op.operator)])
            if cls == 'HWPOperator':
                return term('hwp', project_struct(op.in_structure()))
            if cls == 'LinearPolarizerOperator':
                return term('pol', project_struct(op.in_structure()))
            if cls in ('TransposeOperator', 'ToastObservationMatrixTransposeOperator'):
                return term('T', ch=[self.project(op.operator)])
            if cls == 'ToastObservationMatrixOperator':
                m = np.asarray(op.matrix.todense())
                return term('obs', project_struct(op.in_structure()), [m.shape[0], m.shape[1]] + [int(round(v)) for v in m.ravel()])
            if cls == 'ReshapeTransposeOperator':
                return term('RT', ch=[self.project(op.operator)])
            if cls == 'InverseOperator':
                return term('inv', ch=[self.project(op.operator)])
            if cls == 'CompositionOperator':
                return term('comp', ch=[self.project(o) for o in op.operands])
            if cls == 'AdditionOperator':
                return term('add', ch=[self.project(o) for o in op.operand_leaves])
            if cls in ('BlockRowOperator', 'BlockDiagonalOperator', 'BlockColumnOperator'):
                leaves = op.block_leaves
                counter = iter(range(1, len(leaves) + 1))
                tree = jax.tree.map(lambda _: next(counter), op.blocks,
                                    is_leaf=lambda x: isinstance(x, core.AbstractLinearOperator))
                k = {'BlockRowOperator': 'brow', 'BlockDiagonalOperator': 'bdiag', 'BlockColumnOperator': 'bcol'}[cls]
                return term(k, _container_tree(tree), ch=[self.project(o) for o in leaves])
        except Exception as exc:  # projection must never raise
            return term(f'opaque:{cls}:{type(exc).__name__}')
        return term(f'opaque:{cls}')


def _container_tree(tree) -> dict:
    if isinstance(tree, int):
        return {'k': 'leaf', 'sh': [tree], 'dt': 'op', 'ch': [], 'keys': []}
    if isinstance(tree, list):
        return {'k': 'list', 'sh': [], 'dt': '', 'ch': [_container_tree(c) for c in tree], 'keys': []}
    if isinstance(tree, tuple):
        return {'k': 'tuple', 'sh': [], 'dt': '', 'ch': [_container_tree(c) for c in tree], 'keys': []}
    if isinstance(tree, dict):
        keys = sorted(tree)
        return {'k': 'dict', 'sh': [], 'dt': '', 'ch': [_container_tree(tree[k]) for k in keys], 'keys': keys}
    raise Unbuildable(type(tree).__name__)


def has_opaque(t: dict) -> bool:
    return t['k'].startswith('opaque') or any(has_opaque(c) for c in t['ch'])


# ----------------------------------------------------------------------------- dense matrices

def basis_inputs(struct):
    """Yields the pytrees e_j (j-th basis vector of the flattened input)."""
    leaves, treedef = jax.tree.flatten(struct)
    for i, leaf in enumerate(leaves):
        n = int(np.prod(leaf.shape, dtype=int))
        for j in range(n):
            arrs = [jnp.zeros(l.shape, l.dtype) for l in leaves]
            arrs[i] = jnp.zeros(n, leaf.dtype).at[j].set(1).reshape(leaf.shape)
            yield jax.tree.unflatten(treedef, arrs)


def flatten_value(y) -> np.ndarray:
    leaves = jax.tree.leaves(y)
    if not leaves:
        return np.zeros(0)
    return np.concatenate([np.asarray(l, dtype=np.float64).ravel() for l in leaves])


def dense_of(op, struct=None) -> np.ndarray:
    """Matrix of op.mv on the basis of the flattened input (columns = op(e_j))."""
    struct = op.in_structure() if struct is None else struct
    cols = [flatten_value(op.mv(x)) for x in basis_inputs(struct)]
    if not cols:
        return np.zeros((0, 0))
    return np.stack(cols, axis=1)


def mat_to_float(m: dict) -> np.ndarray:
    if m['r'] == 0 or m['c'] == 0:
        return np.zeros((m['r'], m['c']))
    return np.array(m['e'], dtype=np.float64).reshape(m['r'], m['c']) / m['d']


def install_rule_logger(log: list) -> None:
    """Run-time wrappers on the rule *instances* (FURAX_VERIF=1 only): no source hook."""
    import os

    from furax._base.rules import BINARY_RULE_REGISTRY

    if os.environ.get('FURAX_VERIF') != '1':
        return
    for rule in BINARY_RULE_REGISTRY:
        if getattr(rule, '_verif_wrapped', False):
            rule._verif_log = log
            continue
        orig = rule.apply

        def wrapped(left, right, _orig=orig, _rule=rule):
            new = _orig(left, right)
            _rule._verif_log.append((type(_rule).__name__, left, right, list(new)))
            return new

        rule.apply = wrapped
        rule._verif_wrapped = True
        rule._verif_log = log
