"""C12 - indexing and packing select, and their transposes scatter-add.

Stage 1: MC_Index.tla (NumPy reference of x[items] as an exact selection map vs the transcribed logic of
IndexOperator: unique_indices, indexed_axes, reduce, the two rules).  Stage 2: each expression on the real
IndexOperator / PackOperator (built with and without an explicit output structure) over single leaves, lists
of two leaves and Stokes containers.  Stage 3: numeric verdicts against the selection map; NumPy itself is
consulted as a second reference (a disagreement between NumPy and the spec is a machinery error)."""
from __future__ import annotations

import json
import random
import time

import fx
from redcheck import tla_set

PROP = 'C12'
NONE = 99
ALPHA_QUICK = ['i0', 'im1', 'full', 's1_', 's__2', 's__m1', 'sm2_', 'ell', 'a01', 'a11m1', 'aneg', 'a2d', 'mAlt', 'mAll', 'm2d', 'm2dAll']
ALPHA_THOROUGH = ALPHA_QUICK + ['i1', 'im2', 's_m1', 's00', 's1_m1_m1', 'a0', 'a10', 'a2du', 'mNone', 'mFirst']

CFG = """INIT Init
NEXT Next
CONSTANTS
  ShapeCodes = {{{shapes}}}
  Alphabet = {alpha}
  MaxItems = {maxitems}
INVARIANT SelectionWellFormed
INVARIANT FlagTruthful
INVARIANT PPtOnlyWhenUnique
INVARIANT PtPIsMultiplicity
INVARIANT IndexedAxesRight
INVARIANT ReduceOnlyIdentity
INVARIANT Emit
CHECK_DEADLOCK FALSE
"""


def generate(tier: str) -> fx.TlcResult:
    if tier == 'quick':
        shards = [('2, 3, 23', ALPHA_QUICK, 3), ('32, 223', ALPHA_QUICK[:12], 3)]
    else:
        shards = [('2, 3', ALPHA_THOROUGH, 3), ('23', ALPHA_THOROUGH, 3), ('32', ALPHA_THOROUGH, 3),
                  ('223, 322', ALPHA_QUICK, 3)]

    def cfg(i: int) -> str:
        s, a, m = shards[i]
        return CFG.format(shapes=s, alpha=tla_set(a), maxitems=m)

    res = fx.run_tlc_sharded('MC_Index', cfg, len(shards), workers=4, parallel=4)
    if res.violated:
        raise fx.MachineryError(f'MC_Index violates {res.violated}:\n' + res.stdout[-3000:])
    return res


def _indices(items, np_mode=False, salt=0):
    import jax.numpy as jnp
    import numpy as np

    # integer index arrays come in every integer dtype that can hold them (signed and unsigned, narrow and wide)
    signed = [np.int32, np.int8, np.int16, np.int32]
    unsigned = [np.uint8, np.int32, np.uint16, np.int16, np.uint32, np.int8]
    out = []
    for it in items:
        t = it['t']
        if t == 'int':
            out.append(int(it['a']))
        elif t == 'slice':
            out.append(slice(*[None if v == NONE else int(v) for v in it['s']]))
        elif t == 'ell':
            out.append(Ellipsis)
        elif t == 'arr':
            a = np.array(it['v'], dtype=np.int32).reshape(it['sh'])
            if not np_mode:
                a = a.astype(unsigned[salt % len(unsigned)] if a.size and a.min() >= 0 else signed[salt % len(signed)])
            out.append(a if np_mode else jnp.asarray(a))
        elif t == 'mask':
            a = np.array(it['v'], dtype=bool).reshape(it['sh'])
            out.append(a if np_mode else jnp.asarray(a))
    return tuple(out)


def execute(case: dict) -> dict:
    import jax
    import jax.numpy as jnp
    import numpy as np
    import terms
    from furax._base.core import IdentityOperator
    from furax._base.diagonal import DiagonalOperator
    from furax._base.indices import IndexOperator
    from furax._base.linear import PackOperator
    from furax.landscapes import StokesIQUPyTree

    o = {'id': case['id'], 'bad': [], 'info': []}
    bad = o['bad']
    shape = tuple(case['shape'])
    n = int(np.prod(shape))
    sel = np.array(case['sel'], dtype=int)
    oshape = tuple(case['outshape'])
    has_mask = any(it['t'] == 'mask' for it in case['items'])
    # the reference itself against NumPy
    ref = np.arange(n).reshape(shape)[_indices(case['items'], np_mode=True)]
    if ref.shape != oshape or not np.array_equal(ref.ravel(), sel):
        o['spec_vs_numpy'] = {'numpy_shape': list(ref.shape), 'numpy': ref.ravel().tolist()}
        return o
    idx = _indices(case['items'], salt=int(case['id'], 16) % 12)
    leaf = jax.ShapeDtypeStruct(shape, jnp.float32)
    oleaf = jax.ShapeDtypeStruct(oshape, jnp.float32)
    trees = {
        'leaf': (leaf, oleaf),
        'list': ([leaf, leaf], [oleaf, oleaf]),
        'stokes': (StokesIQUPyTree(leaf, leaf, leaf), StokesIQUPyTree(oleaf, oleaf, oleaf)),
    }
    which = ['leaf', 'list', 'stokes'] if case.get('all_trees') else ['leaf', ['list', 'stokes'][int(case['id'], 16) % 2]]
    kw = {'unique_indices': True} if case['given'] else {}
    for tname in which:
        ins, outs = trees[tname]
        variants = [('explicit', dict(out_structure=outs))]
        if not has_mask:
            variants.append(('default', {}))
        for vname, extra in variants:
            tag = f'{tname}/{vname}'
            try:
                op = IndexOperator(idx if len(idx) > 1 else idx[0], in_structure=ins, **kw, **extra)
            except Exception as exc:
                bad.append(f'construct[{tag}]:{type(exc).__name__}')
                o.setdefault('exc', str(exc)[:200])
                continue
            try:
                if op.out_structure() != outs:
                    bad.append(f'out_structure[{tag}]')
                # internal bookkeeping is judged at the level of the property only: a set flag must be truthful
                # (no input element selected twice); its exact value and the representation of indexed_axes are
                # the implementation's business (differences are recorded as information)
                if hasattr(op, 'unique_indices'):
                    if bool(op.unique_indices) and not case['nodup']:
                        bad.append(f'unique_indices_untruthful[{tag}]')
                    elif bool(op.unique_indices) != bool(case['unique']):
                        o['info'].append(f'unique_flag_differs[{tag}]')
                if hasattr(op, 'indexed_axes'):
                    rank = len(shape)
                    nitems = len(case['items'])
                    if sorted(a % max(nitems, 1) for a in op.indexed_axes) != sorted(a % max(nitems, 1) for a in case['indexed_axes']):
                        o['info'].append(f'indexed_axes_differs[{tag}]')
                leaves_in = jax.tree.leaves(ins)
                xs = [jnp.arange(n, dtype=jnp.float32).reshape(shape) * (k + 1) for k in range(len(leaves_in))]
                x = jax.tree.unflatten(jax.tree.structure(ins), xs)
                y = op(x)
                for k, yl in enumerate(jax.tree.leaves(y)):
                    if tuple(yl.shape) != oshape or not np.array_equal(np.asarray(yl).ravel(), sel * (k + 1)):
                        bad.append(f'mv[{tag}]')
                        break
                # transpose: accumulates the selected positions into a zero array
                m = len(sel)
                ys = [jnp.arange(1, m + 1, dtype=jnp.float32).reshape(oshape) * (k + 1) for k in range(len(leaves_in))]
                yt = jax.tree.unflatten(jax.tree.structure(outs), ys)
                xt = op.T(yt)
                want = np.zeros(n)
                np.add.at(want, sel, np.arange(1, m + 1))
                for k, xl in enumerate(jax.tree.leaves(xt)):
                    if tuple(xl.shape) != shape or not np.allclose(np.asarray(xl).ravel(), want * (k + 1)):
                        bad.append(f'transpose[{tag}]')
                        break
                if vname == 'explicit' or not has_mask:
                    red = op.reduce()
                    if isinstance(red, IdentityOperator) and not case['reduce_id']:
                        bad.append(f'reduce_identity_wrong[{tag}]')
                    if case['reduce_id'] and not isinstance(red, IdentityOperator):
                        o['info'].append(f'reduce_missed[{tag}]')
                    # P @ P.T
                    ppt = (op @ op.T).reduce()
                    if isinstance(ppt, IdentityOperator) and not case['nodup']:
                        bad.append(f'ppt_identity_with_duplicates[{tag}]')
                    if case['ppt'] and not isinstance(ppt, IdentityOperator):
                        o['info'].append(f'ppt_missed[{tag}]')
                    if tname == 'leaf':
                        S = np.zeros((m, n))
                        S[np.arange(m), sel] = 1
                        if m * n <= 400:
                            if not np.allclose(terms.dense_of(ppt), S @ S.T):
                                bad.append(f'ppt_matrix[{tag}]')
                            ptp = (op.T @ op).reduce()
                            if not np.allclose(terms.dense_of(ptp), np.diag(np.array(case['mult'], dtype=float))):
                                bad.append(f'ptp_matrix[{tag}]')
                            if case['ptp'] and not isinstance(ptp, DiagonalOperator):
                                o['info'].append(f'ptp_missed[{tag}]')
                    elif case['ptp']:
                        ptp = (op.T @ op).reduce()
                        xo = ptp(x)
                        for k, xl in enumerate(jax.tree.leaves(xo)):
                            if not np.allclose(np.asarray(xl).ravel(), np.array(case['mult']) * np.arange(n) * (k + 1)):
                                bad.append(f'ptp_apply[{tag}]')
                                break
            except Exception as exc:
                bad.append(f'raised[{tag}]:{type(exc).__name__}')
                o.setdefault('exc', str(exc)[:300])
    # the pack operator behaves as indexing every leaf by its mask
    if len(case['items']) == 1 and case['items'][0]['t'] == 'mask' and len(case['items'][0]['sh']) <= len(shape):
        mask = _indices(case['items'])[0]
        for tname in ('leaf', 'stokes'):
            ins, outs = trees[tname]
            try:
                pk = PackOperator(mask, ins)
                xs = [jnp.arange(n, dtype=jnp.float32).reshape(shape) * (k + 1) for k in range(len(jax.tree.leaves(ins)))]
                x = jax.tree.unflatten(jax.tree.structure(ins), xs)
                y = pk(x)
                for k, yl in enumerate(jax.tree.leaves(y)):
                    if not np.array_equal(np.asarray(yl).ravel(), sel * (k + 1)):
                        bad.append(f'pack_mv[{tname}]')
                        break
                if pk.out_structure() != outs:
                    bad.append(f'pack_out_structure[{tname}]')
                # reduce() of the pack operator (alone and under a scalar factor) still packs
                for rk, rop in (('pack', pk.reduce()), ('scaled', (2 * pk).reduce())):
                    yr = rop(x)
                    f = 1 if rk == 'pack' else 2
                    if rop.out_structure() != outs or jax.tree.structure(yr) != jax.tree.structure(y) or any(
                            tuple(a.shape) != tuple(b.shape) or not np.array_equal(np.asarray(a), f * np.asarray(b))
                            for a, b in zip(jax.tree.leaves(yr), jax.tree.leaves(y))):
                        bad.append(f'pack_reduce[{tname}/{rk}]')
                m = len(sel)
                ys = [jnp.arange(1, m + 1, dtype=jnp.float32).reshape(oshape) * (k + 1) for k in range(len(xs))]
                xt = pk.T(jax.tree.unflatten(jax.tree.structure(outs), ys))
                want = np.zeros(n)
                np.add.at(want, sel, np.arange(1, m + 1))
                for k, xl in enumerate(jax.tree.leaves(xt)):
                    if not np.allclose(np.asarray(xl).ravel(), want * (k + 1)):
                        bad.append(f'pack_transpose[{tname}]')
                        break
                if not isinstance((pk @ pk.T).reduce(), IdentityOperator):
                    o['info'].append(f'pack_unpack_missed[{tname}]')
            except Exception as exc:
                bad.append(f'pack_raised[{tname}]:{type(exc).__name__}')
                o.setdefault('exc', str(exc)[:300])
    return o


def judge(cases, results, verd) -> int:
    by_id = {c['id']: c for c in cases}
    acc = 0
    for r in results:
        c = by_id[r['id']]
        label = f"{''.join(map(str, c['shape']))}:{','.join(c['syms'])}:{'u' if c['given'] else 'd'}"
        if 'spec_vs_numpy' in r:
            raise fx.MachineryError(f'FxIndex disagrees with NumPy on {label}: {r["spec_vs_numpy"]}')
        if r['bad']:
            kinds = sorted({b.split('[')[0] for b in r['bad']})
            verd.report(f"{'+'.join(kinds)}:{label}", '+'.join(kinds), c, r)
        else:
            acc += 1
    return acc


def run(tier: str, seed: int) -> int:
    t0 = time.time()
    verd = fx.Verdicts(PROP)
    gen = generate(tier)
    cases = gen.cases
    for c in cases:
        c['id'] = fx.case_id({'s': c['shape'], 'y': c['syms'], 'g': c['given']})
    rng = random.Random(seed)
    if tier == 'quick':
        picked, strata = fx.stratified_sample(
            cases, lambda c: (len(c['shape']), tuple(sorted(set(s[0] for s in c['syms']))), c['ptp'], c['ppt'], c['reduce_id'],
                              c['given']), 12, seed)
        if len(picked) > 1500:
            picked = rng.sample(picked, 1500)
    else:
        picked = cases
    for c in picked:
        c['all_trees'] = tier != 'quick'
    picked.sort(key=lambda c: (c['shape'], c['outshape']))
    results = fx.replay('c12', 'execute', picked, procs=fx.NPROC, chunksize=max(4, len(picked) // 64))
    acc = judge(picked, results, verd)
    rc = verd.finish()
    infos = {}
    for r in results:
        for i in r.get('info', []):
            k = i.split('[')[0]
            infos[k] = infos.get(k, 0) + 1
    fx.write_evidence(PROP, tier, seed, {
        'states': gen.distinct, 'transitions': gen.generated, 'traces_validated_against_impl': acc,
        'evaluations': len(results),
        'distinct_nontrivial': fx.nontrivial_count(picked, lambda c: not c['reduce_id']),
        'rule': 'cases = every legal expression of at most 3 items over the symbolic alphabet (ints, slices with steps 1/2/-1, '
                'ellipsis, integer arrays of rank 1-2 with negative and repeated entries, boolean masks of rank 1-2) per leaf '
                'shape, with and without the caller asserting unique_indices; replayed = all (thorough) / stratified by rank x '
                'item kinds x rule applicability (quick), each on a single leaf and on a list / Stokes container, built with and '
                'without out_structure; non-trivial = the expression is not the identity selection',
        'exhaustive': len(picked) == len(cases), 'emitted': len(cases), 'replayed': len(picked),
        'missed_simplifications': infos,
        'samples': [{k: picked[i][k] for k in ('shape', 'syms', 'outshape', 'sel', 'indexed_axes', 'ppt', 'ptp')}
                    for i in (0, len(picked) // 2)],
    }, ['at most one array-like item per expression in the TLA+ reference (ints next to it take part in advanced indexing)',
        'JAX index arrays only; in-bounds indices; leaf rank <= 3, dims 2..3'],
        time.time() - t0, len(verd.violations))
    return rc


def replay_file(path: str) -> int:
    doc = json.loads(open(path).read())
    case = doc['case'] if 'case' in doc else doc
    case['all_trees'] = True
    verd = fx.Verdicts(PROP)
    res = fx.replay('c12', 'execute', [case], procs=1)
    judge([case], res, verd)
    print(json.dumps(res[0], indent=1))
    return verd.finish()
