"""C01 - reducing an operator never changes the linear map it denotes."""
import redcheck


def run(tier: str, seed: int) -> int:
    return redcheck.run('C01', tier, seed)


def replay_file(path: str) -> int:
    return redcheck.replay_file('C01', path)
