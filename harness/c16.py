"""C16 - the acquisition operator equals the explicit pointing model.

Stage 1: MC_Pointing.tla (exact Z-Y-Z rotations of exact detector directions, one sample per step).
Stage 2: create_projection_operator / create_acquisition on real HealpixLandscape, Sampling, DetectorArray for
every emitted layout x pointing sequence x Stokes kind x nside; the pixel of an exact direction is supplied by
healpy.vec2pix (directions within a margin of a pixel border are dropped and counted).
Stage 3: numeric verdicts against the explicit model: TOD entries of the projection, of the SAT acquisition
(before and after reduction), and P^T P as the diagonal of hit counts (before and after reduction)."""
from __future__ import annotations

import json
import math
import random
import time

import fx

PROP = 'C16'

CFG = """INIT Init
NEXT Next
CONSTANTS
  Layouts = {{{layouts}}}
  Pointings = {{{pointings}}}
  MaxSamp = {maxsamp}
INVARIANT LoopInv
INVARIANT Counts
INVARIANT Emit
CHECK_DEADLOCK FALSE
"""


def generate(tier: str) -> fx.TlcResult:
    if tier == 'quick':
        cfg = CFG.format(layouts='1,2,3,4,5,6', pointings='1,2,3,4,5,6,7,8,9,10,11,12,13,14,15,16,17', maxsamp=2)
    else:
        cfg = CFG.format(layouts='1,2,3,4,5,6', pointings='1,2,3,4,5,6,7,8,9,10,11,12,13,14,15,16,17', maxsamp=3)
    res = fx.run_tlc('MC_Pointing', cfg, workers=6)
    if res.violated:
        raise fx.MachineryError(f'MC_Pointing violates {res.violated}:\n' + res.stdout[-3000:])
    return res


def _pix(nside, v, margin):
    """pixel of the exact direction, None when a pixel border is within `margin`."""
    import healpy as hp
    import numpy as np

    x, y, z = v[0] / v[3], v[1] / v[3], v[2] / v[3]
    p0 = int(hp.vec2pix(nside, x, y, z))
    # two unit vectors orthogonal to v
    a = np.array([x, y, z])
    e = np.eye(3)[int(np.argmin(np.abs(a)))]
    t1 = np.cross(a, e)
    t1 /= np.linalg.norm(t1)
    t2 = np.cross(a, t1)
    for k in range(8):
        d = math.cos(k * math.pi / 4) * t1 + math.sin(k * math.pi / 4) * t2
        w = a + margin * d
        if int(hp.vec2pix(nside, *w)) != p0:
            return None
    return p0


def execute(case: dict) -> dict:
    import jax
    import jax.numpy as jnp
    import numpy as np
    from furax.detectors import DetectorArray
    from furax.instruments.sat import create_acquisition
    from furax.landscapes import HealpixLandscape, StokesPyTree
    from furax.projections import create_projection_operator
    from furax.samplings import Sampling

    x64 = bool(jax.config.jax_enable_x64)
    o = {'id': case['id'], 'bad': [], 'dropped': 0, 'checked': 0, 'x64': x64}
    bad = o['bad']
    stokes, nside = case['stokes'], case['nside']
    margin = 1e-6 if x64 else 2e-3
    tol = 1e-9 if x64 else 2e-4
    dirs = case['dirs']
    ndet, ndir, nsamp = len(dirs), len(dirs[0]), len(case['angles'])
    ang = lambda a: math.atan2(a[1], a[0])
    phi = np.array([ang(a[0]) for a in case['angles']])
    theta = np.array([ang(a[1]) for a in case['angles']])
    pa = np.array([ang(a[2]) for a in case['angles']])
    c2 = np.array([d[0] / d[2] for d in case['double_pa']])
    s2 = np.array([d[1] / d[2] for d in case['double_pa']])
    # expected pixels from the exact rotated directions
    pix = np.full((ndet, ndir, nsamp), -1, dtype=int)
    for t in range(nsamp):
        for d in range(ndet):
            for m in range(ndir):
                p = _pix(nside, case['rotated'][t][d][m], margin)
                if p is None:
                    o['dropped'] += 1
                else:
                    pix[d, m, t] = p
    npix = 12 * nside * nside
    comps = list(stokes)
    scale = 1000.0 * (len(comps) + 1)      # magnitude of the sky values: errors are relative to it (cancellation)
    sky_np = {c: (k + 1) * 1000.0 + np.arange(npix) * 1.0 + 0.25 * k for k, c in enumerate(comps)}
    try:
        landscape = HealpixLandscape(nside, stokes, np.float64 if x64 else np.float32)
        samplings = Sampling(jnp.asarray(theta), jnp.asarray(phi), jnp.asarray(pa))
        dets = DetectorArray(np.array([[v[0] for v in row] for row in dirs], dtype=float),
                             np.array([[v[1] for v in row] for row in dirs], dtype=float),
                             np.array([[v[2] for v in row] for row in dirs], dtype=float))
        sky = StokesPyTree.from_stokes(*[jnp.asarray(sky_np[c], dtype=landscape.dtype) for c in comps])
        proj = create_projection_operator(landscape, samplings, dets)
    except Exception as exc:
        bad.append(f'projection_construction:{type(exc).__name__}')
        o['exc'] = str(exc)[:300]
        return o

    def expected(component, d, m, t):
        p = pix[d, m, t]
        g = lambda c: sky_np[c][p] if c in sky_np else 0.0
        if component == 'I':
            return g('I')
        if component == 'Q':
            return g('Q') * c2[t] - g('U') * s2[t]
        if component == 'U':
            return g('Q') * s2[t] + g('U') * c2[t]
        return g('V')

    def tod_entry(arr, d, m, t):
        a = np.asarray(arr, dtype=np.float64)
        return a[d, t] if ndir == 1 else a[d, m, t]

    try:
        tod = proj(sky)
        want_shape = (ndet, nsamp) if ndir == 1 else (ndet, ndir, nsamp)
        if tuple(tod.shape) != want_shape or proj.out_structure() != jax.eval_shape(lambda: tod):
            bad.append('projection_shape')
        else:
            for c in comps:
                arr = getattr(tod, c.lower())
                for d in range(ndet):
                    for m in range(ndir):
                        for t in range(nsamp):
                            if pix[d, m, t] < 0:
                                continue
                            o['checked'] += 1
                            w = expected(c, d, m, t)
                            if abs(tod_entry(arr, d, m, t) - w) > tol * scale:
                                bad.append(f'projection_value:{c}')
        # the same after reduction
        tod_r = proj.reduce()(sky)
        for c in comps:
            if not np.allclose(np.asarray(getattr(tod_r, c.lower())), np.asarray(getattr(tod, c.lower())),
                               rtol=tol, atol=tol):
                bad.append('projection_reduced_differs')
    except Exception as exc:
        bad.append(f'projection_apply:{type(exc).__name__}')
        o['exc'] = str(exc)[:300]
    # P^T P = diagonal of hit counts per Stokes component
    try:
        hits = np.zeros(npix)
        full = True
        for d in range(ndet):
            for m in range(ndir):
                for t in range(nsamp):
                    if pix[d, m, t] < 0:
                        full = False
                    else:
                        hits[pix[d, m, t]] += 1
        if full:
            ptp = proj.T @ proj
            for label, op in (('unreduced', ptp), ('reduced', ptp.reduce())):
                out = op(sky)
                for c in comps:
                    if not np.allclose(np.asarray(getattr(out, c.lower()), dtype=np.float64), hits * sky_np[c],
                                       rtol=tol * 10, atol=tol * 10):
                        bad.append(f'ptp_{label}:{c}')
            if nside == 1:
                mat = np.asarray(ptp.reduce().as_matrix(), dtype=np.float64)
                if not np.allclose(mat, np.diag(np.concatenate([hits] * len(comps))), atol=tol * 10):
                    bad.append('ptp_matrix')
    except Exception as exc:
        bad.append(f'ptp:{type(exc).__name__}')
        o['exc'] = str(exc)[:300]
    # SAT acquisition: (I + Q cos 2psi - U sin 2psi) / 2 at the pixel
    try:
        acq = create_acquisition(landscape, samplings, dets)
        y = np.asarray(acq(sky), dtype=np.float64)
        for d in range(ndet):
            for m in range(ndir):
                for t in range(nsamp):
                    if pix[d, m, t] < 0:
                        continue
                    p = pix[d, m, t]
                    g = lambda c: sky_np[c][p] if c in sky_np else 0.0
                    w = 0.5 * (g('I') + g('Q') * c2[t] - g('U') * s2[t])
                    got = y[d, t] if ndir == 1 else y[d, m, t]
                    o['checked'] += 1
                    if abs(got - w) > tol * scale:
                        bad.append('acquisition_value')
        # identically before and after reduction: the unreduced chain is rebuilt from its parts
        from furax.operators.hwp import HWPOperator
        from furax.operators.polarizers import LinearPolarizerOperator
        unreduced = LinearPolarizerOperator(proj.out_structure()) @ HWPOperator(proj.out_structure()) @ proj
        y0 = np.asarray(unreduced(sky), dtype=np.float64)
        if y0.shape != y.shape or not np.allclose(y0, y, rtol=tol, atol=tol):
            bad.append('acquisition_reduced_differs')
    except Exception as exc:
        bad.append(f'acquisition:{type(exc).__name__}:ndir={ndir}')
        o['exc'] = str(exc)[:300]
    o['bad'] = sorted(set(bad))
    return o


def py_case(layout: int, dirs: list, angles: list) -> dict:
    """The case MC_Pointing would emit for these (cos, sin, den) angle triples and integer unit directions: a literal
    transcription of FxPointing.Rot / Rotated / Double in Python integers (no 32-bit bound), cross-checked against every
    case TLC emitted.  Used for pointings whose exact (cos, sin) need more than 32 bits: colatitudes within a milliradian
    of the poles."""
    from math import gcd

    rotated, double_pa = [], []
    for phi, theta, pa in angles:
        c1, s1, d1 = phi
        c2, s2, d2 = theta
        c3, s3, d3 = pa
        rows = [[-s1 * s3 * d2 + c1 * c2 * c3, -s1 * c3 * d2 - c1 * c2 * s3, c1 * s2 * d3],
                [c1 * s3 * d2 + s1 * c2 * c3, c1 * c3 * d2 - s1 * c2 * s3, s1 * s2 * d3],
                [-s2 * c3 * d1, s2 * s3 * d1, c2 * d1 * d3]]
        den = d1 * d2 * d3
        per_det = []
        for det in dirs:
            per_dir = []
            for v in det:
                w = [sum(rows[i][k] * v[k] for k in range(3)) for i in range(3)] + [den * v[3]]
                g = 0
                for x in w:
                    g = gcd(g, abs(x))
                g = g or 1
                per_dir.append([x // g for x in w])
            per_det.append(per_dir)
        rotated.append(per_det)
        dp = [c3 * c3 - s3 * s3, 2 * c3 * s3, d3 * d3]
        g = gcd(gcd(abs(dp[0]), abs(dp[1])), dp[2]) or 1
        double_pa.append([x // g for x in dp])
    return {'layout': layout, 'samples': [0] * len(angles), 'dirs': dirs, 'angles': angles, 'double_pa': double_pa,
            'rotated': rotated, 'python_transcription': True}


def near_pole_cases() -> list[dict]:
    """Boresight and off-axis detectors pointed within a milliradian of either pole (not at the pole itself, where four
    pixels meet): (cos, sin) = (+-(n^2 - 1), 2n, n^2 + 1) / (n^2 + 1) for n = 2000, 2500, 5000."""
    out = []
    k = 0
    for n in (2000, 2500, 5000):
        for sign in (-1, 1):
            theta = [sign * (n * n - 1), 2 * n, n * n + 1]
            for phi, pa in (([3, 4, 5], [1, 0, 1]), ([-5, -12, 13], [4, -3, 5]), ([8, 15, 17], [0, 1, 1])):
                for layout, dirs in ((101, [[[0, 0, 1, 1]]]), (102, [[[0, 0, 1, 1]], [[1, 2, 2, 3]]])):
                    c = py_case(layout, dirs, [[phi, theta, pa]])
                    c['samples'] = [1000 + k]
                    k += 1
                    out.append(c)
    return out


def run(tier: str, seed: int) -> int:
    t0 = time.time()
    verd = fx.Verdicts(PROP)
    gen = generate(tier)
    # the Python transcription reproduces every case TLC emitted (rotated directions and doubled position angles)
    for c in gen.cases:
        mine = py_case(c['layout'], c['dirs'], c['angles'])
        norm = lambda v: [x * (1 if v[3] > 0 else -1) for x in v]
        same = all(norm(a) == norm(b) for ra, rb in zip(mine['rotated'], c['rotated']) for da, db in zip(ra, rb) for a, b in zip(da, db))
        if not same or [list(x) for x in mine['double_pa']] != [list(x) for x in c['double_pa']]:
            raise fx.MachineryError(f"Python transcription of FxPointing disagrees with TLC on layout {c['layout']} samples {c['samples']}")
    rng = random.Random(seed)
    jobs = []
    kinds = ['I', 'QU', 'IQU', 'IQUV']
    nsides = [1, 2, 4] if tier == 'quick' else [1, 2, 4, 8]
    cases = gen.cases
    if tier == 'quick':
        single = [c for c in cases if len(c['samples']) == 1]
        multi = [c for c in cases if len(c['samples']) > 1]
        cases = single + rng.sample(multi, min(len(multi), 330))
    else:
        # thorough: every sequence of one or two pointings in 8 (Stokes, nside) combinations, a seeded sample of 1500
        # sequences of three in 2 combinations (TLC still covers all of them at design level)
        short = [c for c in cases if len(c['samples']) <= 2]
        long3 = [c for c in cases if len(c['samples']) > 2]
        cases = short + rng.sample(long3, min(len(long3), 1500))
    for i, c in enumerate(cases):
        combos = [(s, n) for s in kinds for n in nsides]
        if tier == 'quick':
            combos = rng.sample(combos, 1)
        else:
            combos = rng.sample(combos, 8 if len(c['samples']) <= 2 else 2)
        for s, n in combos:
            j = dict(c, stokes=s, nside=n)
            j['id'] = fx.case_id({'l': c['layout'], 's': c['samples'], 'k': s, 'n': n})
            jobs.append(j)
    for c in near_pole_cases():
        for s, n in rng.sample([(s, n) for s in kinds for n in nsides], 2):
            j = dict(c, stokes=s, nside=n)
            j['id'] = fx.case_id({'l': c['layout'], 's': c['samples'], 'k': s, 'n': n})
            jobs.append(j)
    jobs.sort(key=lambda j: (j['nside'], j['stokes'], j['layout'], len(j['samples'])))
    acc, n, dropped, checked = 0, 0, 0, 0
    samples = []
    for x64 in (True, False):
        sub = jobs if x64 else jobs[::3]
        res = fx.replay('c16', 'execute', sub, x64=x64, procs=fx.NPROC, chunksize=max(4, len(sub) // 64))
        by_id = {j['id']: j for j in sub}
        for r in res:
            j = by_id[r['id']]
            dropped += r['dropped']
            checked += r['checked']
            if r['bad']:
                label = f"layout={j['layout']}:samples={j['samples']}:{j['stokes']}:nside={j['nside']}:{'x64' if x64 else 'x32'}"
                clause = '+'.join(b.split(':')[0] for b in r['bad'])
                verd.report(f"{'+'.join(r['bad'])}:{label}", clause, j, r)
            else:
                acc += 1
        n += len(res)
        samples.append({'layout': sub[0]['layout'], 'samples': sub[0]['samples'], 'rotated': sub[0]['rotated'], 'obs': res[0]})
    rc = verd.finish()
    fx.write_evidence(PROP, tier, seed, {
        'states': gen.distinct, 'transitions': gen.generated, 'traces_validated_against_impl': acc,
        'evaluations': n,
        'distinct_nontrivial': fx.nontrivial_count(jobs, lambda j: len(j['samples']) >= 2 or j['layout'] > 1),
        'rule': 'cases = 6 detector layouts (1-2 detectors x 1-2 directions, exact unit vectors) x every sequence of <= MaxSamp '
                'pointings out of 12 exact Z-Y-Z Euler triples (TLC) x Stokes kind x nside (all in thorough, 2 seeded '
                'combinations per sequence in quick); non-trivial = more than one sample or more than one direction',
        'exhaustive': False, 'emitted_sequences': len(gen.cases), 'tod_entries_checked': checked, 'entries_dropped_near_pixel_border': dropped,
        'samples': samples,
    }, ['the pixel containing an exact direction is given by healpy.vec2pix (C17 binds furax to healpy); entries whose '
        'direction is within 1e-6 (x64) / 2e-3 (x32) of a pixel border are dropped and counted',
        'pointings from the exact family (quarter turns and Pythagorean angles), not arbitrary reals'],
        time.time() - t0, len(verd.violations))
    return rc


def replay_file(path: str) -> int:
    doc = json.loads(open(path).read())
    case = doc['case'] if 'case' in doc else doc
    verd = fx.Verdicts(PROP)
    for x64 in (True, False):
        res = fx.replay('c16', 'execute', [case], x64=x64, procs=1)
        print(json.dumps(res[0], indent=1))
        if res[0]['bad']:
            verd.report('+'.join(res[0]['bad']) + ':replay', 'replay', case, res[0])
    return verd.finish()
