"""Generation of nested expressions (MC_Nested.tla) for C01 / C07 / C10."""
from __future__ import annotations

import fx
from redcheck import tla_set

CFG = """INIT Init
NEXT Next
CONSTANTS
  Pool = {pool}
  Templates = {{{tpl}}}
INVARIANT NoRaise
INVARIANT Sound
INVARIANT TypesKept
INVARIANT ReachesNF
INVARIANT Emit
CHECK_DEADLOCK FALSE
"""

POOL_QUICK = ['A', 'AI', 'DI', 'I2v', 'G', 'R1', 'Hw']
POOL_THOROUGH = ['A', 'AI', 'D', 'DI', 'H2', 'I2v', 'G', 'GT', 'R1', 'R1T', 'Hw', 'Pr', 'PrT']
TEMPLATES = list(range(1, 13))


def generate(tier: str) -> fx.TlcResult:
    pool = POOL_QUICK if tier == 'quick' else POOL_THOROUGH

    groups = [TEMPLATES[i::3] for i in range(3)]

    def cfg(i: int) -> str:
        return CFG.format(pool=tla_set(pool), tpl=', '.join(str(t) for t in groups[i]))

    res = fx.run_tlc_sharded('MC_Nested', cfg, len(groups), workers=6, parallel=3)
    if res.violated:
        raise fx.MachineryError(f'MC_Nested violates {res.violated} at design level:\n' + res.stdout[-3000:])
    return res
